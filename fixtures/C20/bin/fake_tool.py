"""Fake external program for the C20 check (ClustalO / MUSCLE 3 / MUSCLE 5 / MAFFT / tantan command lines).

Behaviour = basename of the executable that exec'd this file (see the stubs next to it):
  ok reorder garbage_empty garbage_ragged garbage_missing garbage_length garbage_tree exit3 hang
  hang_ignore_term (never exits and ignores SIGTERM)
  sigkill (writes complete, valid output, then dies by SIGKILL: negative return code)
  bigout (like ok, but first writes 200 KiB of progress messages to STDERR: more than a pipe buffer, so the program
          blocks until somebody reads the pipe; it cannot be seen "finished" by polling alone)
  dup_records (valid rows, but the record of input 0 is written twice: a stale copy first, the valid one last)
  garbage_extra (one record too many), garbage_header (the last header is not an input index)
  garbage_short (row 1 has lost its last residue: one symbol too few, everything else intact)
  garbage_swap (equal row lengths, right headers; row 0 has one symbol too many, row 1 one too few: the totals agree)
Environment (inherited through Popen):
  C20_GATE     path; the tool blocks until this file exists (so the harness decides when it "finishes")
  C20_LOG      path; the tool appends what it produced (JSON lines), the oracle reads it
  C20_VERSION  version string printed for `-version`
The "alignment": every input row is right-padded with '-' to the longest row + its index % 2 leading gaps.
"""
import json
import os
import sys
import time


def read_fasta(path):
    recs, name = [], None
    for line in open(path):
        line = line.rstrip("\n")
        if line.startswith(">"):
            name = line[1:].strip()
            recs.append([name, ""])
        elif name is not None:
            recs[-1][1] += line.strip()
    return recs


def main():
    behaviour = os.path.basename(sys.argv[0])
    args = sys.argv[1:]
    if "-version" in args or "--version" in args:
        print("FAKE v" + os.environ.get("C20_VERSION", "3.8.31"))
        return 0
    log = os.environ.get("C20_LOG")

    def emit(**kw):
        if log:
            with open(log, "a") as f:
                f.write(json.dumps(dict(kw, pid=os.getpid(), cwd=os.getcwd())) + "\n")

    if behaviour == "hang_ignore_term":
        import signal
        signal.signal(signal.SIGTERM, signal.SIG_IGN)     # only SIGKILL ends this one
    extra = {}
    if "--distmat-in" in args:                # ClustalO: what the wrapper wrote for us
        try:
            extra["distmat_in"] = open(args[args.index("--distmat-in") + 1]).read()
        except OSError as e:
            extra["distmat_in"] = "unreadable: " + str(e)
    emit(event="started", behaviour=behaviour, args=args, **extra)
    if behaviour in ("hang", "hang_ignore_term"):
        end = time.time() + 600
        while time.time() < end:
            time.sleep(1)
        return 0
    gate = os.environ.get("C20_GATE")
    if gate:
        while not os.path.exists(gate):
            time.sleep(0.002)
    if behaviour == "bigout":
        emit(event="bigout-begin")
        sys.stderr.write(("progress " * 12 + "\n") * 2000)      # ~ 218 KiB > 64 KiB pipe buffer: blocks until drained
        sys.stderr.flush()
    if behaviour == "exit3":
        sys.stderr.write("boom\nsecond line\n")
        emit(event="exit", code=3)
        return 3

    def opt(name):
        return args[args.index(name) + 1] if name in args else None

    def die():
        """Killed by a signal *after* everything was written: Popen.returncode is -9."""
        import signal
        sys.stdout.flush()
        emit(event="exit", code=-9)
        os.kill(os.getpid(), signal.SIGKILL)
        time.sleep(60)

    to_stdout = False
    trees = []
    distmat_out = None
    if "--in" in args:                       # clustalo
        inp, out = opt("--in"), opt("--out")
        trees = [opt("--guidetree-out")] if "--guidetree-out" in args else []
        distmat_out = opt("--distmat-out")
    elif "-in" in args:                      # muscle 3
        inp, out = opt("-in"), opt("-out")
        trees = [opt("-tree1"), opt("-tree2")]
    elif "-align" in args or "-super5" in args:   # muscle 5
        inp, out = (opt("-align") or opt("-super5")), opt("-output")
    elif "--treeout" in args:                # mafft
        inp, out, to_stdout = args[-1], None, True
        trees = [inp + ".tree"]
    elif "-x" in args:                       # tantan: masked FASTA on stdout (result parsing is out of scope: always valid)
        for name, seq in read_fasta(args[-1]):
            sys.stdout.write(f">{name}\n{seq[:1].replace(seq[:1], '!')}{seq[1:]}\n")
        if behaviour == "sigkill":
            die()
        emit(event="exit", code=0)
        return 0
    elif "--plain" in args:                  # bare LocalApp: no files at all
        if "--read-stdin" in args:
            emit(event="stdin", data=sys.stdin.read())
        sys.stdout.write("plain output\n")
        if behaviour == "sigkill":
            die()
        emit(event="exit", code=0)
        return 0
    else:
        sys.stderr.write("fake_tool: unknown command line\n")
        return 2

    recs = read_fasta(inp)
    width = max(len(s) for _, s in recs) + 1
    rows = []
    for k, (name, s) in enumerate(recs):
        s = "-" * (k % 2) + s
        rows.append([name, s + "-" * (width - len(s))])
    if behaviour == "reorder":
        rows = rows[1:] + rows[:1]      # a rotation: not an involution for n >= 3
    if behaviour == "garbage_missing":
        rows = rows[:-1]
    if behaviour == "garbage_ragged":
        rows[0][1] += "--"
    if behaviour == "garbage_length":
        # equal row lengths, right headers, but row 0 has one residue more than input sequence 0
        rows[0][1] = rows[0][1][:-1] + "A"
    if behaviour == "garbage_short":
        # a residue of input 1 got lost: its last letter is a gap now (row lengths, headers and all other rows intact)
        r1 = rows[1][1]
        last = max(i for i, ch in enumerate(r1) if ch != "-")
        rows[1][1] = r1[:last] + "-" + r1[last + 1:]
    if behaviour == "garbage_swap":
        # the errors cancel: +1 symbol in row 0 (a trailing gap becomes a letter), -1 in row 1 (its last letter becomes a gap)
        rows[0][1] = rows[0][1][:-1] + "A"
        r1 = rows[1][1]
        last = max(i for i, ch in enumerate(r1) if ch != "-")
        rows[1][1] = r1[:last] + "-" + r1[last + 1:]
    if behaviour == "dup_records":
        # the record of input 0 appears twice, the later copy is the (shifted) one that counts for a dict-like reader
        first = rows[0][1]
        rows = [[rows[0][0], first[-1] + first[:-1]]] + rows[1:] + [[rows[0][0], first]]
    if behaviour == "garbage_extra":
        rows.append([str(len(rows)), rows[0][1]])          # one record more than there were input sequences
    if behaviour == "garbage_header":
        rows[-1][0] = "seq" + rows[-1][0]                  # a header that is not an input index
    if behaviour == "garbage_empty":
        text = ""
        rows = []
    else:
        if behaviour == "reorder":
            # real programs wrap long records: write the rows in lines of 5 characters
            text = "".join(f">{n}\n" + "".join(s[i:i + 5] + "\n" for i in range(0, len(s), 5)) for n, s in rows)
        else:
            text = "".join(f">{n}\n{s}\n" for n, s in rows)
    if to_stdout:
        sys.stdout.write(text)
    else:
        with open(out, "w") as f:
            f.write(text)
    n = len(recs)
    newick = "(" * (n - 1) + "0:1.0" + "".join(f",{i}:1.0):1.0" for i in range(1, n - 1)) + f",{n - 1}:1.0);"
    if to_stdout:   # mafft prefixes leaf names with "<number>_"
        newick = "(" * (n - 1) + "1_0:1.0" + "".join(f",{i + 1}_{i}:1.0):1.0" for i in range(1, n - 1)) + f",{n}_{n - 1}:1.0);"
    if behaviour == "garbage_tree":
        newick = "((this is not ; newick"
    for k, t in enumerate(trees):
        nw = newick
        if len(trees) == 2 and k == 0 and behaviour != "garbage_tree" and n >= 3:
            # MUSCLE 3 writes two trees (-tree1: k-mer iteration, -tree2: identity iteration): make them different,
            # tree1 is the caterpillar over the *reversed* index order ((..((n-1,n-2),n-3)..),0)
            nw = "(" * (n - 1) + f"{n - 1}:1.0" + "".join(f",{i}:1.0):1.0" for i in range(n - 2, 0, -1)) + ",0:1.0);"
        with open(t, "w") as f:
            f.write(nw + "\n")
    if distmat_out:
        with open(distmat_out, "w") as f:
            f.write(f"{n}\n" + "".join(f"{i} " + " ".join(f"{abs(i - j):.1f}" for j in range(n)) + "\n" for i in range(n)))   # d(i,j) = |i-j|
    if behaviour == "sigkill":
        die()
    emit(event="exit", code=0, rows=rows, order=[r[0] for r in rows], trees=trees)
    return 0


if __name__ == "__main__":
    sys.exit(main())

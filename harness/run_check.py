#!/venv/bin/python
"""Entry point of every registered check:  run_check.py Cxx quick|thorough | --replay file

Pipeline (DESIGN.md §2.1, §4):
  0 establish the .pyx <-> generated C <-> binary tie for the extensions the property is anchored in
  1 regenerate Gen/*.lean from /repo's current source (translator part of the tie)
  2 lake build the property's theorems, 3 audit axioms and forbidden constructs
  4 correspondence: same seeded cases through the real code and through the Lean model, diff
  5 property oracle on the real code (independent of the model): the failing-input search.
    It always runs on corpus + known-finding witnesses + generated cases, and is widened
    (plugin.search) when an obligation or the correspondence broke.
  6 verdict, evidence.
"""
import ast
import importlib
import json
import os
import subprocess
import sys
import time
import traceback

HERE = os.path.dirname(os.path.abspath(__file__))
sys.path.insert(0, HERE)

from common import extload, findings, lean, paths, util  # noqa: E402

GLOBAL_TRUSTED = [
    "Lean 4.33.0 kernel; axioms limited to propext, Classical.choice, Quot.sound (audited per theorem on every run)",
    "correspondence harness (generators, canonicalisers, Lean line-protocol driver) ties the hand-written model to /repo",
    "tools/gen translators (Python ast / text extraction) for the regenerated Gen/*.lean tables",
    "numpy, CPython, gcc-compiled Cython output: modelled by documented semantics, not verified",
]


def plugin_meta(prop):
    """Read constant assignments of the plugin without importing it (biotite must not be imported yet)."""
    path = os.path.join(HERE, "props", prop.lower() + ".py")
    tree = ast.parse(open(path).read())
    meta = {}
    for node in tree.body:
        if isinstance(node, ast.Assign) and len(node.targets) == 1 and isinstance(node.targets[0], ast.Name):
            try:
                meta[node.targets[0].id] = ast.literal_eval(node.value)
            except Exception:
                pass
    return meta


def write_if_changed(path, content):
    os.makedirs(os.path.dirname(path), exist_ok=True)
    try:
        if open(path).read() == content:
            return False
    except OSError:
        pass
    with open(path, "w") as f:
        f.write(content)
    return True


class Run:
    def __init__(self, prop, tier, seed):
        self.prop, self.tier, self.seed = prop, tier, seed
        self.problems = []  # broken obligations / tie problems: dicts {kind, name, detail}
        self.t0 = time.time()

    def problem(self, kind, name, detail=""):
        self.problems.append({"kind": kind, "name": name, "detail": str(detail)[:1500]})


def main():
    if len(sys.argv) < 3:
        print("usage: check Cxx quick|thorough | --replay <file>")
        return 2
    prop = sys.argv[1].upper()
    replay_file = None
    if sys.argv[2] == "--replay":
        replay_file = sys.argv[3]
        tier = "quick"
    elif sys.argv[2] in ("quick", "thorough"):
        tier = sys.argv[2]
    else:
        print("tier must be quick or thorough")
        return 2
    seed = int(os.environ.get("VERIF_SEED", "0"))
    run = Run(prop, tier, seed)
    meta = plugin_meta(prop)
    props_mod = meta.get("PROPS_MODULE", f"BiotiteModel.Props.{prop}")
    driver_mod = meta.get("DRIVER_MODULE", f"BiotiteModel.Driver.{prop}")

    # ---- 0: extension tie (before biotite is imported)
    ext_problems, ext_info = extload.prepare(meta.get("EXT_MODULES", []))
    for p in ext_problems:
        run.problem(p["kind"], p["module"], p["detail"])

    # biotite is imported from the tree under test (default /repo; VERIF_REPO for scratch copies)
    sys.path.insert(0, paths.SRC)
    plugin = importlib.import_module("props." + prop.lower())

    # ---- 1: regenerate Gen files
    gen_changed = []
    if hasattr(plugin, "gen_lean"):
        try:
            for rel, content in plugin.gen_lean().items():
                if write_if_changed(os.path.join(paths.LEAN, rel), content):
                    gen_changed.append(rel)
        except Exception as e:  # extractor refuses to guess -> tie broken
            run.problem("gen-extract", getattr(plugin, "GEN_NAME", "Gen"), f"{type(e).__name__}: {e}")

    # ---- 2: build
    mods = [props_mod, driver_mod]
    clean = tier == "thorough" and replay_file is None
    ok, log, failing, build_s = lean.build(mods, clean=clean, only=prop)
    names = lean.theorems_in(props_mod)
    undischarged = {}
    if not ok:
        for mod, ths in failing.items():
            for t in ths:
                run.problem("lean-build", f"{mod}:{t}", log[-1200:])
        if props_mod in failing or "?" in failing or not os.path.exists(
                os.path.join(paths.LEAN, ".lake/build/lib/lean", props_mod.replace(".", "/") + ".olean")):
            bad = set(failing.get(props_mod, [])) if props_mod in failing else set(names)
            if "?" in bad or not bad:
                bad = set(names)
            for n in bad:
                undischarged[n] = "does not compile"
            if not (bad & set(names)):
                for n in names:
                    undischarged[n] = "module does not compile"
    # ---- 3: audit
    src_hits = lean.source_audit(mods)
    for h in src_hits:
        run.problem("lean-audit-source", h, "forbidden construct outside comments")
    axioms_used = {}
    audit_names = [n for n in names if n not in undischarged]
    if audit_names and os.path.exists(os.path.join(paths.LEAN, ".lake/build/lib/lean", props_mod.replace(".", "/") + ".olean")):
        res, aout = lean.audit_axioms(prop, props_mod, audit_names)
        for n in audit_names:
            ax = res.get(n)
            if ax is None:
                undischarged[n] = "axiom audit produced no result"
                run.problem("lean-audit", n, aout[-500:])
            else:
                axioms_used[n] = sorted(ax)
                extra = ax - lean.ALLOWED_AXIOMS
                if extra:
                    undischarged[n] = "uses axioms " + ",".join(sorted(extra))
                    run.problem("lean-audit", n, undischarged[n])
    if src_hits:
        for n in names:
            undischarged.setdefault(n, "source audit failed")
    if not names:
        run.problem("lean-build", props_mod, "no theorems found")
    checker_note = ""
    if tier == "thorough" and ok and replay_file is None and os.environ.get("VERIF_SKIP_LEANCHECKER") != "1":
        okc, outc = lean.leanchecker(lean.imports_closure([props_mod]))
        checker_note = " && lake env leanchecker <modules>"
        if not okc:
            run.problem("leanchecker", props_mod, outc)
            for n in names:
                undischarged.setdefault(n, "leanchecker rejected")

    # ---- 4/5: cases
    open_f, fixed_f = findings.load(prop)
    rng = util.rng_for(seed, prop + "/" + tier)
    cases = []
    if replay_file:
        rp = json.load(open(replay_file))
        cases = [dict(c, _origin="replay") for c in rp.get("cases", [])]
    else:
        for e in open_f.values():
            if e.get("witness") is not None:
                cases.append(dict(e["witness"], _origin="known:" + e["key"]))
        for e in fixed_f:
            if e.get("witness") is not None:
                cases.append(dict(e["witness"], _origin="fixed:" + e.get("key", "")))
        cdir = os.path.join(paths.CORPUS, prop)
        if os.path.isdir(cdir):
            for fn in sorted(os.listdir(cdir)):
                if fn.endswith(".json"):
                    c = json.load(open(os.path.join(cdir, fn)))
                    for cc in (c if isinstance(c, list) else [c]):
                        cases.append(dict(cc, _origin="corpus:" + fn))
        if hasattr(plugin, "corpus"):
            cases += [dict(c, _origin="builtin") for c in plugin.corpus()]
        cases += [dict(c, _origin="gen") for c in plugin.cases(rng, tier)]

    result = evaluate(run, plugin, cases, driver_ok=ok or driver_mod not in failing)
    # widen the search when something broke and no unlisted violation was found yet
    broke = bool(run.problems) or bool(result["disagreements"])
    new_viol = [v for v in result["violations"] if v["key"] not in open_f]
    if broke and not new_viol and replay_file is None and hasattr(plugin, "search"):
        rng2 = util.rng_for(seed, prop + "/search")
        extra = [dict(c, _origin="search") for c in plugin.search(rng2, run.problems + result["disagreements"], tier)]
        r2 = evaluate(run, plugin, extra, driver_ok=False, oracle_only=True)
        result["violations"] += r2["violations"]
        result["n_oracle"] += r2["n_oracle"]
        result["searched"] = len(extra)
        new_viol = [v for v in result["violations"] if v["key"] not in open_f]

    # ---- 6: verdict
    os.makedirs(paths.REPLAYS, exist_ok=True)
    # replay names: stable for a run on /repo; a run against a scratch tree (VERIF_REPO) gets its own tag, so that two
    # concurrent runs never write (or later read) each other's files.  Stale files of this run's own name are removed first.
    rtag = f"{prop}-{tier}-seed{seed}" + (f"-alt{os.getpid()}" if os.environ.get("VERIF_REPO") else "")
    if replay_file is None:
        import glob as _glob
        for old in _glob.glob(os.path.join(paths.REPLAYS, rtag + "-*.json")):
            if os.path.abspath(old) != os.path.abspath(replay_file or ""):
                try:
                    os.remove(old)
                except OSError:
                    pass
    exit_code = 0
    printed = set()
    for v in result["violations"]:
        if v["key"] in open_f and v["key"] not in printed:
            printed.add(v["key"])
            print(f"KNOWN-FINDING: property={prop} {open_f[v['key']]['what']}")
    reported = set()
    for i, v in enumerate(new_viol):
        if v["key"] in reported:
            continue
        reported.add(v["key"])
        case = v["case"]
        if hasattr(plugin, "shrink"):
            try:
                case = plugin.shrink(case, v["key"])
            except Exception:
                pass
        rp = os.path.join(paths.REPLAYS, f"{rtag}-{len(reported)}.json")
        with open(rp, "w") as f:
            json.dump({"property": prop, "seed": seed, "tier": tier, "kind": "failing-input", "key": v["key"],
                       "message": v["message"], "cases": [strip_private(case)],
                       "broken": run.problems}, f, indent=1, default=str)
        print(f"VIOLATION property={prop} replay={rp}")
        print(f"  failing input [{v['key']}]: {v['message'][:300]}")
        exit_code = 1
        if len(reported) >= 5:
            break
    if broke and not new_viol:
        rp = os.path.join(paths.REPLAYS, f"{rtag}-tie.json")
        with open(rp, "w") as f:
            json.dump({"property": prop, "seed": seed, "tier": tier, "kind": "no-failing-input-found",
                       "broken": run.problems,
                       "disagreements": [dict(d, case=strip_private(d["case"])) for d in result["disagreements"][:10]],
                       "cases": [strip_private(d["case"]) for d in result["disagreements"][:10]],
                       "note": "the named theorem / Gen obligation / correspondence stream no longer checks; "
                               "the oracle found no input on which the property fails"}, f, indent=1, default=str)
        what = "; ".join(sorted({p["kind"] + ":" + p["name"] for p in run.problems})[:6])
        if result["disagreements"]:
            what += f"; correspondence:{len(result['disagreements'])} disagreeing case(s), first kind={result['disagreements'][0]['case'].get('kind')}"
        print(f"  broken: {what}")
        print(f"VIOLATION property={prop} replay={rp} no-failing-input-found")
        exit_code = 1

    # evidence
    obligations = len(names)
    discharged = len([n for n in names if n not in undischarged])
    trusted = GLOBAL_TRUSTED + list(getattr(plugin, "TRUSTED", []))
    cov = {
        "obligations": max(obligations, 1),
        "discharged": discharged,
        "checker_cmd": f"cd lean && lake build {props_mod} && lake env lean .lake/audit/{prop}.lean  # #print axioms per theorem" + checker_note,
        "trusted_base": trusted,
        "theorems": {n: ("discharged; axioms=" + ",".join(axioms_used.get(n, []))) if n not in undischarged else "NOT discharged: " + undischarged[n] for n in names},
        "gen_regenerated": sorted(getattr(plugin, "GEN_FILES", [])),
        "gen_changed_this_run": gen_changed,
        "ext_modules": ext_info,
        "evaluations": result["n_cases"],
        "distinct_nontrivial": result["distinct_nontrivial"],
        "rule": getattr(plugin, "RULE", ""),
        "samples": result["samples"],
        "traces_validated_against_impl": result["n_compared"],
        "oracle_evaluations": result["n_oracle"],
        "disagreements": len(result["disagreements"]),
        "distribution": result["distribution"],
        "known_findings_reproduced": sorted(printed),
        "broken": run.problems,
        "build_s": round(build_s, 1),
    }
    ev = {
        "property_id": prop, "tier": tier, "seed": seed, "level": "proof", "coverage": cov,
        "assumptions": list(getattr(plugin, "ASSUMPTIONS", [])),
        "wall_s": round(time.time() - run.t0, 2),
        "violations": len(reported) + (1 if broke and not new_viol else 0),
    }
    if replay_file is None:
        os.makedirs(paths.EVIDENCE, exist_ok=True)
        with open(os.path.join(paths.EVIDENCE, prop + ".json"), "w") as f:
            json.dump(ev, f, indent=1, default=str)
    print(f"{prop} {tier}: theorems {discharged}/{obligations} discharged, {result['n_cases']} cases "
          f"({result['distinct_nontrivial']} distinct non-trivial), {result['n_compared']} compared with the model, "
          f"{len(result['disagreements'])} disagreements, {len(result['violations'])} oracle violations "
          f"({len(printed)} known), {ev['wall_s']} s -> exit {exit_code}")
    return exit_code


_CRUMB = None


def _crumb(stage, case):
    """Breadcrumb for the supervisor: which case the process was working on, should it die (a segfault or abort in a
    compiled extension of the code under test must end as a verdict with that case as the failing input, not as a dead check)."""
    global _CRUMB
    path = os.environ.get("VERIF_CRUMB")
    if not path:
        return
    try:
        if _CRUMB is None:
            _CRUMB = open(path, "w")
        _CRUMB.seek(0)
        _CRUMB.truncate()
        json.dump({"stage": stage, "case": strip_private(case)}, _CRUMB, default=str)
        _CRUMB.flush()
    except Exception:
        pass


def supervise():
    """Run the check in a child process; if the child dies abnormally, report the case it was working on."""
    prop = sys.argv[1].upper() if len(sys.argv) > 1 else "?"
    tier = sys.argv[2] if len(sys.argv) > 2 and sys.argv[2] in ("quick", "thorough") else "quick"
    seed = int(os.environ.get("VERIF_SEED", "0"))
    os.makedirs(paths.BUILD, exist_ok=True)
    crumb = os.path.join(paths.BUILD, f"crumb-{prop}-{os.getpid()}.json")
    env = dict(os.environ, VERIF_SUPERVISED="1", VERIF_CRUMB=crumb)
    t0 = time.time()
    try:
        rc = subprocess.call([sys.executable, os.path.abspath(__file__)] + sys.argv[1:], env=env)
        if rc in (0, 1, 2):
            return rc
        info = None
        try:
            info = json.load(open(crumb))
        except Exception:
            pass
        os.makedirs(paths.REPLAYS, exist_ok=True)
        rp = os.path.join(paths.REPLAYS, f"{prop}-{tier}-seed{seed}-died.json")
        how = f"signal {-rc}" if rc < 0 else f"exit status {rc}"
        with open(rp, "w") as f:
            json.dump({"property": prop, "seed": seed, "tier": tier,
                       "kind": "failing-input" if info else "no-failing-input-found",
                       "key": f"{prop}/check-process-died",
                       "message": f"the process running the code under test died ({how})"
                                  + (f" during {info['stage']} of the case below" if info else " before any case was run"),
                       "cases": [info["case"]] if info else [], "broken": []}, f, indent=1, default=str)
        print(f"  the process running the code under test died ({how})" + (f" in {info['stage']} of case kind={info['case'].get('kind')}" if info else ""))
        print(f"VIOLATION property={prop} replay={rp}" + ("" if info else " no-failing-input-found"))
        if len(sys.argv) > 2 and sys.argv[2] != "--replay":
            try:
                meta = plugin_meta(prop)
                os.makedirs(paths.EVIDENCE, exist_ok=True)
                with open(os.path.join(paths.EVIDENCE, prop + ".json"), "w") as f:
                    json.dump({"property_id": prop, "tier": tier, "seed": seed, "level": "proof",
                               "coverage": {"obligations": 1, "discharged": 0, "checker_cmd": "(run aborted)", "trusted_base": GLOBAL_TRUSTED,
                                            "evaluations": 1 if info else 0, "distinct_nontrivial": 0, "rule": meta.get("RULE", ""),
                                            "samples": [info["case"]] if info else ["(none: the process died before the first case)"],
                                            "broken": [{"kind": "process-died", "name": prop, "detail": how}]},
                               "wall_s": round(time.time() - t0, 2), "violations": 1}, f, indent=1, default=str)
            except Exception:
                pass
        return 1
    finally:
        try:
            os.remove(crumb)
        except OSError:
            pass


def strip_private(case):
    return {k: v for k, v in case.items() if not k.startswith("_")}


def evaluate(run, plugin, cases, driver_ok=True, oracle_only=False):
    prop = run.prop
    res = {"n_cases": len(cases), "n_compared": 0, "n_oracle": 0, "disagreements": [], "violations": [],
           "samples": [], "distribution": {}, "distinct_nontrivial": 0}
    impl_outs = []
    dist = {}
    for c in cases:
        k = c.get("kind", "?")
        dist[k] = dist.get(k, 0) + 1
        if oracle_only or not c.get("ops"):
            impl_outs.append(None)
            continue
        _crumb("run_impl", c)
        try:
            out = plugin.run_impl(c)
        except Exception as e:  # noqa: BLE001
            out = [f"UNCAUGHT:{type(e).__name__}:{str(e)[:100]}"]
            if os.environ.get("VERIF_DEBUG"):
                traceback.print_exc()
        impl_outs.append(out)
    # Lean side
    lean_outs = [None] * len(cases)
    if not oracle_only and driver_ok:
        lines = []
        spans = []
        for i, c in enumerate(cases):
            if impl_outs[i] is None:
                continue
            start = len(lines)
            lines.append("case")
            lines += list(c["ops"])
            spans.append((i, start, len(lines)))
        if lines:
            try:
                out, rc, err = lean.run_driver(prop, lines)
            except subprocess.TimeoutExpired:
                out, rc, err = [], 124, "driver timeout"
            if rc != 0 or len(out) != len(lines):
                run.problem("lean-driver", prop, f"rc={rc} got {len(out)} lines for {len(lines)}: {err[-600:]}")
            else:
                for i, a, b in spans:
                    lean_outs[i] = out[a + 1:b]
    seen = set()
    for i, c in enumerate(cases):
        io, lo = impl_outs[i], lean_outs[i]
        if io is not None and lo is not None:
            res["n_compared"] += 1
            if io != lo:
                k = next((j for j in range(min(len(io), len(lo))) if io[j] != lo[j]), min(len(io), len(lo)))
                res["disagreements"].append({
                    "kind": "correspondence", "name": c.get("kind", "?"), "case": c, "first_diff_op": k,
                    "op": c["ops"][k] if k < len(c["ops"]) else None,
                    "impl": io[k] if k < len(io) else None, "model": lo[k] if k < len(lo) else None})
        _crumb("oracle", c)
        try:
            viol = plugin.oracle(c) if hasattr(plugin, "oracle") else []
            res["n_oracle"] += 1
        except Exception as e:  # noqa: BLE001
            # An exception ESCAPING plugin.oracle is a fault of the harness (an oracle reports what the code under test raises under a key
            # of its own): it means the oracle could not judge this case — a broken tie, not a failing input.
            viol = []
            if sum(1 for p_ in run.problems if p_["kind"] == "oracle-error") < 5:
                run.problem("oracle-error", c.get("kind", "?"), f"oracle raised {type(e).__name__}: {str(e)[:300]} on case {util.jdump(strip_private(c))[:400]}")
            if os.environ.get("VERIF_DEBUG"):
                traceback.print_exc()
        for key, msg in viol or []:
            res["violations"].append({"key": key, "message": msg, "case": c})
        try:
            nt = plugin.nontrivial(c, io) if hasattr(plugin, "nontrivial") else True
        except Exception:
            nt = False
        if nt:
            sig = plugin.signature(c) if hasattr(plugin, "signature") else util.jdump(strip_private(c))
            if sig not in seen:
                seen.add(sig)
        if len(res["samples"]) < 6 and c.get("_origin") == "gen" and (i % max(1, len(cases) // 6) == 0):
            res["samples"].append({"case": strip_private(c), "impl": io, "model": lo})
    if not res["samples"] and cases:
        res["samples"].append({"case": strip_private(cases[0]), "impl": impl_outs[0], "model": lean_outs[0]})
    res["distinct_nontrivial"] = len(seen)
    res["distribution"] = dist
    if hasattr(plugin, "distribution"):
        try:
            res["distribution"] = {"kinds": dist, **plugin.distribution(cases, impl_outs)}
        except Exception:
            pass
    return res


if __name__ == "__main__":
    try:
        sys.exit(main() if os.environ.get("VERIF_SUPERVISED") == "1" else supervise())
    except subprocess.TimeoutExpired as e:
        print("TIMEOUT", e)
        sys.exit(2)
    except Exception:
        traceback.print_exc()
        sys.exit(2)

"""C15 — Geometry is rigid-motion invariant; periodic helpers act by lattice vectors.

Two streams (see notes/C15.md):

* exact stream (cases with ``ops``): inputs are dyadic rationals that are exactly representable
  in the float dtype used, boxes have power-of-two lengths (orthorhombic, any axis permutation /
  sign; float64 lower-triangular dyadic triclinic boxes), so every intermediate of the real code
  is exact and its result can be printed as exact rationals and compared, op by op, with the
  Lean model (``Driver/C15.lean``).
* float stream (cases without ``ops``): arbitrary float32/float64 coordinates, rotated
  orthogonal boxes, triclinic boxes from unit cells, molecules wrapped across faces.  Judged only
  by the oracle, which is written from the property statement: textbook definitions, invariance
  under rigid motions (rational rotation matrices from integer quaternions and biotite's own
  transforms), index variant == coordinate variant, lattice membership + minimum image by
  enumeration of the +-2 images, inverse pairs.  Tolerances = k * eps(dtype) * magnitude.
"""
import ast
import math
import os
from fractions import Fraction as Fr

PROP = "C15"
PROPS_MODULE = "BiotiteModel.Props.C15"
DRIVER_MODULE = "BiotiteModel.Driver.C15"
EXT_MODULES = []
GEN_FILES = ["BiotiteModel/Gen/C15.lean"]
RULE = ("exact stream: dyadic coordinates of shapes (3,), (n,3), (m,n,3) incl. broadcast mixes, power-of-two "
        "orthorhombic boxes (all axis permutations/signs), float64 dyadic triclinic boxes, per-model boxes, through "
        "displacement/index_displacement/distance (ndarrays and AtomArray/AtomArrayStack objects carrying their own box, with and without an explicit box)/coord_to_fraction/fraction_to_coord/move_inside_box/"
        "remove_pbc_from_coord/remove_pbc/repeat_box(_coord)/is_orthogonal/box_volume/centroid/90-degree unit cells, compared as exact "
        "rationals with the Lean model; float stream: random float32/float64 geometry judged by the oracle "
        "(textbook formulae, rigid-motion invariance, lattice enumeration; periodic distance/angle/dihedral with every consecutive atom pair split across a box face; properness of every transform.py helper incl. (nearly) antiparallel align_vectors and rotation axes of every length; unit cells of rotated / permuted / mirrored boxes; strongly skewed cells with molecules wrapped by mixed lattice vectors; molecules whose atoms are interleaved in the array (all O, all H1, all H2); remove_pbc with selection / chains / stacks; one object reused across in-place changes; refused calls change nothing; the same values in other spellings (layouts, dtypes, NumPy scalars); orient_principal_components, dihedral_backbone, util helpers; histories with one box array changed in place + purity). non-trivial = at least two distinct "
        "coordinates and (box given => some coordinate pair crosses a box face) or an error branch; "
        "distinct = different (kind, ops / float payload)")
TRUSTED = ["numpy broadcasting, matmul, linalg.inv/det, fancy indexing, cumsum modelled by their documented semantics",
           "python Fraction(float) is exact; the exact stream relies on IEEE arithmetic being exact on the generated dyadic inputs"]
ASSUMPTIONS = ["IEEE float32/float64 rounding is not modelled: theorems are over Q (and over any commutative ring for the "
               "rigid-motion identities); floats are covered by the tolerance oracle only",
               "sqrt / arccos / arctan2 / cos / sin are not modelled: the theorems speak about the rational arguments "
               "(squared distance, cosine numerator and squared denominator, the two atan2 arguments)",
               "unit cell <-> box vector trigonometry is validated numerically only"]
LEVEL_TEXT = ("Lean 4 proofs over Q / commutative rings for: rigid-motion invariance of squared distance, angle cosine and "
              "both dihedral atan2 arguments; index variants == coordinate variants with the documented box (explicit box overrides the atoms' own box; branch order re-extracted from the source); orthogonal-box displacement is a "
              "lattice translate of the difference and the shortest image (all integer shifts); triclinic displacement "
              "is a lattice translate and the shortest image whenever some image is shorter than half the smallest box "
              "height (squared form); displacement and the periodic distance/angle/dihedral arguments are unchanged when any "
              "atom is wrapped by a lattice vector (every box); move_inside_box lands in [0,1)^3, moves by a lattice vector, is idempotent; "
              "coord_to_fraction/fraction_to_coord are mutually inverse; repeat_box enumerates every lattice shift of the "
              "cube exactly once; remove_pbc_from_coord moves every atom by a lattice vector and leaves array neighbours at "
              "their minimum-image displacement, i.e. every pair of array neighbours of a molecule ends as the shortest of its "
              "own periodic images (orthorhombic always, triclinic below half height; unchanged by remove_pbc's centroid "
              "translation). Unit cell <-> vectors: only the algebraic core (C15_unitcell_inverse_partial: given sin^2 = 1 - cos^2 "
              "and c_z^2 = c^2 - c_x^2 - c_y^2 the box has the requested squared lengths and dot products, over any field) and "
              "the exact orthorhombic sub-case are theorems. Partial: floats, sqrt/arccos/atan2/cos/sin, the round-off "
              "clean-up of vectors_from_unitcell, and bonded but not array-adjacent atoms (known finding: remove_pbc follows "
              "array order) are checked numerically only.")
LEVEL_NOTE = ("model tied to the code by an exact-rational differential stream and by Gen/C15.lean (constants and loop "
              "ranges re-extracted from geometry.py / box.py on every run); float behaviour judged by a tolerance oracle")
TECHNIQUE = "Lean 4 proof (polynomial identities, floor/argmin lemmas, list induction) + exact-rational correspondence + float oracle"

K_ARRAY_FAR = "C15/remove_pbc/bonded-atoms-not-array-adjacent-and-far-apart"
K_UNITCELL_SNAP = "C15/vectors_from_unitcell/small-component-zeroed-by-sum-scaled-tolerance"   # repaired (c1ca2e86); regression key
K_REPEAT_AMOUNT = "C15/repeat_box/amount-ignored"
K_REPEAT_STACK = "C15/repeat_box/stack-copies-taken-from-other-models"


# =====================================================================================
# translator (Gen)
# =====================================================================================
def _func(tree, name):
    for n in tree.body:
        if isinstance(n, ast.FunctionDef) and n.name == name:
            return n
    raise ValueError(f"function {name} not found")


def _const_fraction(node, src):
    """Exact rational value of a numeric literal as written in the source (1e-6 -> 1/10^6)."""
    if isinstance(node, ast.UnaryOp) and isinstance(node.op, ast.USub):
        return -_const_fraction(node.operand, src)
    if not (isinstance(node, ast.Constant) and isinstance(node.value, (int, float)) and not isinstance(node.value, bool)):
        raise ValueError("numeric literal expected, got " + ast.dump(node)[:80])
    seg = ast.get_source_segment(src, node)
    from decimal import Decimal
    return Fr(Decimal(seg.replace("_", "")))


def _lean_rat(q):
    q = Fr(q)
    return f"(({q.numerator} : Rat) / {q.denominator})"


def _int_range(call, src):
    if not (isinstance(call, ast.Call) and isinstance(call.func, ast.Name) and call.func.id == "range" and len(call.args) == 2):
        raise ValueError("range(a, b) expected")
    a, b = (_const_fraction(x, src) for x in call.args)
    if a.denominator != 1 or b.denominator != 1:
        raise ValueError("integer range bounds expected")
    return list(range(int(a), int(b)))


def _amount_offset(node, src, negate):
    """`-amount` -> 0, `-amount + c`/`amount + c` -> c (the literal offset next to `amount`)."""
    def is_amount(n):
        if negate:
            return isinstance(n, ast.UnaryOp) and isinstance(n.op, ast.USub) and isinstance(n.operand, ast.Name) and n.operand.id == "amount"
        return isinstance(n, ast.Name) and n.id == "amount"
    if is_amount(node):
        return 0
    if isinstance(node, ast.BinOp) and isinstance(node.op, (ast.Add, ast.Sub)) and is_amount(node.left):
        c = _const_fraction(node.right, src)
        if c.denominator != 1:
            raise ValueError("integer offset expected")
        return int(c) if isinstance(node.op, ast.Add) else -int(c)
    raise ValueError("unrecognised range bound in repeat_box_coord: " + ast.dump(node)[:80])


# ---- structural lookup: private helpers and locals are found by what they contain, never by their name -----------
def _module_funcs(tree):
    return [n for n in tree.body if isinstance(n, ast.FunctionDef)]


def _find_func(tree, what, pred):
    hits = [f for f in _module_funcs(tree) if pred(f)]
    if len(hits) != 1:
        raise ValueError(f"{what}: expected exactly one such function, found {[h.name for h in hits]}")
    return hits[0]


def _is_ortho_helper(f):
    return any(isinstance(n, ast.AugAssign) and isinstance(n.target, ast.Subscript) and isinstance(n.target.slice, ast.Compare)
               for n in ast.walk(f))


def _is_tric_helper(f):
    return any(isinstance(n, ast.Call) and _callname(n) in ("argmin", "argmax") for n in ast.walk(f)) and not f.name.startswith("index_") \
        and f.name not in ("displacement",)


def _index_dispatcher(gt):
    """the private function all four public index_* wrappers return a call of"""
    names = set()
    for w_ in ("index_displacement", "index_distance", "index_angle", "index_dihedral"):
        f_ = _func(gt, w_)
        rets = [n.value for n in ast.walk(f_) if isinstance(n, ast.Return) and isinstance(n.value, ast.Call)]
        if len(rets) != 1:
            raise ValueError(f"{w_}: `return <dispatcher>(function, width, *args, **kwargs)` not found")
        names.add(_callname(rets[0]))
    if len(names) != 1:
        raise ValueError(f"the index wrappers call different dispatchers: {sorted(names)}")
    return _func(gt, names.pop())


def _loop_range(f, loop):
    """the `range(a, b)` call a loop runs over, also when it was given a name first (`offsets = range(a, b)`)"""
    it = _resolve(loop.iter, _single_assigns(f))
    return it if isinstance(it, ast.Call) and _callname(it) == "range" and len(it.args) == 2 else None


def _range_loops(f):
    """`for v in range(a, b)` loops of f in source order"""
    loops = [n for n in ast.walk(f) if isinstance(n, ast.For) and isinstance(n.target, ast.Name) and _loop_range(f, n) is not None]
    return sorted(loops, key=lambda n: (n.lineno, n.col_offset))


def _nested3(f, what):
    """three directly nested range loops (outer, middle, inner)"""
    for a_ in _range_loops(f):
        for b_ in a_.body:
            if isinstance(b_, ast.For) and b_ in _range_loops(f):
                for c_ in b_.body:
                    if isinstance(c_, ast.For) and c_ in _range_loops(f):
                        return a_, b_, c_
    raise ValueError(f"{what}: three nested `for ... in range(a, b)` loops not found")


def _single_assigns(f):
    """name -> expr for names assigned exactly once by a plain `name = expr`"""
    cnt, val = {}, {}
    for n in ast.walk(f):
        if isinstance(n, ast.Assign) and len(n.targets) == 1 and isinstance(n.targets[0], ast.Name):
            cnt[n.targets[0].id] = cnt.get(n.targets[0].id, 0) + 1
            val[n.targets[0].id] = n.value
        elif isinstance(n, (ast.AugAssign, ast.For)) and isinstance(getattr(n, "target", None), ast.Name):
            cnt[n.target.id] = cnt.get(n.target.id, 0) + 2
    return {k_: v_ for k_, v_ in val.items() if cnt[k_] == 1}


def _resolve(node, asg, depth=6):
    while depth and isinstance(node, ast.Name) and node.id in asg:
        node, depth = asg[node.id], depth - 1
    return node


def _param_names(f):
    a = f.args
    return [x.arg for x in a.posonlyargs + a.args + a.kwonlyargs] + ([a.vararg.arg] if a.vararg else []) + ([a.kwarg.arg] if a.kwarg else [])


def _alpha_map(f, private_params=()):
    """locals (and the given private parameters) -> L0, L1, ... in order of first binding"""
    params = set(_param_names(f)) - set(private_params)
    order = list(private_params)
    binds = []
    for n in ast.walk(f):
        if isinstance(n, ast.Name) and isinstance(n.ctx, ast.Store):
            binds.append((n.lineno, n.col_offset, n.id))
    for _, _, nm in sorted(binds):
        if nm not in params and nm not in order:
            order.append(nm)
    return {nm: f"L{i}" for i, nm in enumerate(order)}


def _unp(node, ren, inline=None):
    """ast.unparse with locals renamed (alpha-normal form); `inline`: single-assignment locals replaced by their definition"""
    import copy
    node = copy.deepcopy(node)

    class R(ast.NodeTransformer):
        def visit_Name(self, n):  # noqa: N802
            if inline and n.id in inline and isinstance(n.ctx, ast.Load):
                return self.visit(copy.deepcopy(inline[n.id]))
            if n.id in ren:
                return ast.copy_location(ast.Name(id=ren[n.id], ctx=n.ctx), n)
            return n
    return ast.unparse(R().visit(node))


def _box_choice_table(f):
    """Which box does the index dispatcher hand on?  The body is interpreted for every combination of
    (periodic, explicit box given, atoms is an AtomArray/Stack, atoms.box is not None); tests on other things are taken
    as false (valid input).  -> {(periodic, explicit, is_atoms, own): 'None' | 'box' | 'atoms.box' | 'raise'}"""
    def cond(t, env):
        if isinstance(t, ast.Name) and t.id == "periodic":
            return env["periodic"]
        if isinstance(t, ast.UnaryOp) and isinstance(t.op, ast.Not):
            v_ = cond(t.operand, env)
            return None if v_ is None else not v_
        if isinstance(t, ast.BoolOp):
            vs = [cond(v_, env) for v_ in t.values]
            if any(v_ is None for v_ in vs):
                return None
            return all(vs) if isinstance(t.op, ast.And) else any(vs)
        if isinstance(t, ast.Compare) and len(t.ops) == 1 and isinstance(t.ops[0], (ast.Is, ast.IsNot)) \
                and isinstance(t.comparators[0], ast.Constant) and t.comparators[0].value is None:
            left = ast.unparse(t.left)
            if left == "box":
                is_none = env["cur"] == "None" if env["cur"] in ("None",) else (not env["explicit"] if env["cur"] == "box" else not env["own"])
            elif left == "atoms.box":
                is_none = not env["own"]
            else:
                return None
            return is_none if isinstance(t.ops[0], ast.Is) else not is_none
        if isinstance(t, ast.Call) and _callname(t) == "isinstance" and ast.unparse(t.args[0]) == "atoms":
            return env["is_atoms"]
        return None

    def run(stmts, env):
        for st in stmts:
            if isinstance(st, ast.If):
                c = cond(st.test, env)
                if c is None:
                    continue                      # a test on something else (index width, ...): valid input passes
                r = run(st.body if c else st.orelse, env)
                if r is not None:
                    return r
            elif isinstance(st, ast.Raise):
                return "raise"
            elif isinstance(st, ast.Assign) and len(st.targets) == 1 and ast.unparse(st.targets[0]) == "box":
                v_ = ast.unparse(st.value)
                if v_ not in ("None", "atoms.box"):
                    raise ValueError(f"index dispatcher: unexpected `box = {v_}`")
                env["cur"] = v_
            elif isinstance(st, ast.Return):
                if not (isinstance(st.value, ast.Call) and st.value.args):
                    raise ValueError("index dispatcher: unexpected return")
                last = ast.unparse(st.value.args[-1])
                if last == "box":
                    last = env["cur"]
                if last not in ("None", "box", "atoms.box"):
                    raise ValueError(f"index dispatcher: unexpected box argument `{last}`")
                if last == "box" and not env["explicit"]:
                    last = "None"                 # the explicit argument is None
                if last == "atoms.box" and not env["own"]:
                    last = "None"                 # the attribute is None
                return last
        return None
    tab = {}
    for per in (False, True):
        for exp in (False, True):
            for isa in (False, True):
                for own in (False, True):
                    if own and not isa:
                        continue
                    env = {"periodic": per, "explicit": exp, "is_atoms": isa, "own": own, "cur": "box"}
                    r = run(f.body, env)
                    if r is None:
                        raise ValueError("index dispatcher: a path without return")
                    tab[(per, exp, isa, own)] = r
    return tab


def _precedence_of(tab):
    def want(explicit_first):
        t = {}
        for (per, exp, isa, own) in tab:
            if not per:
                r = "None"
            elif explicit_first:
                r = "box" if exp else ("atoms.box" if own else ("None" if isa else "raise"))
            else:
                r = "atoms.box" if (isa and own) else ("box" if exp else "raise")
            t[(per, exp, isa, own)] = r
        return t
    if tab == want(True):
        return "explicitFirst"
    if tab == want(False):
        return "ownFirst"
    raise ValueError(f"index dispatcher: unrecognised box selection {sorted(tab.items())}")


def _tric_product(f):
    """the comprehension form `[... for i, j, k in itertools.product(range(a, b), repeat=3)]` of the candidate shifts"""
    for n in ast.walk(f):
        if isinstance(n, ast.ListComp) and len(n.generators) == 1:
            g = n.generators[0]
            it = g.iter
            if isinstance(it, ast.Call) and _callname(it) == "product" and isinstance(g.target, ast.Tuple) and len(g.target.elts) == 3 \
                    and len(it.args) == 1 and any(k_.arg == "repeat" and ast.unparse(k_.value) == "3" for k_ in it.keywords):
                return n, [e.id for e in g.target.elts], it.args[0]
    return None


def _tric_ranges(f, src):
    pr = _tric_product(f)
    if pr is not None:
        r_ = _int_range(pr[2], src)
        return r_, r_, r_
    a_, b_, c_ = _nested3(f, "the triclinic-box helper")
    return _int_range(_loop_range(f, a_), src), _int_range(_loop_range(f, b_), src), _int_range(_loop_range(f, c_), src)


def extract_constants():
    from common import paths
    gsrc = open(os.path.join(paths.SRC, "biotite/structure/geometry.py")).read()
    bsrc = open(os.path.join(paths.SRC, "biotite/structure/box.py")).read()
    gt, bt = ast.parse(gsrc), ast.parse(bsrc)
    out = {}
    # --- fractions[fractions > 0.5] -= 1
    f = _find_func(gt, "the orthogonal-box helper (`x[x > c] -= s`)", _is_ortho_helper)
    hit = [n for n in ast.walk(f) if isinstance(n, ast.AugAssign) and isinstance(n.target, ast.Subscript)
           and isinstance(n.target.slice, ast.Compare)]
    if len(hit) != 1:
        raise ValueError("_displacement_orthogonal_box: `fractions[fractions > c] -= s` not found")
    cmp_, aug = hit[0].target.slice, hit[0]
    if len(cmp_.ops) != 1 or not isinstance(cmp_.ops[0], (ast.Gt, ast.GtE)) or not isinstance(aug.op, (ast.Sub, ast.Add)):
        raise ValueError("_displacement_orthogonal_box: unexpected comparison / update operator")
    out["half"] = _const_fraction(cmp_.comparators[0], gsrc)
    out["halfStrict"] = isinstance(cmp_.ops[0], ast.Gt)
    s = _const_fraction(aug.value, gsrc)
    out["halfSub"] = s if isinstance(aug.op, ast.Sub) else -s
    # --- fractions % 1 in displacement / move_inside_box

    def modulus(fn, src, what):
        mods = [n for n in ast.walk(fn) if isinstance(n, ast.BinOp) and isinstance(n.op, ast.Mod) and isinstance(n.left, ast.Name)]
        if len(mods) != 1:
            raise ValueError(f"{what}: `fractions % m` not found exactly once")
        return _const_fraction(mods[0].right, src)
    out["dispMod"] = modulus(_func(gt, "displacement"), gsrc, "displacement")
    out["moveMod"] = modulus(_func(bt, "move_inside_box"), bsrc, "move_inside_box")
    # --- triclinic candidate loops
    f = _find_func(gt, "the triclinic-box helper (argmin over candidate images)", _is_tric_helper)
    out["shiftI"], out["shiftJ"], out["shiftK"] = _tric_ranges(f, gsrc)
    # --- is_orthogonal
    f = _func(bt, "is_orthogonal")
    asg_ = _single_assigns(f)
    tolvals = set()
    pairs = []
    for c in ast.walk(f):
        if isinstance(c, ast.Compare) and len(c.ops) == 1 and isinstance(c.ops[0], (ast.Lt, ast.LtE)):
            rows = []
            operands = []
            for x_ in ast.walk(c.left):
                if isinstance(x_, ast.Call) and _callname(x_) == "vector_dot":
                    operands = [_resolve(a_, asg_) for a_ in x_.args]
            for s_ in operands:
                if isinstance(s_, ast.Subscript) and isinstance(s_.slice, ast.Tuple) and len(s_.slice.elts) == 3:
                    mid = s_.slice.elts[1]
                    if isinstance(mid, ast.Constant) and isinstance(mid.value, int):
                        rows.append(mid.value)
            if len(rows) == 2:
                tolvals.add(_const_fraction(_resolve(c.comparators[0], asg_), bsrc))
                pairs.append(tuple(rows))
    if not pairs or len(tolvals) != 1:
        raise ValueError("is_orthogonal: no `abs(vector_dot(box[..., i, :], box[..., j, :])) < tol` with one tolerance found")
    out["orthoTol"] = tolvals.pop()
    out["orthoPairs"] = sorted(pairs)
    # --- repeat_box_coord ranges, repeat_box passes amount on
    f = _func(bt, "repeat_box_coord")
    loops = list(_nested3(f, "repeat_box_coord"))
    offs = set()
    for lp in loops:
        it = _loop_range(f, lp)
        if it is None:
            raise ValueError("repeat_box_coord: range(lo, hi) expected")
        offs.add((_amount_offset(it.args[0], bsrc, True), _amount_offset(it.args[1], bsrc, False)))
    if len(offs) != 1:
        raise ValueError("repeat_box_coord: the three loops differ")
    out["repLo"], out["repHi"] = offs.pop()
    lv = [lp.target.id for lp in loops]

    def zero_tests(t, op_cls, cmp_cls):
        return (isinstance(t, ast.BoolOp) and isinstance(t.op, op_cls) and len(t.values) == 3
                and sorted(ast.unparse(v.left) for v in t.values if isinstance(v, ast.Compare)) == sorted(lv)
                and all(isinstance(v, ast.Compare) and isinstance(v.ops[0], cmp_cls) and ast.unparse(v.comparators[0]) == "0" for v in t.values))
    inner = loops[2].body
    wrap = [n for n in inner if isinstance(n, ast.If) and zero_tests(n.test, ast.Or, ast.NotEq) and not n.orelse]          # if any != 0: <work>
    guard = [n for n in inner if isinstance(n, ast.If) and zero_tests(n.test, ast.And, ast.Eq) and not n.orelse
             and len(n.body) == 1 and isinstance(n.body[0], ast.Continue)]                                                # if all == 0: continue
    if len(wrap) + len(guard) != 1 or (wrap and len(inner) != 1) or (guard and inner[0] is not guard[0]):
        raise ValueError("repeat_box_coord: the test that skips exactly the central box (0, 0, 0) not found")
    f = _func(bt, "repeat_box")
    calls = [n for n in ast.walk(f) if isinstance(n, ast.Call) and isinstance(n.func, ast.Name) and n.func.id == "repeat_box_coord"]
    if len(calls) != 1:
        raise ValueError("repeat_box: call of repeat_box_coord not found")
    c = calls[0]
    passed = (len(c.args) >= 3 and isinstance(c.args[2], ast.Name) and c.args[2].id == "amount") or any(
        k.arg == "amount" and isinstance(k.value, ast.Name) and k.value.id == "amount" for k in c.keywords)
    out["repeatBoxPassesAmount"] = bool(passed)
    # --- the index dispatcher: which box is handed on (decision table over periodic / explicit box / atoms object / own box)
    out["boxPrecedence"] = _precedence_of(_box_choice_table(_index_dispatcher(gt)))
    # --- distance / angle / dihedral: which atoms every `displacement(...)` call connects, and does it pass `box` on?
    def disp_calls(fname):
        f_ = _func(gt, fname)
        calls = []
        for n in ast.walk(f_):
            if isinstance(n, ast.Call) and isinstance(n.func, ast.Name) and n.func.id == "displacement":
                names = [a.id if isinstance(a, ast.Name) else "?" for a in n.args]
                if len(names) < 2 or not all(x.startswith("atoms") and x[5:].isdigit() for x in names[:2]):
                    raise ValueError(f"{fname}: unexpected displacement() arguments")
                passes = (len(n.args) >= 3 and isinstance(n.args[2], ast.Name) and n.args[2].id == "box") or any(
                    k_.arg == "box" and isinstance(k_.value, ast.Name) and k_.value.id == "box" for k_ in n.keywords)
                calls.append((n.lineno, int(names[0][5:]), int(names[1][5:]), bool(passes)))
        if not calls:
            raise ValueError(f"{fname}: no displacement() call found")
        return [(a, b, p_) for _, a, b, p_ in sorted(calls)]
    out["distanceCalls"] = disp_calls("distance")
    out["angleCalls"] = disp_calls("angle")
    out["dihedralCalls"] = disp_calls("dihedral")
    # --- unitcell_from_vectors: the three angles must be arccos(dot(u, v) / (|u| |v|)) of two box vectors (rows)
    f = _func(bt, "unitcell_from_vectors")
    rows = {}
    for n in ast.walk(f):
        if isinstance(n, ast.Assign) and isinstance(n.targets[0], ast.Name) and isinstance(n.value, ast.Subscript) \
                and isinstance(n.value.value, ast.Name) and n.value.value.id == "box" and isinstance(n.value.slice, ast.Constant):
            rows[n.targets[0].id] = n.value.slice.value
    dots = {}
    rets_ = [n.value for n in ast.walk(f) if isinstance(n, ast.Return)]
    if len(rets_) != 1 or not isinstance(rets_[0], ast.Tuple) or len(rets_[0].elts) != 6:
        raise ValueError("unitcell_from_vectors: `return len_a, len_b, len_c, alpha, beta, gamma` not found")
    asg_ = _single_assigns(f)
    for label_, el_ in zip(("alpha", "beta", "gamma"), rets_[0].elts[3:]):
        if True:
            pair = (9, 9)          # not a dot product of two box vectors
            val = _resolve(el_, asg_)
            if isinstance(val, ast.Call) and getattr(val.func, "attr", "") == "arccos" and val.args and isinstance(val.args[0], ast.BinOp) \
                    and isinstance(val.args[0].op, ast.Div):
                num = val.args[0].left
                if isinstance(num, ast.Call) and getattr(num.func, "attr", getattr(num.func, "id", "")) in ("dot", "vector_dot") and len(num.args) == 2 \
                        and all(isinstance(a_, ast.Name) and a_.id in rows for a_ in num.args):
                    pair = tuple(sorted(rows[a_.id] for a_ in num.args))
            dots[label_] = pair
    if sorted(dots) != ["alpha", "beta", "gamma"]:
        raise ValueError("unitcell_from_vectors: alpha / beta / gamma assignments not found")
    out["unitcellAngleDots"] = [dots["alpha"], dots["beta"], dots["gamma"]]
    # --- vectors_from_unitcell: is the zeroing tolerance scaled by the SUM of the three lengths?
    f = _func(bt, "vectors_from_unitcell")
    asg_ = _single_assigns(f)
    cmps_ = [c for c in ast.walk(f) if isinstance(c, ast.Compare) and len(c.ops) == 1 and isinstance(c.ops[0], (ast.Lt, ast.LtE))
             and any(isinstance(x, ast.Call) and _callname(x) == "abs" for x in ast.walk(c.left))]
    if len(cmps_) != 1:
        raise ValueError("vectors_from_unitcell: `np.abs(box) < tol` not found")

    class _T:          # the tolerance expression, wherever it is written
        value = _resolve(cmps_[0].comparators[0], asg_)
    tols = [_T]
    lens_ = {"len_a", "len_b", "len_c"}
    out["unitcellTolUsesSum"] = any(
        isinstance(n, ast.BinOp) and isinstance(n.op, ast.Add)
        and any(isinstance(m, ast.Name) and m.id in lens_ for m in ast.walk(n.left))
        and any(isinstance(m, ast.Name) and m.id in lens_ for m in ast.walk(n.right))
        for n in ast.walk(tols[0].value))
    return out


# ---------------------------------------------------------------------------------------------------------------
# pass 7: formulas and structure of the source, translated into Lean terms / tables
# ---------------------------------------------------------------------------------------------------------------
class _Tie(ValueError):
    pass


def _callname(c):
    f_ = c.func
    return f_.attr if isinstance(f_, ast.Attribute) else getattr(f_, "id", "?")


def _to_lean(node, names, locals_, calls=None, vec=False):
    """Python arithmetic expression -> Lean term.  `names`: python name -> Lean identifier; `locals_`: python local ->
    its defining ast expression (inlined); `calls`: (function name, argument source) -> Lean identifier."""
    calls = calls or {}
    rec = lambda n, v=vec: _to_lean(n, names, locals_, calls, v)  # noqa: E731
    if isinstance(node, ast.Name):
        if node.id in names:
            return names[node.id]
        if node.id in locals_:
            return "(" + rec(locals_[node.id]) + ")"
        raise _Tie(f"unexpected name `{node.id}`")
    if isinstance(node, ast.Constant) and isinstance(node.value, (int, float)) and not isinstance(node.value, bool):
        q = Fr(str(node.value))
        return f"({q.numerator} : Rat)" if q.denominator == 1 else f"(({q.numerator} : Rat) / {q.denominator})"
    if isinstance(node, ast.UnaryOp) and isinstance(node.op, ast.USub):
        return f"(V3.neg {rec(node.operand)})" if vec else f"(-{rec(node.operand)})"
    if isinstance(node, ast.BinOp):
        if vec:
            if isinstance(node.op, ast.Mult):
                # scalar * vector (the scalar is a loop variable / number, the vector a box row)
                sc_, ve_ = (node.left, node.right) if not isinstance(node.left, ast.Subscript) else (node.right, node.left)
                return f"(V3.smul {rec(sc_, False)} {rec(ve_, True)})"
            if isinstance(node.op, ast.Sub):
                return f"(V3.sub {rec(node.left)} {rec(node.right)})"
            if isinstance(node.op, ast.Add):
                return f"(V3.add {rec(node.left)} {rec(node.right)})"
            raise _Tie("unexpected vector operator " + type(node.op).__name__)
        ops = {ast.Add: "+", ast.Sub: "-", ast.Mult: "*", ast.Div: "/"}
        if type(node.op) in ops:
            return f"({rec(node.left)} {ops[type(node.op)]} {rec(node.right)})"
        if isinstance(node.op, ast.Pow) and isinstance(node.right, ast.Constant) and isinstance(node.right.value, int) and 0 <= node.right.value <= 4:
            return f"({rec(node.left)} ^ {node.right.value})"
        raise _Tie("unexpected operator " + type(node.op).__name__)
    if isinstance(node, ast.Subscript) and isinstance(node.value, ast.Name) and node.value.id == "box" and isinstance(node.slice, ast.Constant) \
            and node.slice.value in (0, 1, 2):
        return f"b.r{node.slice.value}"
    if isinstance(node, ast.Subscript) and isinstance(node.value, ast.Name) and node.value.id == "box" and isinstance(node.slice, ast.Tuple) \
            and len(node.slice.elts) == 2 and all(isinstance(e, ast.Constant) and e.value in (0, 1, 2) for e in node.slice.elts):
        r_, c_ = (e.value for e in node.slice.elts)
        return f"b.r{r_}.{'xyz'[c_]}"
    if isinstance(node, ast.Call):
        nm = _callname(node)
        if nm in ("cross",) and len(node.args) == 2:
            return f"(V3.cross {rec(node.args[0], False)} {rec(node.args[1], False)})"
        if nm in ("vector_dot",) and len(node.args) == 2:
            return f"(V3.dot {rec(node.args[0], False)} {rec(node.args[1], False)})"
        key = (nm, ast.unparse(node.args[0]) if node.args else "")
        if key in calls:
            return calls[key]
        raise _Tie(f"unexpected call `{ast.unparse(node)}`")
    raise _Tie("unexpected expression `" + ast.unparse(node)[:60] + "`")


def _assigns(f):
    """name -> value expression of the simple assignments `name = expr` of a function (last one wins), in source order"""
    out = {}
    for n in ast.walk(f):
        if isinstance(n, ast.Assign) and len(n.targets) == 1 and isinstance(n.targets[0], ast.Name):
            out[n.targets[0].id] = n.value
    return out


def _defaults(f):
    a = f.args
    pos = a.posonlyargs + a.args
    d = {}
    for arg, dv in zip(pos[len(pos) - len(a.defaults):], a.defaults):
        d[arg.arg] = ast.unparse(dv)
    for arg, dv in zip(a.kwonlyargs, a.kw_defaults):
        if dv is not None:
            d[arg.arg] = ast.unparse(dv)
    return d


def _raises(f):
    out = []
    for n in ast.walk(f):
        if isinstance(n, ast.Raise) and n.exc is not None:
            e = n.exc.func if isinstance(n.exc, ast.Call) else n.exc
            out.append((n.lineno, getattr(e, "id", getattr(e, "attr", "?"))))
    return [x for _, x in sorted(out)]


def _calls_in_order(f, wanted):
    return [nm for _, _, nm in sorted((n.lineno, n.col_offset, _callname(n)) for n in ast.walk(f) if isinstance(n, ast.Call) and _callname(n) in wanted)]


def extract_structure():
    from common import paths
    src = {m: open(os.path.join(paths.SRC, f"biotite/structure/{m}.py")).read() for m in ("geometry", "box", "transform")}
    gt, bt, tt = (ast.parse(src[m]) for m in ("geometry", "box", "transform"))
    o = {}
    # ---- (A) the eight candidate shifts of the triclinic helper (found by its argmin)
    f = _find_func(gt, "the triclinic-box helper (argmin over candidate images)", _is_tric_helper)
    asg = _single_assigns(f)
    pr = _tric_product(f)
    if pr is not None:
        # comprehension over itertools.product: the element is a combination of whole box rows
        comp, lv, _ = pr
        vec = _to_lean(comp.elt, dict(zip(lv, ("i", "j", "k"))), {}, vec=True)
        o["triShift"] = [f"({vec}).x", f"({vec}).y", f"({vec}).z"]
        shift_list = comp
    else:
        loops3 = _nested3(f, "the triclinic-box helper")
        app = [n for n in ast.walk(loops3[2]) if isinstance(n, ast.Call) and _callname(n) == "append" and n.args and isinstance(n.args[0], ast.List)]
        if len(app) != 1 or len(app[0].args[0].elts) != 3:
            raise _Tie("triclinic helper: `<list>.append([x, y, z])` in the innermost loop not found")
        nm = dict(zip((lp.target.id for lp in loops3), ("i", "j", "k")))
        loc = {k_: v_ for k_, v_ in _assigns(loops3[2]).items()}
        o["triShift"] = [_to_lean(e, nm, loc) for e in app[0].args[0].elts]
        shift_list = app[0].func.value                      # the list the shifts are appended to
    sel = [n for n in ast.walk(f) if isinstance(n, ast.Call) and _callname(n) in ("argmin", "argmax")]
    o["triArg"] = sorted(_callname(n) for n in sel)
    key = _resolve(sel[0].args[0], asg) if sel and sel[0].args else None
    ok_key = isinstance(key, ast.Call) and _callname(key) == "vector_dot" and len(key.args) == 2 \
        and ast.unparse(key.args[0]) == ast.unparse(key.args[1])
    cand = _resolve(key.args[0], asg) if ok_key else None
    if not (isinstance(cand, ast.BinOp) and isinstance(cand.op, ast.Add)):
        raise _Tie("triclinic helper: argmin of vector_dot(c, c) with c = unwrapped[...] + shifts[...] not found")
    o["triKey"] = "vector_dot(c, c), c = a + s"

    def base_of(e):
        while isinstance(e, ast.Subscript):
            e = e.value
        return e
    lhs = _resolve(base_of(cand.left), asg)
    o["triDiffsFrom"] = _callname(lhs) if isinstance(lhs, ast.Call) else "?"
    rhs = base_of(cand.right)
    # the right operand must be the array built from the shift list
    rhs_src = None
    for n in ast.walk(f):
        if isinstance(n, ast.Assign) and isinstance(n.targets[0], ast.Name) and isinstance(rhs, ast.Name) and n.targets[0].id == rhs.id \
                and isinstance(n.value, ast.Call) and _callname(n.value) == "array":
            rhs_src = n.value.args[0]
    same = rhs_src is not None and (rhs_src is shift_list or (isinstance(rhs_src, ast.Name) and isinstance(shift_list, ast.Name) and rhs_src.id == shift_list.id)
                                    or ast.dump(rhs_src) == ast.dump(shift_list))
    if not same:
        raise _Tie("triclinic helper: the shifts added to the unwrapped displacement are not the generated list")
    # ---- (B) vectors_from_unitcell: the 3x3 array literal, every local inlined
    f = _func(bt, "vectors_from_unitcell")
    asg = _single_assigns(f)
    arrs = [c for c in ast.walk(f) if isinstance(c, ast.Call) and _callname(c) == "array" and c.args and isinstance(c.args[0], ast.List)
            and len(c.args[0].elts) == 3 and all(isinstance(r_, ast.List) and len(r_.elts) == 3 for r_ in c.args[0].elts)]
    if len(arrs) != 1:
        raise _Tie("vectors_from_unitcell: the 3x3 `np.array([[...], [...], [...]])` not found")
    arr = arrs[0]
    nm = {"len_a": "la", "len_b": "lb", "len_c": "lc"}
    calls = {("cos", "alpha"): "ca", ("cos", "beta"): "cb", ("cos", "gamma"): "cg", ("sin", "gamma"): "sg"}
    roots = [k_ for k_, v_ in asg.items() if isinstance(v_, ast.Call) and _callname(v_) == "sqrt" and len(v_.args) == 1]
    if len(roots) != 1:
        raise _Tie("vectors_from_unitcell: exactly one component defined by `np.sqrt(...)` expected")
    loc = {k_: v_ for k_, v_ in asg.items() if k_ != roots[0]}
    nm_cz = dict(nm, **{roots[0]: "cz"})
    o["cellRows"] = [[_to_lean(e, nm_cz, loc, calls) for e in row.elts] for row in arr.args[0].elts]
    o["cellCzSq"] = _to_lean(asg[roots[0]].args[0], nm, loc, calls)
    kw = {k_.arg: ast.unparse(k_.value) for k_ in arr.keywords}
    o["cellDtype"] = kw.get("dtype", "?")
    # ---- (C) dihedral: bond vectors = the locals assigned `displacement(...)`, in source order; other locals inlined
    def bond_vectors(f_):
        bv = sorted((n.lineno, n.targets[0].id) for n in ast.walk(f_) if isinstance(n, ast.Assign) and isinstance(n.targets[0], ast.Name)
                    and isinstance(n.value, ast.Call) and _callname(n.value) == "displacement")
        return {name: f"v{i + 1}" for i, (_, name) in enumerate(bv)}
    f = _func(gt, "dihedral")
    asg = _single_assigns(f)
    ret = [n for n in ast.walk(f) if isinstance(n, ast.Return)][0].value
    if not (isinstance(ret, ast.Call) and _callname(ret) == "arctan2" and len(ret.args) == 2):
        raise _Tie("dihedral: `return np.arctan2(y, x)` not found")
    nm = bond_vectors(f)
    if sorted(nm.values()) != ["v1", "v2", "v3"]:
        raise _Tie("dihedral: three bond vectors from displacement() expected")
    loc = {k_: v_ for k_, v_ in asg.items() if k_ not in nm}
    o["dihAtan2"] = [_to_lean(a_, nm, loc) for a_ in ret.args]           # first argument = y, second = x
    o["dihNormed"] = sorted({nm.get(ast.unparse(c.args[0]), "?") for c in ast.walk(f) if isinstance(c, ast.Call) and _callname(c) == "norm_vector"})
    # ---- (D) angle, (E) distance
    f = _func(gt, "angle")
    nm = bond_vectors(f)
    ret = [n for n in ast.walk(f) if isinstance(n, ast.Return)][0].value
    dots = [c for c in ast.walk(ret) if isinstance(c, ast.Call) and _callname(c) == "vector_dot"]
    if not (isinstance(ret, ast.Call) and _callname(ret) == "arccos" and len(dots) == 1):
        raise _Tie("angle: `return np.arccos(... vector_dot(v1, v2) ...)` not found")
    o["angleDot"] = [nm.get(ast.unparse(a_), "?") for a_ in dots[0].args]
    o["angleNormed"] = sorted({nm.get(ast.unparse(c.args[0]), "?") for c in ast.walk(f) if isinstance(c, ast.Call) and _callname(c) == "norm_vector"})
    clip = [c for c in ast.walk(ret) if isinstance(c, ast.Call) and _callname(c) == "clip"]
    o["angleClip"] = [ast.unparse(a_) for a_ in clip[0].args[1:]] if clip else []
    f = _func(gt, "distance")
    nm = bond_vectors(f)
    ret = [n for n in ast.walk(f) if isinstance(n, ast.Return)][0].value
    if not (isinstance(ret, ast.Call) and _callname(ret) == "sqrt" and isinstance(ret.args[0], ast.Call) and _callname(ret.args[0]) == "vector_dot"):
        raise _Tie("distance: `return np.sqrt(vector_dot(diff, diff))` not found")
    o["distanceDot"] = [nm.get(ast.unparse(a_), "?") for a_ in ret.args[0].args]
    # ---- (F) displacement: the difference, the dispatch, the order of the steps
    f = _func(gt, "displacement")
    ifs = [n for n in ast.walk(f) if isinstance(n, ast.If) and isinstance(n.test, ast.Compare) and "shape" in ast.unparse(n.test)]
    if len(ifs) != 1:
        raise _Tie("displacement: the `if len(v1.shape) <= len(v2.shape)` branch not found")
    br = ifs[0]
    cv = {n.targets[0].id: ast.unparse(n.value.args[0]) for n in ast.walk(f) if isinstance(n, ast.Assign) and isinstance(n.targets[0], ast.Name)
          and isinstance(n.value, ast.Call) and _callname(n.value) == "coord" and len(n.value.args) == 1}
    vmap = {loc_: {"atoms1": "v1", "atoms2": "v2"}.get(arg_, "?") for loc_, arg_ in cv.items()}

    def diff_of(stmts):
        a_ = [n for st in stmts for n in ast.walk(st) if isinstance(n, ast.Assign)]
        if len(a_) != 1:
            raise _Tie("displacement: exactly one assignment per shape branch expected")
        return _to_lean(a_[0].value, vmap, {}, vec=True)
    o["dispDiff"] = [diff_of(br.body), diff_of(br.orelse)]
    ortho_name = _find_func(gt, "the orthogonal-box helper", _is_ortho_helper).name
    tric_name = _find_func(gt, "the triclinic-box helper", _is_tric_helper).name
    role = {ortho_name: "ORTHO", tric_name: "TRIC"}
    disp_tab = []
    for n in ast.walk(f):
        if isinstance(n, ast.If) and isinstance(n.test, ast.Name):
            t_ = [role[_callname(c)] for st in n.body for c in ast.walk(st) if isinstance(c, ast.Call) and _callname(c) in role]
            e_ = [role[_callname(c)] for st in n.orelse for c in ast.walk(st) if isinstance(c, ast.Call) and _callname(c) in role]
            if t_ or e_:
                disp_tab.append((n.lineno, t_[0] if len(t_) == 1 else "?", e_[0] if len(e_) == 1 else "?"))
    o["dispDispatch"] = [(a_, b_) for _, a_, b_ in sorted(disp_tab)]
    steps = [(n.lineno, _callname(n)) for n in ast.walk(f) if isinstance(n, ast.Call) and _callname(n) in ("coord_to_fraction", "is_orthogonal")]
    steps += [(n.lineno, "mod") for n in ast.walk(f) if isinstance(n, ast.BinOp) and isinstance(n.op, ast.Mod)]
    o["dispSteps"] = [x for _, x in sorted(steps)]
    f = _find_func(gt, "the orthogonal-box helper", _is_ortho_helper)
    o["orthoSteps"] = _calls_in_order(f, {"fraction_to_coord", "coord_to_fraction"})
    # ---- (K) fractions
    for fname, key in (("coord_to_fraction", "c2f"), ("fraction_to_coord", "f2c")):
        f = _func(bt, fname)
        ret = [n for n in ast.walk(f) if isinstance(n, ast.Return)][0].value
        if not (isinstance(ret, ast.Call) and len(ret.args) == 2):
            raise _Tie(f"{fname}: `return np.matmul(a, b)` not found")
        o[key] = [_callname(ret)] + [ast.unparse(a_) for a_ in ret.args]
    f = _func(bt, "move_inside_box")
    o["moveSteps"] = _calls_in_order(f, {"coord_to_fraction", "fraction_to_coord"})
    # ---- (L) is_orthogonal comparison, box_volume
    f = _func(bt, "is_orthogonal")
    cmp_ops = {type(c.ops[0]).__name__ for c in ast.walk(f) if isinstance(c, ast.Compare) and len(c.ops) == 1
               and any(isinstance(x, ast.Call) and _callname(x) == "vector_dot" for x in ast.walk(c.left))}
    o["orthoCmp"] = sorted(cmp_ops)
    combos = {type(n.op).__name__ for n in ast.walk(f) if isinstance(n, ast.BinOp) and isinstance(n.op, (ast.BitAnd, ast.BitOr))}
    combos |= {type(n.op).__name__ for n in ast.walk(f) if isinstance(n, ast.BoolOp)}
    o["orthoCombine"] = sorted(combos)
    f = _func(bt, "box_volume")
    ret = [n for n in ast.walk(f) if isinstance(n, ast.Return)][0].value
    o["volume"] = [_callname(c) for c in ast.walk(ret) if isinstance(c, ast.Call)]
    # ---- (G) repeat_box_coord
    f = _func(bt, "repeat_box_coord")
    loops3 = _nested3(f, "repeat_box_coord")
    lv = dict(zip((lp.target.id for lp in loops3), ("i", "j", "k")))
    asg = _single_assigns(f)
    arr = [c for c in ast.walk(loops3[2]) if isinstance(c, ast.Call) and _callname(c) == "array" and c.args and isinstance(c.args[0], ast.List)]
    if len(arr) != 1:
        raise _Tie("repeat_box_coord: `np.array([i, j, k])` not found")
    o["repVec"] = [lv.get(ast.unparse(e), "?") for e in arr[0].args[0].elts]
    sums = [c for c in ast.walk(f) if isinstance(c, ast.Call) and _callname(c) == "sum"]
    o["repSumAxis"] = [ast.unparse(k_.value) for c in sums for k_ in c.keywords if k_.arg == "axis"]
    cat = [c for c in ast.walk(f) if isinstance(c, ast.Call) and _callname(c) == "concatenate"]
    if len(cat) != 1 or not cat[0].args:
        raise _Tie("repeat_box_coord: `np.concatenate(list, axis=...)` not found")
    o["repCatAxis"] = [ast.unparse(k_.value) for k_ in cat[0].keywords if k_.arg == "axis"]
    lst = cat[0].args[0]
    first = None
    for n in ast.walk(f):
        if isinstance(n, ast.Assign) and isinstance(n.targets[0], ast.Name) and isinstance(lst, ast.Name) and n.targets[0].id == lst.id:
            first = n.value
    o["repFirst"] = [ast.unparse(e) for e in first.elts] if isinstance(first, ast.List) else ["?"]
    tile = [c for c in ast.walk(f) if isinstance(c, ast.Call) and _callname(c) == "tile"]
    if len(tile) != 1 or len(tile[0].args) != 2:
        raise _Tie("repeat_box_coord: `np.tile(np.arange(n), count)` not found")
    o["repCount"] = _to_lean(tile[0].args[1], {"amount": "amount"}, {}).replace(": Rat", ": Int")
    o["repTypeCheck"] = [ast.unparse(c.args[1]) for n in ast.walk(f) if isinstance(n, ast.If) and _raises(n)
                         for c in ast.walk(n.test) if isinstance(c, ast.Call) and _callname(c) == "isinstance"]
    o["repAdds"] = [type(n.op).__name__ for n in ast.walk(loops3[2]) if isinstance(n, ast.AugAssign)]
    # ---- (H) remove_pbc_from_coord (locals in alpha-normal form, found through the public functions they feed)
    f = _func(bt, "remove_pbc_from_coord")
    asg = _single_assigns(f)
    idc = [c for c in ast.walk(f) if isinstance(c, ast.Call) and _callname(c) == "index_displacement"]
    if len(idc) != 1 or len(idc[0].args) < 2:
        raise _Tie("remove_pbc_from_coord: call of index_displacement(coord, pairs, ...) not found")
    pairs_expr = _resolve(idc[0].args[1], asg)
    ar = [c for c in ast.walk(pairs_expr) if isinstance(c, ast.Call) and _callname(c) == "arange"]
    pure = {k_: v_ for k_, v_ in asg.items() if not any(isinstance(x_, ast.Call) for x_ in ast.walk(v_))}
    o["rpbcPairs"] = [[_unp(a_, {}, inline=pure) for a_ in c.args] for c in ar]
    o["rpbcDisp"] = ["index_displacement"] + sorted(f"{k_.arg}={ast.unparse(k_.value)}" for k_ in idc[0].keywords)
    cs = [c for c in ast.walk(f) if isinstance(c, ast.Call) and _callname(c) == "cumsum"]
    if len(cs) != 1 or _resolve(cs[0].args[0], asg) is not idc[0]:
        raise _Tie("remove_pbc_from_coord: `np.cumsum(<index_displacement result>, axis=...)` not found")
    o["rpbcCumsum"] = ["cumsum"] + [f"{k_.arg}={ast.unparse(k_.value)}" for k_ in cs[0].keywords]
    mv = [c for c in ast.walk(f) if isinstance(c, ast.Call) and _callname(c) == "move_inside_box"]
    o["rpbcBase"] = ["move_inside_box", ast.unparse(mv[0].args[0])] if len(mv) == 1 else ["?", "?"]
    tag = {}
    for k_, v_ in asg.items():
        if v_ is cs[0]:
            tag[k_] = "CUM"
        elif mv and v_ is mv[0]:
            tag[k_] = "BASE"
    sets = []
    for n in ast.walk(f):
        if isinstance(n, ast.Assign) and isinstance(n.targets[0], ast.Subscript) and isinstance(n.targets[0].value, ast.Name):
            out_name = n.targets[0].value.id
            sets.append((_unp(n.targets[0], {out_name: "OUT"}), _unp(n.value, tag)))
    o["rpbcAssign"] = sorted(sets)
    # ---- (I) remove_pbc
    f = _func(bt, "remove_pbc")
    asg = _single_assigns(f)
    mask_ifs = [n for n in ast.walk(f) if isinstance(n, ast.If) and "bonds" in ast.unparse(n.test)
                and any(isinstance(c, ast.Call) and _callname(c) in ("get_molecule_masks", "get_chain_masks") for c in ast.walk(n))]
    if len(mask_ifs) != 1:
        raise _Tie("remove_pbc: the choice between molecule and chain masks (`atoms.bonds is None`) not found")
    mi = mask_ifs[0]
    t_ = mi.test
    bonds_present_then = isinstance(t_, ast.Compare) and isinstance(t_.ops[0], ast.IsNot)
    if not (isinstance(t_, ast.Compare) and isinstance(t_.ops[0], (ast.Is, ast.IsNot)) and ast.unparse(t_.left) == "atoms.bonds"):
        raise _Tie("remove_pbc: unexpected test on atoms.bonds")
    with_bonds, without = (mi.body, mi.orelse) if bonds_present_then else (mi.orelse, mi.body)
    o["rpMasks"] = [_calls_in_order(ast.Module(body=list(with_bonds), type_ignores=[]), {"get_molecule_masks", "get_chain_masks"})[0],
                    _calls_in_order(ast.Module(body=list(without), type_ignores=[]), {"get_molecule_masks", "get_chain_masks"})[0]]
    mask_names = {n.targets[0].id for st in mi.body + mi.orelse for n in ast.walk(st) if isinstance(n, ast.Assign) and isinstance(n.targets[0], ast.Name)}
    loops = [n for n in ast.walk(f) if isinstance(n, ast.For) and isinstance(n.iter, ast.Name) and n.iter.id in mask_names]
    if len(loops) != 1:
        raise _Tie("remove_pbc: the loop over the molecule masks not found")
    lp = loops[0]
    wanted = {"remove_pbc_from_coord", "centroid", "move_inside_box"}
    o["rpLoopCalls"] = _calls_in_order(lp, wanted)
    o["rpOutsideCalls"] = _calls_in_order(f, wanted)[len(o["rpLoopCalls"]):] if _calls_in_order(f, wanted)[:len(o["rpLoopCalls"])] == o["rpLoopCalls"] else ["?"]
    lasg = _single_assigns(lp)
    ren = _alpha_map(f)
    tagl = {}
    for k_, v_ in lasg.items():
        if isinstance(v_, ast.Call) and _callname(v_) == "move_inside_box":
            tagl[k_] = "INBOX"
        elif any(isinstance(c, ast.Call) and _callname(c) == "centroid" for c in ast.walk(v_)):
            tagl[k_] = "CENTER"
    o["rpShift"] = [_unp(n.value, tagl) for n in ast.walk(lp) if isinstance(n, ast.AugAssign) and isinstance(n.op, ast.Add)]
    o["rpSelection"] = ["&= " + ast.unparse(n.value) for n in ast.walk(lp) if isinstance(n, ast.AugAssign) and isinstance(n.op, ast.BitAnd)
                        and isinstance(n.target, ast.Name) and n.target.id == lp.target.id]
    rp_call = [c for c in ast.walk(lp) if isinstance(c, ast.Call) and _callname(c) == "remove_pbc_from_coord"]
    copies = {k_ for k_, v_ in asg.items() if isinstance(v_, ast.Call) and ast.unparse(v_) == "atoms.copy()"}
    o["rpArgs"] = [_unp(a_, {**{c_: "COPY" for c_ in copies}, lp.target.id: "MASK"}) for a_ in rp_call[0].args] if rp_call else []
    # ---- (J) the index wrappers and their common dispatcher
    disp_f = _index_dispatcher(gt)
    tab = []
    for wname in ("index_displacement", "index_distance", "index_angle", "index_dihedral"):
        f = _func(gt, wname)
        c = [c for c in ast.walk(f) if isinstance(c, ast.Call) and _callname(c) == disp_f.name]
        if len(c) != 1 or len(c[0].args) < 2:
            raise _Tie(f"{wname}: call of the index dispatcher not found")
        tab.append((wname, ast.unparse(c[0].args[0]), int(ast.unparse(c[0].args[1]))))
    o["indexWrappers"] = tab
    f = disp_f
    priv = _param_names(f)[:2]                      # (function, width): only ever passed positionally by the wrappers
    ren = _alpha_map(f, private_params=priv)
    first = f.body[1] if isinstance(f.body[0], ast.Expr) else f.body[0]
    o["indexFirstCheck"] = [_unp(first.test, ren), _raises(first)[0] if _raises(first) else "?"] if isinstance(first, ast.If) else ["?", "?"]
    asg = _single_assigns(f)
    gath = []
    for n in ast.walk(f):
        if isinstance(n, ast.Call) and _callname(n) == "append" and n.args:
            gath.append(n.args[0])
        elif isinstance(n, ast.ListComp) and any(isinstance(c, ast.Subscript) for c in ast.walk(n.elt)):
            gath.append(n.elt)
    idxvar = {}
    for n in ast.walk(f):
        if isinstance(n, (ast.For,)) and isinstance(n.target, ast.Name) and isinstance(n.iter, ast.Call) and _callname(n.iter) == "range":
            idxvar[n.target.id] = "COL"
        if isinstance(n, ast.comprehension) and isinstance(n.target, ast.Name) and isinstance(n.iter, ast.Call) and _callname(n.iter) == "range":
            idxvar[n.target.id] = "COL"
    inl = {k_: v_ for k_, v_ in asg.items() if isinstance(v_, ast.Call) and _callname(v_) == "coord"}
    o["indexGather"] = [_unp(g_, idxvar, inline=inl) for g_ in gath]
    # ---- (M) defaults, (N) exception classes
    defs = []
    dname = _index_dispatcher(gt).name
    canon = {dname: "INDEX_DISPATCHER"}
    for t_, names_ in ((gt, ("displacement", "distance", "angle", "dihedral", dname)),
                       (bt, ("repeat_box", "repeat_box_coord", "remove_pbc")),
                       (tt, ("rotate_about_axis", "align_vectors", "orient_principal_components"))):
        for fn_ in names_:
            for a_, d_ in sorted(_defaults(_func(t_, fn_)).items()):
                defs.append((canon.get(fn_, fn_), a_, d_))
    o["defaults"] = defs
    rz = []
    for t_, names_ in ((gt, ("displacement", dname)), (bt, ("repeat_box", "repeat_box_coord", "remove_pbc")),
                       (tt, ("translate", "rotate", "rotate_about_axis", "align_vectors", "orient_principal_components"))):
        for fn_ in names_:
            rz.append((canon.get(fn_, fn_), _raises(_func(t_, fn_))))
    o["raises"] = rz
    return o


def _ls(xs):
    return "[" + ", ".join('"' + str(x).replace('"', "'") + '"' for x in xs) + "]"


def gen_structure_lean(o):
    L = []
    L.append("/-! ## formulas and structure (pass 7) -/")
    L.append("/-- the candidate shift of `_displacement_triclinic_box` for loop variables i, j, k -/")
    L.append(f"def triShift (i j k : Rat) (b : Box) : Vec := ⟨{o['triShift'][0]}, {o['triShift'][1]}, {o['triShift'][2]}⟩")
    L.append(f"def triSelect : List String := {_ls(o['triArg'])}")
    L.append(f"def triDiffsFrom : String := \"{o['triDiffsFrom']}\"")
    L.append(f"def triKey : String := \"{o['triKey']}\"")
    L.append("/-- `vectors_from_unitcell`: the array literal with the locals inlined (`cos`/`sin` values and `c_z` as parameters) -/")
    rows = ", ".join("⟨" + ", ".join(r) + "⟩" for r in o["cellRows"])
    L.append(f"def cellBox (la lb lc ca cb cg sg cz : Rat) : Box := ⟨{rows}⟩")
    L.append(f"def cellCzSq (la lb lc ca cb cg sg : Rat) : Rat := {o['cellCzSq']}")
    L.append(f"def cellDtype : String := \"{o['cellDtype']}\"")
    L.append("/-- `dihedral`: first and second argument of `arctan2`, locals inlined -/")
    L.append(f"def dihArg1 (v1 v2 v3 : Vec) : Rat := {o['dihAtan2'][0]}")
    L.append(f"def dihArg2 (v1 v2 v3 : Vec) : Rat := {o['dihAtan2'][1]}")
    L.append(f"def dihNormed : List String := {_ls(o['dihNormed'])}")
    L.append(f"def angleDot : List String := {_ls(o['angleDot'])}")
    L.append(f"def angleNormed : List String := {_ls(o['angleNormed'])}")
    L.append(f"def angleClip : List String := {_ls(o['angleClip'])}")
    L.append(f"def distanceDot : List String := {_ls(o['distanceDot'])}")
    L.append("/-- `displacement`: the difference in the two shape branches -/")
    L.append(f"def dispDiffThen (v1 v2 : Vec) : Vec := {o['dispDiff'][0]}")
    L.append(f"def dispDiffElse (v1 v2 : Vec) : Vec := {o['dispDiff'][1]}")
    L.append("def dispDispatch : List (String × String) := [" + ", ".join(f'("{a}", "{b}")' for a, b in o["dispDispatch"]) + "]")
    L.append(f"def dispSteps : List String := {_ls(o['dispSteps'])}")
    L.append(f"def orthoSteps : List String := {_ls(o['orthoSteps'])}")
    L.append(f"def coordToFractionForm : List String := {_ls(o['c2f'])}")
    L.append(f"def fractionToCoordForm : List String := {_ls(o['f2c'])}")
    L.append(f"def moveSteps : List String := {_ls(o['moveSteps'])}")
    L.append(f"def orthoCmp : List String := {_ls(o['orthoCmp'])}")
    L.append(f"def orthoCombine : List String := {_ls(o['orthoCombine'])}")
    L.append(f"def volumeForm : List String := {_ls(o['volume'])}")
    L.append(f"def repVec : List String := {_ls(o['repVec'])}")
    L.append(f"def repSumAxis : List String := {_ls(o['repSumAxis'])}")
    L.append(f"def repCatAxis : List String := {_ls(o['repCatAxis'])}")
    L.append(f"def repFirst : List String := {_ls(o['repFirst'])}")
    L.append(f"def repCount (amount : Int) : Int := {o['repCount']}")
    L.append(f"def repTypeCheck : List String := {_ls(o['repTypeCheck'])}")
    L.append(f"def repAdds : List String := {_ls(o['repAdds'])}")
    L.append("def rpbcPairs : List (List String) := [" + ", ".join(_ls(x) for x in o["rpbcPairs"]) + "]")
    L.append(f"def rpbcDisp : List String := {_ls(o['rpbcDisp'])}")
    L.append(f"def rpbcCumsum : List String := {_ls(o['rpbcCumsum'])}")
    L.append(f"def rpbcBase : List String := {_ls(o['rpbcBase'])}")
    L.append("def rpbcAssign : List (String × String) := [" + ", ".join(f'("{a}", "{b}")' for a, b in o["rpbcAssign"]) + "]")
    L.append(f"def rpLoopCalls : List String := {_ls(o['rpLoopCalls'])}")
    L.append(f"def rpOutsideCalls : List String := {_ls(o['rpOutsideCalls'])}")
    L.append(f"def rpShift : List String := {_ls(o['rpShift'])}")
    L.append(f"def rpSelection : List String := {_ls(o['rpSelection'])}")
    L.append(f"def rpMasks : List String := {_ls(o['rpMasks'])}")
    L.append(f"def rpArgs : List String := {_ls(o['rpArgs'])}")
    L.append("def indexWrappers : List (String × String × Nat) := [" + ", ".join(f'("{a}", "{b}", {c})' for a, b, c in o["indexWrappers"]) + "]")
    L.append(f"def indexFirstCheck : List String := {_ls(o['indexFirstCheck'])}")
    L.append(f"def indexGather : List String := {_ls(o['indexGather'])}")
    L.append("def defaults : List (String × String × String) := [" + ", ".join(f'("{a}", "{b}", "{c}")' for a, b, c in o["defaults"]) + "]")
    L.append("def raises : List (String × List String) := [" + ", ".join(f'("{a}", {_ls(b)})' for a, b in o["raises"]) + "]")
    return L


def gen_lean():
    k = extract_constants()
    k2 = extract_structure()

    def ints(xs):
        return "[" + ", ".join(str(x) for x in xs) + "]"
    body = [
        "import BiotiteModel.Model.C15",
        "/- REGENERATED on every run by harness/props/c15.py from structure/geometry.py and structure/box.py. Do not edit. -/",
        "namespace BiotiteModel.Gen.C15",
        "open BiotiteModel.C15",
        "/-- constants and loop ranges as they are written in the source -/",
        "def consts : Consts where",
        f"  boxPrecedence := .{k['boxPrecedence']}",
        f"  half := {_lean_rat(k['half'])}",
        f"  halfStrict := {'true' if k['halfStrict'] else 'false'}",
        f"  halfSub := {_lean_rat(k['halfSub'])}",
        f"  dispMod := {_lean_rat(k['dispMod'])}",
        f"  moveMod := {_lean_rat(k['moveMod'])}",
        f"  shiftI := {ints(k['shiftI'])}",
        f"  shiftJ := {ints(k['shiftJ'])}",
        f"  shiftK := {ints(k['shiftK'])}",
        f"  orthoTol := {_lean_rat(k['orthoTol'])}",
        f"  repLo := {k['repLo']}",
        f"  repHi := {k['repHi']}",
        "/-- row pairs whose dot product `is_orthogonal` tests -/",
        "def orthoPairs : List (Nat × Nat) := [" + ", ".join(f"({a}, {b})" for a, b in k["orthoPairs"]) + "]",
        "/-- `repeat_box` hands its `amount` argument on to `repeat_box_coord` -/",
        f"def repeatBoxPassesAmount : Bool := {'true' if k['repeatBoxPassesAmount'] else 'false'}",
        "/-- every `displacement(atomsI, atomsJ, box?)` call of distance / angle / dihedral: (I, J, passes `box` on) -/",
        "def distanceCalls : List (Nat × Nat × Bool) := [" + ", ".join(f"({a}, {b}, {'true' if p_ else 'false'})" for a, b, p_ in k["distanceCalls"]) + "]",
        "def angleCalls : List (Nat × Nat × Bool) := [" + ", ".join(f"({a}, {b}, {'true' if p_ else 'false'})" for a, b, p_ in k["angleCalls"]) + "]",
        "def dihedralCalls : List (Nat × Nat × Bool) := [" + ", ".join(f"({a}, {b}, {'true' if p_ else 'false'})" for a, b, p_ in k["dihedralCalls"]) + "]",
        "/-- `unitcell_from_vectors`: rows (u, v) whose dot product gives alpha, beta, gamma ((9, 9) = not a dot product of two box vectors) -/",
        "def unitcellAngleDots : List (Nat × Nat) := [" + ", ".join(f"({a}, {b})" for a, b in k["unitcellAngleDots"]) + "]",
        "/-- the round-off clean-up of `vectors_from_unitcell` compares with a tolerance built from the SUM of the lengths -/",
        f"def unitcellTolUsesSum : Bool := {'true' if k['unitcellTolUsesSum'] else 'false'}",
        ] + gen_structure_lean(k2) + [
        "end BiotiteModel.Gen.C15", ""]
    return {"BiotiteModel/Gen/C15.lean": "\n".join(body)}


# =====================================================================================
# encoding of the line protocol
# =====================================================================================
def q2s(q):
    return str(Fr(q))


def enc_vec(v):
    return ",".join(q2s(x) for x in v)


def enc_arr(a):
    """nested python lists of Fractions: rank 1 `v:`, rank 2 `l:`, rank 3 `s:`"""
    r = _rank(a)
    if r == 1:
        return "v:" + enc_vec(a)
    if r == 2:
        return "l:" + ";".join(enc_vec(v) for v in a)
    return "s:" + "|".join(";".join(enc_vec(v) for v in m) for m in a)


def enc_box(b):
    if b is None:
        return "-"
    if len(b) == 3 and not isinstance(b[0][0], (list, tuple)):
        return "b:" + ";".join(enc_vec(r) for r in b)
    return "B:" + "|".join(";".join(enc_vec(r) for r in bb) for bb in b)


def _pv(s):
    return [Fr(x) for x in s.split(",")]


def dec_arr(s):
    tag, body = s[0], s[2:]
    if tag == "v":
        return _pv(body)
    if tag == "l":
        return [] if body == "" else [_pv(x) for x in body.split(";")]
    return [([] if m == "" else [_pv(x) for x in m.split(";")]) for m in body.split("|")]


def dec_box(s):
    if s == "-":
        return None
    if s[0] == "b":
        return [_pv(r) for r in s[2:].split(";")]
    return [[_pv(r) for r in bb.split(";")] for bb in s[2:].split("|")]


def _rank(a):
    if len(a) == 3 and not isinstance(a[0], (list, tuple)):
        return 1
    if len(a) == 0 or (isinstance(a[0], (list, tuple)) and len(a[0]) == 3 and not isinstance(a[0][0], (list, tuple))):
        return 2
    return 3


def np_arr(a, dt):
    """nested lists of Fractions (as produced by dec_arr) -> numpy array of shape (3,), (n,3) or (m,n,3)"""
    import numpy as np
    r = _rank(a)
    if r == 1:
        return np.array([float(c) for c in a], dtype=dt)
    if r == 2:
        return np.array([[float(c) for c in v] for v in a], dtype=dt).reshape(len(a), 3)
    n = len(a[0])
    return np.array([[[float(c) for c in v] for v in m] for m in a], dtype=dt).reshape(len(a), n, 3)


def out_arr(x):
    """numpy array (last axis 3) -> canonical text, exact"""
    import numpy as np
    x = np.asarray(x)
    if x.ndim == 1:
        return "v:" + enc_vec([Fr(float(c)) for c in x])
    if x.ndim == 2:
        return "l:" + ";".join(enc_vec([Fr(float(c)) for c in v]) for v in x)
    return "s:" + "|".join(";".join(enc_vec([Fr(float(c)) for c in v]) for v in m) for m in x)


def out_scal(x, f=lambda c: Fr(float(c))):
    """numpy array of scalars -> `v:q`, `l:q;q`, `s:q;q|q;q`"""
    import numpy as np
    x = np.asarray(x)
    if x.ndim == 0:
        return "v:" + q2s(f(x))
    if x.ndim == 1:
        return "l:" + ";".join(q2s(f(c)) for c in x)
    return "s:" + "|".join(";".join(q2s(f(c)) for c in m) for m in x)


DT = {"f32": "float32", "f64": "float64"}
GRID = 64      # squared distances of the exact stream are multiples of 1/GRID


# =====================================================================================
# exact stream: generator
# =====================================================================================
def _coord(rng, grid=8, lim=40):
    return [Fr(rng.randint(-lim * grid, lim * grid), grid) for _ in range(3)]


def _ortho_box(rng):
    ls = [2 ** rng.randint(2, 5) for _ in range(3)]
    perm = rng.choice([(0, 1, 2), (0, 1, 2), (0, 1, 2), (1, 0, 2), (2, 1, 0), (0, 2, 1), (1, 2, 0), (2, 0, 1)])
    box = [[Fr(0)] * 3 for _ in range(3)]
    for r in range(3):
        box[r][perm[r]] = Fr(ls[r]) * (rng.choice([1, 1, 1, -1]) if perm != (0, 1, 2) or rng.random() < 0.15 else 1)
    return box


def _tric_box(rng):
    """lower-triangular, power-of-two diagonal, integer off-diagonals smaller than the diagonal of their column:
    the inverse is dyadic with few bits and LAPACK's LU never pivots, so float64 (and the float32 casts inside
    `displacement`) stay exact"""
    a, b, c = (2 ** rng.randint(2, 4) for _ in range(3))

    def off(lim):
        return Fr(rng.randint(-lim + 1, lim - 1))
    box = [[Fr(a), Fr(0), Fr(0)], [off(a), Fr(b), Fr(0)], [off(a), off(b), Fr(c)]]
    if rng.random() < 0.3:
        box[1][0] = Fr(0)
    if rng.random() < 0.3:
        box[2][0] = Fr(0)
    return box


def _box_for(rng, dt):
    """(box, kind) — triclinic boxes only with float64 (exactness head-room)"""
    if dt == "f64" and rng.random() < 0.5:
        return _tric_box(rng), "tric"
    return _ortho_box(rng), "ortho"


def _arr(rng, shape, near=None, box=None):
    """coordinates of the given shape; with `near`+`box`: a lattice-shifted neighbourhood of `near`"""
    def one(ref):
        if ref is None or box is None or rng.random() < 0.2:
            return _coord(rng)
        d = [Fr(rng.randint(-24, 24), 8) for _ in range(3)]
        k = [rng.randint(-2, 2) for _ in range(3)]
        return [ref[i] + d[i] + sum(k[r] * box[r][i] for r in range(3)) for i in range(3)]
    if len(shape) == 0:
        return one(near)
    if len(shape) == 1:
        return [one(near) for _ in range(shape[0])]
    return [[one(near) for _ in range(shape[1])] for _ in range(shape[0])]


def _shapes(rng):
    n = rng.choice([1, 2, 3, 4])
    m = rng.choice([1, 2, 3])
    return rng.choice([
        ((), ()), ((), (n,)), ((n,), ()), ((n,), (n,)), ((1,), (n,)), ((n,), (1,)),
        ((m, n), (m, n)), ((n,), (m, n)), ((m, n), (n,)), ((), (m, n)), ((m, n), ()), ((1, n), (m, n)), ((m, 1), (m, n)),
        ((n,), (n + 1,)), ((m, n), (m + 1, n)), ((0,), (0,)),
    ])


def _stack_boxes(rng, dt, m):
    return [_box_for(rng, dt)[0] for _ in range(m)]


def _pairs(rng, n, k, width=2, bad=False):
    out = []
    for _ in range(k):
        out.append([rng.randint(-n, n - 1) if n else 0 for _ in range(width)])
    if bad and out:
        out[rng.randrange(len(out))][rng.randrange(width)] = rng.choice([n, -n - 1, n + 3])
    return out


def enc_idx(ps):
    return "_" if not ps else ";".join(":".join(str(i) for i in p) for p in ps)


def gen_exact(rng):
    """one exact-stream case"""
    dt = rng.choice(["f32", "f64", "f64"])
    r = rng.random()
    ops = []
    kind = "x"
    if r < 0.30:
        kind = "disp"
        s1, s2 = _shapes(rng)
        use_box = rng.random() < 0.75
        boxarg = None
        if use_box:
            m = s1[0] if len(s1) == 2 else s2[0] if len(s2) == 2 else None
            if m is not None and rng.random() < 0.5:
                boxarg = _stack_boxes(rng, dt, max(len(s1) == 2 and s1[0] or 0, len(s2) == 2 and s2[0] or 0))
                ref_box = boxarg[0]
            else:
                boxarg = _box_for(rng, dt)[0]
                ref_box = boxarg
        a1 = _arr(rng, s1)
        ref = a1 if len(s1) == 0 else (a1[0] if len(s1) == 1 and a1 else (a1[0][0] if len(s1) == 2 and a1 and a1[0] else None))
        a2 = _arr(rng, s2, near=ref, box=ref_box if use_box else None)
        ops.append(f"disp {dt} {enc_arr(a1)} {enc_arr(a2)} {enc_box(boxarg)}")
        ops.append(f"dist2 {dt} {enc_arr(a1)} {enc_arr(a2)} {enc_box(boxarg)}")
    elif r < 0.45:
        kind = "index"
        n = rng.choice([1, 2, 3, 5])
        stack = rng.random() < 0.4
        m = rng.choice([1, 2, 3])
        boxarg = None
        periodic = rng.random() < 0.7
        if rng.random() < 0.8:
            boxarg = _stack_boxes(rng, dt, m) if (stack and rng.random() < 0.5) else _box_for(rng, dt)[0]
        rb = None if boxarg is None else (boxarg[0] if stack and isinstance(boxarg[0][0], list) else boxarg)
        base = _coord(rng)
        a = _arr(rng, (m, n) if stack else (n,), near=base, box=rb)
        ps = _pairs(rng, n, rng.choice([0, 1, 2, 4]), bad=rng.random() < 0.08)
        own = "nd"
        if rng.random() < 0.6:
            # AtomArray / AtomArrayStack carrying its own box (orthorhombic, float32; `-` = box attribute None),
            # combined with no explicit box, a different explicit box, periodic on and off
            pick = rng.random()
            if pick < 0.2:
                own = "-"
            elif stack and rng.random() < 0.6:
                own = enc_box([_ortho_box(rng) for _ in range(m)])
            else:
                own = enc_box(_ortho_box(rng))
            if rng.random() < 0.4:
                boxarg = None
            periodic = rng.random() < 0.8
        tail = "" if own == "nd" else " " + own
        ops.append(f"idisp {dt} {enc_arr(a)} {enc_idx(ps)} {'T' if periodic else 'F'} {enc_box(boxarg)}{tail}")
        ops.append(f"idist2 {dt} {enc_arr(a)} {enc_idx(ps)} {'T' if periodic else 'F'} {enc_box(boxarg)}{tail}")
        if rng.random() < 0.1:
            # a single coordinate of shape (3,) is not an atom array: IndexError
            ops.append(f"idisp {dt} {enc_arr(_coord(rng))} {enc_idx([[0, 0]])} {'T' if periodic else 'F'} {enc_box(boxarg)}")
        if rng.random() < 0.15:
            ps3 = _pairs(rng, n, 1, width=3)
            ops.append(f"idisp {dt} {enc_arr(a)} {enc_idx(ps3)} F -")
    elif r < 0.60:
        kind = "fraction"
        shape = rng.choice([(), (2,), (3,), (2, 2)])
        if len(shape) == 2 and rng.random() < 0.5:
            boxarg = _stack_boxes(rng, dt, shape[0])
        else:
            boxarg = _box_for(rng, dt)[0]
        a = _arr(rng, shape)
        ops.append(f"frac {dt} {enc_arr(a)} {enc_box(boxarg)}")
        ops.append(f"move {dt} {enc_arr(a)} {enc_box(boxarg)}")
        f = _arr(rng, shape)
        f = _map(f, lambda v: [x / 4 for x in v])
        ops.append(f"unfrac {dt} {enc_arr(f)} {enc_box(boxarg)}")
    elif r < 0.75:
        kind = "remove_pbc_coord"
        n = rng.choice([0, 1, 2, 3, 5, 8])
        stack = rng.random() < 0.3
        m = rng.choice([1, 2])
        if stack:
            boxarg = _stack_boxes(rng, dt, m)
            a = [_walk(rng, n, boxarg[i]) for i in range(m)]
        else:
            boxarg = _box_for(rng, dt)[0]
            a = _walk(rng, n, boxarg)
        ops.append(f"rpbc {dt} {enc_arr(a)} {enc_box(boxarg)}")
    elif r < 0.85:
        kind = "repeat"
        n = rng.choice([0, 1, 2, 3])
        boxarg = _box_for(rng, dt)[0]
        a = _arr(rng, (n,))
        amount = rng.choice([0, 1, 1, 2])
        ops.append(f"repeat {dt} {enc_arr(a)} {enc_box(boxarg)} {amount}")
        if rng.random() < 0.15:
            ops.append(f"repeat {dt} {enc_arr(a)} {enc_box(boxarg)} {rng.choice([-1, -2, -5])}")      # refused: ValueError
        if n:
            ops.append(f"rbox {dt} {enc_arr(a)} {enc_box(boxarg)} {rng.choice(['-', str(amount)])}")
        if n and rng.random() < 0.5:
            # AtomArrayStack with per-model boxes: every model must be repeated with ITS coordinates and ITS box
            m = rng.choice([2, 2, 3])
            ops.append(f"rbox f32 {enc_arr(_arr(rng, (m, n)))} {enc_box([_box_for(rng, 'f32')[0] for _ in range(m)])} {rng.choice(['-', '1', '0', '2'])}")
    elif r < 0.93:
        kind = "remove_pbc"
        boxarg = _box_for(rng, dt)[0]
        sizes = [rng.choice([1, 2, 2, 4]) for _ in range(rng.choice([1, 2, 3, 4]))]
        if rng.random() < 0.4:
            sizes = [rng.choice([2, 4])] * rng.choice([2, 3, 4])          # "solvent": equal molecules
        walks = [_walk(rng, sz, boxarg) for sz in sizes]
        # the atoms of a molecule need not be contiguous in the array (all O, then all H1, ...)
        order = _layout(rng, sizes, rng.choice(["contiguous", "by-position", "by-position", "merge"]))
        a = [walks[m][j] for m, j in order]
        mols = [[i for i, (m_, _j) in enumerate(order) if m_ == m] for m in range(len(sizes))]
        if rng.random() < 0.4:
            # non-default `selection`: per molecule all / none / half of the atoms (counts stay powers of two: exact centroids)
            sel = [0] * len(a)
            for mm in mols:
                pick = rng.choice(["all", "none", "half"])
                chosen = mm if pick == "all" else [] if pick == "none" else rng.sample(mm, len(mm) // 2 if len(mm) > 1 else 1)
                for i in chosen:
                    sel[i] = 1
            ops.append(f"rpbcmol {dt} {enc_arr(a)} {enc_box(boxarg)} {';'.join(','.join(str(i) for i in mm) for mm in mols)} "
                       + "".join(str(x) for x in sel))
        ops.append(f"rpbcmol {dt} {enc_arr(a)} {enc_box(boxarg)} {';'.join(','.join(str(i) for i in mm) for mm in mols)}")
    elif r < 0.965:
        kind = "dihedral"
        for _ in range(rng.choice([1, 2, 3])):
            ops.append(f"dihclass {dt} {enc_arr(_dih_quad(rng))}")
    else:
        kind = "box"
        boxarg = rng.choice([_box_for(rng, "f64")[0], _stack_boxes(rng, "f64", 2), _singular_box(rng)])
        ops.append(f"orth {enc_box(boxarg)}")
        ops.append(f"vol {enc_box(boxarg)}")
        a = _arr(rng, (rng.choice([0, 1, 2, 4, 8]),))
        ops.append(f"centroid {dt} {enc_arr(a)}")
        ops.append("ucell90 " + " ".join(q2s(Fr(rng.randint(1, 2000), rng.choice([1, 2, 4, 8, 16]))) for _ in range(3)))
        if rng.random() < 0.5:
            ops.append(f"disp f64 {enc_arr(_arr(rng, ()))} {enc_arr(_arr(rng, (2,)))} {enc_box(boxarg)}")
    return {"kind": kind, "ops": ops}


def _layout(rng, sizes, mode):
    """Array order of the atoms of several molecules: list of (molecule, atom-in-molecule) pairs.  The relative order
    of the atoms of ONE molecule is always kept; `by-position` lists all first atoms, then all second atoms, ...
    (solvent grouped by element: all O, all H1, all H2), `merge` is a random interleaving, `contiguous` the usual one."""
    if mode == "by-position":
        return [(m, j) for j in range(max(sizes, default=0)) for m in range(len(sizes)) if j < sizes[m]]
    if mode == "merge":
        left = [0] * len(sizes)
        out = []
        while True:
            open_ = [m for m in range(len(sizes)) if left[m] < sizes[m]]
            if not open_:
                return out
            m = rng.choice(open_)
            out.append((m, left[m]))
            left[m] += 1
    return [(m, j) for m in range(len(sizes)) for j in range(sizes[m])]


def _dih_quad(rng):
    """four atoms whose dihedral class is decided by exact arithmetic: exactly planar trans / cis quadruples lying in a
    coordinate plane (idealised / 2D-sketched geometry: zig-zag chains, rings), or clearly non-planar grid points"""
    mode = rng.choice(["planar-trans", "planar-trans", "planar-cis", "planar-any", "generic", "generic"])
    for _ in range(200):
        if mode == "generic":
            q = [[Fr(rng.randint(-40, 40), rng.choice([1, 2, 4, 8])) for _ in range(3)] for _ in range(4)]
        else:
            const_axis = rng.randrange(3)
            cval = Fr(rng.randint(-80, 80), 8)
            u = [[Fr(rng.randint(-24, 24), rng.choice([1, 1, 2, 8])) for _ in range(2)] for _ in range(4)]
            if mode != "planar-any":
                # zig-zag (trans) or U-shape (cis): atoms 1 and 4 on opposite / the same side of the bond 2-3
                b2 = [u[2][0] - u[1][0], u[2][1] - u[1][1]]
                perp = [-b2[1], b2[0]]
                k1, k4 = Fr(rng.randint(1, 6), 2), Fr(rng.randint(1, 6), 2)
                t1, t4 = Fr(rng.randint(-3, 3), 2), Fr(rng.randint(-3, 3), 2)
                sgn = -1 if mode == "planar-trans" else 1
                u[0] = [u[1][0] + k1 * perp[0] + t1 * b2[0], u[1][1] + k1 * perp[1] + t1 * b2[1]]
                u[3] = [u[2][0] + sgn * k4 * perp[0] + t4 * b2[0], u[2][1] + sgn * k4 * perp[1] + t4 * b2[1]]
            q = []
            for p_ in u:
                v_ = list(p_)
                v_.insert(const_axis, cval)
                q.append(v_)
        if max(abs(x) for p_ in q for x in p_) > 200:
            continue
        b1, b2, b3 = _subF(q[1], q[0]), _subF(q[2], q[1]), _subF(q[3], q[2])
        n1, n2 = _crossF(b1, b2), _crossF(b2, b3)
        if _dotF(n1, n1) == 0 or _dotF(n2, n2) == 0:
            continue                                   # collinear: the dihedral is not defined
        y = _dotF(_crossF(n1, n2), b2)
        if mode == "generic":
            # clearly non-planar: |sin| of the dihedral above 0.1, so that the float sign is beyond doubt
            sin2 = Fr(y * y) / (_dotF(n1, n1) * _dotF(n2, n2) * _dotF(b2, b2))
            if sin2 < Fr(1, 100):
                continue
        return q
    return [[Fr(0), Fr(0), Fr(0)], [Fr(1), Fr(1), Fr(0)], [Fr(2), Fr(0), Fr(0)], [Fr(3), Fr(1), Fr(0)]]


def _dih_class(ang):
    if abs(ang) < 1e-6:
        return "0"
    if abs(abs(ang) - math.pi) < 1e-6:
        return "pi"
    return "+" if ang > 0 else "-"


def _singular_box(rng):
    b = _tric_box(rng)
    r = rng.random()
    if r < 0.4:
        b[2] = [b[0][i] + b[1][i] for i in range(3)]
    elif r < 0.7:
        b[1] = [Fr(0)] * 3
    else:
        b[2] = [2 * x for x in b[0]]
    return b


def _map(a, f):
    if a and not isinstance(a[0], list):
        return f(a)
    return [_map(x, f) for x in a]


def _walk(rng, n, box):
    """a chain of n atoms with steps of a few units, every atom shifted by a random lattice vector"""
    out = []
    cur = _coord(rng, lim=16)
    for _ in range(n):
        k = [rng.randint(-2, 2) if rng.random() < 0.6 else 0 for _ in range(3)]
        out.append([cur[i] + sum(k[r] * box[r][i] for r in range(3)) for i in range(3)])
        step_lim = rng.choice([8, 16, 40, 120])
        cur = [cur[i] + Fr(rng.randint(-step_lim, step_lim), 8) for i in range(3)]
    return out


def cases(rng, tier):
    n_exact = 600 if tier == "quick" else 6000
    n_float = 2400 if tier == "quick" else 16000
    for _ in range(n_exact):
        yield gen_exact(rng)
    for _ in range(n_float):
        yield gen_float(rng)


def corpus():
    import json
    out = []
    # documented examples
    out.append({"kind": "repeat", "ops": ["repeat f64 l:1,5,3;-1,2,5 b:16,0,0;0,16,0;0,0,16 1",
                                           "rbox f32 l:1,5,3;-1,2,5 b:16,0,0;0,16,0;0,0,16 2"]})
    out.append({"kind": "fraction", "ops": ["move f64 l:1,2,3;1,22,54;-4,8,6 b:8,0,0;0,8,0;0,0,8",
                                             "frac f64 l:1,1,1;10,0,0;0,0,10;-5,2,1 b:4,0,0;0,4,0;0,4,4"]})
    out.append({"kind": "disp", "ops": ["disp f64 v:1,1,1 v:7,7,9/2 b:8,0,0;4,8,0;2,2,8",
                                         "disp f32 v:0,0,0 v:4,-4,12 b:8,0,0;0,8,0;0,0,8",
                                         "disp f64 l:0,0,0 l:1,1,1 b:8,0,0;16,0,0;0,0,8"]})
    return out


# =====================================================================================
# implementation adapter (exact stream)
# =====================================================================================
def _err(e):
    return "ERR:" + type(e).__name__


def _square_grid(x):
    """sqrt undone: the exact stream's squared distances are multiples of 1/GRID"""
    v = Fr(float(x)) ** 2
    return Fr(round(v * GRID), GRID)


def run_impl(case):
    import warnings

    import numpy as np

    import biotite.structure as struc
    out = []
    for op in case["ops"]:
        w = op.split()
        try:
            with warnings.catch_warnings():
                warnings.simplefilter("ignore")
                out.append(_run_op(np, struc, w))
        except ChildCrash:
            out.append("CRASH")
        except Exception as e:  # noqa: BLE001
            out.append(_err(e))
    return out


class ChildCrash(Exception):
    """the forked child running code under test died / hung"""


def _forked(fn):
    from common import sandbox
    r = sandbox.run_forked(fn, timeout=60)
    if r[0] == "ok":
        return r[1]
    if r[0] == "err":
        import builtins

        import numpy as np
        cls = getattr(builtins, r[1], None) or getattr(np.linalg, r[1], None)
        if cls is None or not (isinstance(cls, type) and issubclass(cls, BaseException)):
            cls = type(r[1], (Exception,), {})
        raise cls(r[2])
    raise ChildCrash(f"{r[0]} {r[1:] if len(r) > 1 else ''}")


def _npbox(np, b, dt):
    return None if b is None else np.array([[[float(c) for c in r] for r in bb] for bb in b] if isinstance(b[0][0], list)
                                            else [[float(c) for c in r] for r in b], dtype=dt)


def _mk_atoms(np, struc, a, own):
    """AtomArray (rank 2) / AtomArrayStack (rank 3) carrying `own` as its box attribute (None = no box)"""
    if a.ndim == 2:
        atoms = struc.AtomArray(a.shape[0])
    else:
        atoms = struc.AtomArrayStack(a.shape[0], a.shape[1])
    atoms.coord = a.astype(np.float32)
    if own is not None:
        own = np.asarray(own, dtype=np.float32)
        if a.ndim == 3 and own.ndim == 2:
            own = np.stack([own] * a.shape[0])
        atoms.box = own
    return atoms


def _index_target(np, struc, w, dt):
    """(atoms-or-ndarray, explicit box, own box or None, is_atoms) of an `idisp`/`idist2` op"""
    a, b = np_arr(dec_arr(w[2]), dt), _npbox(np, dec_box(w[5]), dt)
    if len(w) >= 7 and w[6] != "nd":
        own = _npbox(np, dec_box(w[6]), "float32")
        return _mk_atoms(np, struc, a, own), a.astype(np.float32), b, own, True
    return a, a, b, None, False


def _npidx(np, s, width=2):
    if s == "_":
        return np.zeros((0, width), dtype=int)
    return np.array([[int(i) for i in p.split(":")] for p in s.split(";")], dtype=int)


def _run_op(np, struc, w):
    name = w[0]
    if name in ("disp", "dist2"):
        dt = DT[w[1]]
        a1, a2, b = np_arr(dec_arr(w[2]), dt), np_arr(dec_arr(w[3]), dt), _npbox(np, dec_box(w[4]), dt)
        if name == "disp":
            return "ok " + out_arr(struc.displacement(a1, a2, b))
        return "ok " + out_scal(struc.distance(a1, a2, b), _square_grid)
    if name in ("idisp", "idist2"):
        dt = DT[w[1]]
        a, _c, b, _own, _is_atoms = _index_target(np, struc, w, dt)
        width = len(w[3].split(";")[0].split(":")) if w[3] != "_" else 2
        idx = _npidx(np, w[3], width)
        if name == "idisp":
            return "ok " + out_arr(struc.index_displacement(a, idx, periodic=(w[4] == "T"), box=b))
        return "ok " + out_scal(struc.index_distance(a, idx, periodic=(w[4] == "T"), box=b), _square_grid)
    if name in ("frac", "unfrac", "move", "rpbc"):
        dt = DT[w[1]]
        a, b = np_arr(dec_arr(w[2]), dt), _npbox(np, dec_box(w[3]), dt)
        fn = {"frac": struc.coord_to_fraction, "unfrac": struc.fraction_to_coord, "move": struc.move_inside_box,
              "rpbc": struc.remove_pbc_from_coord}[name]
        return "ok " + out_arr(fn(a, b))
    if name == "repeat":
        dt = DT[w[1]]
        a, b = np_arr(dec_arr(w[2]), dt), _npbox(np, dec_box(w[3]), dt)
        rep, idx = struc.repeat_box_coord(a, b, int(w[4]))
        return "ok " + out_arr(rep) + " " + (",".join(str(int(i)) for i in idx) or "_")
    if name == "rbox":
        a, b = np_arr(dec_arr(w[2]), "float32"), _npbox(np, dec_box(w[3]), "float32")
        atoms = _mk_atoms(np, struc, a, b)
        rep, idx = struc.repeat_box(atoms) if w[4] == "-" else struc.repeat_box(atoms, int(w[4]))
        return "ok " + out_arr(rep.coord) + " " + (",".join(str(int(i)) for i in idx) or "_")
    if name == "rpbcmol":
        a, b = np_arr(dec_arr(w[2]), "float32"), _npbox(np, dec_box(w[3]), "float32")
        mols = [[int(i) for i in mm.split(",")] for mm in w[4].split(";")]
        atoms = struc.AtomArray(len(a))
        atoms.coord = a
        atoms.box = b
        bonds = [(mm[i], mm[i + 1], 1) for mm in mols for i in range(len(mm) - 1)]
        atoms.bonds = struc.BondList(len(a), np.array(bonds, dtype=np.uint32).reshape(-1, 3))
        sel = None if len(w) < 6 else np.array([c == "1" for c in w[5]], dtype=bool)
        # remove_pbc walks the bond graph in a compiled extension: a dead child is a verdict, not a dead check
        return "ok " + out_arr(_forked(lambda: struc.remove_pbc(atoms, sel).coord))
    if name == "orth":
        r = struc.is_orthogonal(_npbox(np, dec_box(w[1]), "float64"))
        return "ok " + (("T" if r else "F") if np.ndim(r) == 0 else ",".join("T" if x else "F" for x in r))
    if name == "vol":
        r = struc.box_volume(_npbox(np, dec_box(w[1]), "float64"))
        # LU-based determinant of small dyadic matrices: exact up to the final products; snap to the 1/64 grid
        return "ok " + out_scal(r, lambda c: Fr(round(Fr(float(c)) * 4096), 4096))
    if name == "dihclass":
        q = np_arr(dec_arr(w[2]), DT[w[1]])
        ang = float(struc.dihedral(q[0], q[1], q[2], q[3]))
        at = _mk_atoms(np, struc, q, None)
        ang2 = float(struc.index_dihedral(at, np.array([[0, 1, 2, 3]]))[0])
        c1, c2 = _dih_class(ang), _dih_class(ang2)
        return "ok " + (c1 if c1 == c2 else f"{c1}/{c2}")
    if name == "ucell90":
        import math
        lens = [float(Fr(x)) for x in w[1:4]]
        box = struc.vectors_from_unitcell(*lens, math.pi / 2, math.pi / 2, math.pi / 2)
        back = struc.unitcell_from_vectors(box)
        flags = ",".join("T" if abs(float(x) - math.pi / 2) < 1e-6 else "F" for x in back[3:])
        return ("ok b:" + ";".join(enc_vec([Fr(float(c)) for c in r]) for r in box) + " "
                + ",".join(q2s(Fr(float(x))) for x in back[:3]) + " " + flags)
    if name == "centroid":
        cen = np.asarray(struc.centroid(np_arr(dec_arr(w[2]), DT[w[1]])))
        if np.isnan(cen).all():
            return "ok v:nan,nan,nan"          # mean of no atoms
        return "ok " + out_arr(cen)
    return "bad-op"


# =====================================================================================
# float stream: generator
# =====================================================================================
def _fl(rng, lim):
    return rng.uniform(-lim, lim)


def _quat_rotation(rng):
    """integer quaternion -> exact rational proper rotation (as nested Fraction lists)"""
    while True:
        a, b, c, d = (rng.randint(-6, 6) for _ in range(4))
        n = a * a + b * b + c * c + d * d
        if n:
            break
    return [[Fr(a * a + b * b - c * c - d * d, n), Fr(2 * (b * c - a * d), n), Fr(2 * (b * d + a * c), n)],
            [Fr(2 * (b * c + a * d), n), Fr(a * a - b * b + c * c - d * d, n), Fr(2 * (c * d - a * b), n)],
            [Fr(2 * (b * d - a * c), n), Fr(2 * (c * d + a * b), n), Fr(a * a - b * b - c * c + d * d, n)]]


def _float_box(rng):
    """(kind, 3x3 float list)"""
    r = rng.random()
    if r < 0.3:
        ls = [rng.uniform(5, 60) for _ in range(3)]
        return "ortho", [[ls[0], 0, 0], [0, ls[1], 0], [0, 0, ls[2]]]
    if r < 0.45:
        # rotated orthogonal box: rational rotation of a diagonal box
        R = _quat_rotation(rng)
        ls = [rng.choice([8.0, 16.0, 25.0, 32.0, 50.0]) for _ in range(3)]
        return "ortho-rot", [[float(R[i][r_]) * ls[r_] for i in range(3)] for r_ in range(3)]
    if r < 0.8:
        for _ in range(100):
            la, lb, lc = (rng.uniform(8, 60) for _ in range(3))
            al, be, ga = (math.radians(rng.uniform(50, 130)) for _ in range(3))
            cx = lc * math.cos(be)
            cy = lc * (math.cos(al) - math.cos(be) * math.cos(ga)) / math.sin(ga)
            cz2 = lc * lc - cx * cx - cy * cy
            if cz2 > (0.35 * lc) ** 2:
                return "tric-cell", [[la, 0, 0], [lb * math.cos(ga), lb * math.sin(ga), 0], [cx, cy, math.sqrt(cz2)]]
    a, b, c = (rng.uniform(8, 50) for _ in range(3))
    return "tric", [[a, 0, 0], [rng.uniform(-0.5, 0.5) * a, b, 0], [rng.uniform(-0.5, 0.5) * a, rng.uniform(-0.5, 0.5) * b, c]]


def _skewed_box(rng):
    """strongly skewed (non-reduced) triclinic cell: at least one angle in 18..55 or 125..160 degrees, heights >= 5"""
    for _ in range(400):
        la, lb, lc = (rng.uniform(12, 40) for _ in range(3))
        if rng.random() < 0.6:
            la = lb = lc = rng.uniform(12, 40)       # equal lengths: the short lattice vectors are the mixed ones (a-b, a+b, ...)
        angs = [rng.uniform(60, 120) for _ in range(3)]
        for i in rng.sample(range(3), rng.choice([1, 1, 2, 3])):
            angs[i] = rng.choice([rng.uniform(18, 55), rng.uniform(125, 160), rng.uniform(18, 32), rng.uniform(148, 160)])
        al, be, ga = (math.radians(x) for x in angs)
        cx = lc * math.cos(be)
        cy = lc * (math.cos(al) - math.cos(be) * math.cos(ga)) / math.sin(ga)
        cz2 = lc * lc - cx * cx - cy * cy
        if cz2 <= (0.2 * lc) ** 2:
            continue
        box = [[la, 0, 0], [lb * math.cos(ga), lb * math.sin(ga), 0], [cx, cy, math.sqrt(cz2)]]
        if min(_heights_f(box)) >= 5.0:
            return "tric-skew", box
    return _float_box(rng)


def _molecule(rng, n):
    """random tree with ~1.5 A bonds; returns (coords, bonds) in generation order (parent index < child index)"""
    coords = [[_fl(rng, 3) for _ in range(3)]]
    bonds = []
    for i in range(1, n):
        p = rng.randrange(max(0, i - 3), i) if rng.random() < 0.8 else rng.randrange(i)
        while True:
            d = [rng.gauss(0, 1) for _ in range(3)]
            nn = math.sqrt(sum(x * x for x in d))
            if nn > 0.2:
                break
        ln = rng.uniform(1.0, 1.9)
        coords.append([coords[p][k] + d[k] / nn * ln for k in range(3)])
        bonds.append([p, i])
    return coords, bonds


def gen_float(rng):
    r = rng.random()
    dt = rng.choice(["f32", "f32", "f64"])
    seed = rng.getrandbits(48)
    if r < 0.012:
        return {"kind": "f-alias", "seed": seed}
    if r < 0.02:
        return {"kind": "f-collinear", "seed": seed}
    if r < 0.03:
        return {"kind": "f-state", "seed": seed}
    if r < 0.045:
        return {"kind": "f-refuse", "seed": seed}
    if r < 0.07:
        return {"kind": "f-spell", "seed": seed}
    if r < 0.10:
        return {"kind": "f-misc", "seed": seed, "what": rng.choice(["orient", "orient", "util", "backbone", "backbone", "centroid"])}
    if r < 0.125:
        return _gen_seq(rng, seed)
    if r < 0.15:
        return _gen_pmeasure(rng, seed)
    if r < 0.20:
        return _gen_transform(rng, seed)
    if r < 0.26:
        # index variants on AtomArray / AtomArrayStack objects that carry their own box
        n = rng.choice([5, 8, 12])
        m = rng.choice([0, 0, 2, 3])
        own_kind = rng.choice(["none", "box", "box", "box"])
        exp_kind = rng.choice(["none", "box", "box"])
        case = {"kind": "f-index", "n": n, "m": m, "periodic": rng.random() < 0.8, "seed": seed,
                "atoms": rng.choice(["object", "object", "object", "ndarray"]),
                "coord": _farr(rng, (m, n) if m else (n,), 25),
                "idx": [rng.sample(range(-n, n), 4) for _ in range(rng.choice([1, 3, 6]))]}
        case["own"] = None if own_kind == "none" else ([_float_box(rng)[1] for _ in range(m)] if m else _float_box(rng)[1])
        case["explicit"] = None if exp_kind == "none" else (
            [_float_box(rng)[1] for _ in range(m)] if (m and rng.random() < 0.5) else _float_box(rng)[1])
        return case
    if r < 0.36:
        lim = rng.choice([5, 30, 100])
        n = rng.choice([1, 2, 4, 7])
        m = rng.choice([0, 0, 2, 3])          # 0: no model axis
        shape = (m, n) if m else (n,)
        pts = [_farr(rng, shape, lim) for _ in range(4)]
        if rng.random() < 0.25:
            # exactly planar quadruples (idealised / sketched coordinates): every atom in one coordinate plane, grid values
            ax_ = rng.randrange(3)
            cv = float(rng.randint(-40, 40)) / 4

            def flat(v_):
                out = [float(round(x * 2)) / 2 for x in v_]
                out[ax_] = cv
                return out
            pts = [_fmap2(p_, flat) for p_ in pts]
        return {"kind": "f-geom", "dt": dt, "pts": pts, "quat": [[str(x) for x in row] for row in _quat_rotation(rng)],
                "trans": [rng.randint(-400, 400) / 8 for _ in range(3)],
                "motion": rng.choice(["quat", "quat", "rotate", "rotate_centered", "rotate_about_axis", "align_vectors", "translate"]),
                "mparams": [rng.uniform(-math.pi, math.pi) for _ in range(6)], "seed": seed}
    if r < 0.60:
        kind, box = _float_box(rng)
        n = rng.choice([1, 3, 6, 6, 6, 6, 60])
        m = rng.choice([0, 0, 2]) if n < 50 else 0
        a1 = _farr(rng, (m, n) if m else (n,), 40)
        spread = rng.choice([0.3, 0.6, 1.0, 3.0])
        a2 = _fmap2(a1, lambda v: [v[i] + sum(rng.uniform(-spread, spread) * box[r_][i] for r_ in range(3)) for i in range(3)])
        boxes = None
        if m and rng.random() < 0.5:
            boxes = [_float_box(rng)[1] for _ in range(m)]
        return {"kind": "f-pbc", "dt": dt, "boxkind": kind, "box": boxes if boxes else box, "a1": a1, "a2": a2,
                "shape_mix": rng.choice(["same", "same", "single-first", "single-second"]) if not m else "same", "seed": seed,
                # the whole system in other length units (nm, reduced units, ...): boxes from 5e-3 to 6e4
                "scale": rng.choice([1.0, 1.0, 1.0, 1e-3, 0.1, 10.0, 1e3])}
    if r < 0.72:
        kind, box = _float_box(rng)
        n = rng.choice([1, 3, 6])
        a = [[sum(rng.uniform(-3, 4) * box[r_][i] for r_ in range(3)) for i in range(3)] for _ in range(n)]
        return {"kind": "f-move", "dt": dt, "boxkind": kind, "box": box, "a": a, "seed": seed,
                "scale": rng.choice([1.0, 1.0, 1.0, 1e-3, 0.1, 10.0, 1e3])}
    if r < 0.82:
        mode = rng.choice(["plain", "plain", "aniso", "aniso", "near90", "near90", "f32", "invalid"])
        if mode == "invalid":
            # no such cell exists: the angles violate the triangle inequality, or gamma is 0 / 180 degrees
            lens = [rng.uniform(1, 100) for _ in range(3)]
            if rng.random() < 0.5:
                x, y = rng.uniform(10, 80), rng.uniform(10, 80)
                angs = [x, y, rng.choice([x + y + rng.uniform(5, 20), max(abs(x - y) - rng.uniform(3, 8), 0.5)])]
                rng.shuffle(angs)
            else:
                angs = [rng.uniform(60, 120), rng.uniform(60, 120), rng.choice([0.0, 180.0])]
            return {"kind": "f-unitcell", "lens": lens, "angs": angs, "aniso": False, "f32": False, "invalid": True, "seed": seed}
        aniso = mode == "aniso"

        def near90():
            # log-uniform distance from 90 degrees between 1e-7 and 3 degrees, either side
            return 90.0 + rng.choice([-1, 1]) * 10 ** rng.uniform(-7, 0.5)
        if mode == "aniso":
            # very anisotropic cells (ratios up to 1e4), angles at / near / far from 90 degrees
            lens = [rng.uniform(50, 300), rng.uniform(50, 300), 10 ** rng.uniform(-1.5, 1)]
            rng.shuffle(lens)
            angs = [rng.choice([90.0, near90(), rng.uniform(60, 120)]) for _ in range(3)]
        elif mode == "near90":
            lens = [rng.uniform(1, 100) for _ in range(3)]
            angs = [rng.choice([90.0, near90(), near90()]) for _ in range(3)]
        else:
            lens = [rng.uniform(1, 100) for _ in range(3)]
            angs = [rng.choice([90.0, 90.0, 120.0, 60.0, rng.uniform(50, 130)]) for _ in range(3)]
        return {"kind": "f-unitcell", "lens": lens, "angs": angs, "aniso": aniso, "f32": mode == "f32", "seed": seed}
    # molecules wrapped across faces, edges and corners (every combination of lattice vectors, also mixed ones like -a+b)
    kind, box = _skewed_box(rng) if rng.random() < 0.4 else _float_box(rng)
    mols = []
    for _ in range(rng.choice([1, 2, 3])):
        n = rng.choice([1, 2, 5, 9, 14])
        coords, bonds = _molecule(rng, n)
        order = list(range(n))
        if rng.random() < 0.3:
            rng.shuffle(order)            # array order no longer follows the bonds
        # place the molecule anywhere, or right at a face / edge / corner of the box (so that wrapping it into the box
        # splits it by mixed lattice vectors such as -a+b or a+b-c)
        fr = [rng.choice([rng.uniform(0, 1), rng.uniform(-0.03, 0.03), 1 + rng.uniform(-0.03, 0.03)]) for _ in range(3)]
        centre = [sum(fr[r_] * box[r_][i] for r_ in range(3)) for i in range(3)]
        if rng.random() < 0.5:
            shift = [[rng.randint(-2, 2) for _ in range(3)] for _ in range(n)]
        else:
            # the tail of the array is wrapped by ONE (mostly mixed) lattice vector, the head stays
            combo = rng.choice([[-1, 1, 0], [1, -1, 0], [1, 1, -1], [-1, 0, 1], [0, 1, -1], [1, 1, 0], [-1, -1, 1],
                                [rng.randint(-1, 1) for _ in range(3)]])
            if rng.random() < 0.6:
                # the SHORTEST mixed lattice vector of this box (in a skewed cell shorter than the box vectors themselves)
                mixed = [[i_, j_, k_] for i_ in (-1, 0, 1) for j_ in (-1, 0, 1) for k_ in (-1, 0, 1) if (i_ != 0) + (j_ != 0) + (k_ != 0) >= 2]
                combo = min(mixed, key=lambda c_: sum(sum(c_[r_] * box[r_][t] for r_ in range(3)) ** 2 for t in range(3)))
                combo = [x * rng.choice([1, -1]) for x in combo] if rng.random() < 0.5 else combo
            cut = rng.randrange(n) if n > 1 else 0
            shift = [[0, 0, 0] if j < cut else combo for j in range(n)]
        mols.append({"coords": [[coords[j][k] + centre[k] for k in range(3)] for j in order],
                     "bonds": [[order.index(p), order.index(c)] for p, c in bonds],
                     "shift": shift,
                     "stretch": 1.0 if rng.random() < 0.85 else rng.uniform(2.0, 12.0)})
    layout = rng.choice(["contiguous", "contiguous", "by-position", "merge"])
    if rng.random() < 0.25:
        # solvent-like: several equal small molecules spread over the box, listed grouped by atom position
        n = rng.choice([2, 3, 3, 4])
        coords, bonds = _molecule(rng, n)
        mols = []
        for _ in range(rng.choice([2, 3, 5, 8])):
            centre = [sum(rng.uniform(0, 1) * box[r_][i] for r_ in range(3)) for i in range(3)]
            R = [[float(x) for x in row] for row in _quat_rotation(rng)]
            rc = [[sum(R[a_][b_] * c[b_] for b_ in range(3)) for a_ in range(3)] for c in coords]
            mols.append({"coords": [[c[k] + centre[k] for k in range(3)] for c in rc], "bonds": [list(b_) for b_ in bonds],
                         "shift": [[rng.randint(-1, 1) for _ in range(3)] for _ in range(n)] if rng.random() < 0.5 else [[0, 0, 0]] * n,
                         "stretch": 1.0})
        layout = rng.choice(["by-position", "by-position", "merge"])
    case = {"kind": "f-rpbc", "dt": dt, "boxkind": kind, "box": box, "mols": mols, "layout": layout,
            "layout_seed": rng.getrandbits(32), "wrap": rng.choice(["shift", "shift", "inside"]), "seed": seed}
    # the less-used ways in: a `selection`, no BondList (molecules = chains), an AtomArrayStack with per-model boxes
    opt = rng.random()
    if opt < 0.2:
        case["selection_p"] = rng.choice([0.0, 0.5, 0.8, 1.0])
    elif opt < 0.3:
        case["no_bonds"] = True
        case["layout"] = "contiguous"
    elif opt < 0.45:
        case["models"] = rng.choice([2, 3])
    return case


def _heights_f(box):
    def cr(u, v):
        return [u[1] * v[2] - u[2] * v[1], u[2] * v[0] - u[0] * v[2], u[0] * v[1] - u[1] * v[0]]
    a, b, c = box
    det = abs(sum(x * y for x, y in zip(a, cr(b, c))))
    return [det / math.sqrt(sum(x * x for x in cr(b, c))), det / math.sqrt(sum(x * x for x in cr(c, a))),
            det / math.sqrt(sum(x * x for x in cr(a, b)))]


def _unit(rng):
    while True:
        d = [rng.gauss(0, 1) for _ in range(3)]
        n = math.sqrt(sum(x * x for x in d))
        if n > 0.3:
            return [x / n for x in d]


def _gen_pmeasure(rng, seed):
    """four-atom chains measured WITH a box: every consecutive pair (1-2, 2-3, 3-4) is split across a box face in turn,
    in combinations and at random; bonds are shorter than 0.4 x the smallest box height, bond angles well away from 0/180"""
    kind, box = _float_box(rng)
    hmin = min(_heights_f(box))
    chains = []
    for _ in range(rng.choice([1, 2, 3])):
        q = [[sum(rng.uniform(0, 1) * box[r_][i] for r_ in range(3)) for i in range(3)]]
        prev = None
        for _b in range(3):
            while True:
                d = _unit(rng)
                if prev is None:
                    break
                cs = sum(x * y for x, y in zip(d, prev))
                if abs(cs) < 0.9:          # sin of the bond angle > 0.43
                    break
            ln = rng.uniform(1.2, max(1.3, min(6.0, 0.4 * hmin)))
            q.append([q[-1][i] + d[i] * ln for i in range(3)])
            prev = d
        chains.append(q)

    def shift():
        while True:
            v = [rng.randint(-2, 2) for _ in range(3)]
            if any(v):
                return v
    pattern = rng.choice(["split12", "split23", "split34", "split12+34", "split23+34", "all-pairs", "random", "none"])
    s1, s2, s3 = shift(), shift(), shift()
    zero = [0, 0, 0]

    def add(*vs):
        return [sum(v[i] for v in vs) for i in range(3)]
    shifts = {
        "split12": [s1, zero, zero, zero], "split23": [s1, s1, zero, zero], "split34": [zero, zero, zero, s1],
        "split12+34": [s1, zero, zero, s2], "split23+34": [s1, s1, zero, s2], "all-pairs": [add(s1, s2, s3), add(s2, s3), s3, zero],
        "random": [shift(), shift(), shift(), shift()], "none": [zero, zero, zero, zero]}[pattern]
    return {"kind": "f-pmeasure", "boxkind": kind, "box": box, "chains": chains, "pattern": pattern, "shifts": shifts,
            "rewrap_atom": rng.randrange(4), "rewrap_shift": shift(), "seed": seed}


def _gen_seq(rng, seed):
    """a history: box-dependent functions called with ONE box array object that is changed in place between the calls"""
    kind, box = _float_box(rng)
    n = rng.choice([2, 4, 7])
    coords, bonds = _molecule(rng, n)
    centre = [sum(rng.uniform(-1, 2) * box[r_][i] for r_ in range(3)) for i in range(3)]
    return {"kind": "f-seq", "boxkind": kind, "box": box, "dt": rng.choice(["f32", "f64"]),
            "coord": [[c[k] + centre[k] for k in range(3)] for c in coords], "bonds": bonds,
            "fn": rng.choice(["coord_to_fraction", "fraction_to_coord", "move_inside_box", "displacement", "distance",
                              "index_distance", "index_dihedral", "remove_pbc", "remove_pbc_from_coord", "repeat_box_coord"]),
            "mutations": [rng.choice(["scale", "scale", "swap", "skew", "negate-row"]) for _ in range(rng.choice([1, 2]))],
            "scale": rng.choice([0.5, 1.1, 2.0, 3.0]), "seed": seed}


def _gen_transform(rng, seed):
    """the helpers of transform.py the rigid-motion clause relies on, incl. (nearly) antiparallel align_vectors inputs"""
    motion = rng.choice(["rotate", "rotate_centered", "rotate_about_axis", "rotate_about_axis", "rotate_about_axis", "translate",
                         "align_vectors", "align_vectors", "align_vectors"])
    case = {"kind": "f-transform", "motion": motion, "seed": seed, "dt": rng.choice(["f32", "f64"]),
            "params": [rng.uniform(-math.pi, math.pi) for _ in range(9)],
            "points": [[_fl(rng, 20) for _ in range(3)] for _ in range(6)], "positions": rng.random() < 0.5}
    if motion == "rotate_about_axis":
        # axes of every length: unit, nearly unit (1 +- 1e-2 .. 1e-6, e.g. a unit vector typed with a few decimals),
        # integer, tiny and huge ones -- the axis must be normalised whatever its length
        amode = rng.choice(["unit", "near-unit", "near-unit", "near-unit", "decimals", "decimals", "integer", "tiny", "huge", "any"])
        u = _unit(rng)
        if amode == "unit":
            axis = u
        elif amode == "near-unit":
            f_ = 1 + rng.choice([-1, 1]) * 10 ** rng.uniform(-6, -2)
            axis = [x * f_ for x in u]
        elif amode == "decimals":
            u = rng.choice([u, [3 ** -0.5] * 3, [0.0, 0.6, 0.8], [2 ** -0.5, 0.0, -(2 ** -0.5)]])
            axis = [round(x, rng.choice([2, 3, 4])) for x in u]
            if not any(axis):
                axis = [0.0, 0.0, 1.0]
        elif amode == "integer":
            while True:
                axis = [float(rng.randint(-4, 4)) for _ in range(3)]
                if any(axis):
                    break
        elif amode == "tiny":
            f_ = 10 ** rng.uniform(-12, -3)
            axis = [x * f_ for x in u]
        elif amode == "huge":
            f_ = 10 ** rng.uniform(3, 12)
            axis = [x * f_ for x in u]
        else:
            axis = [x * rng.uniform(0.1, 10) for x in u]
        case["axis"], case["axis_mode"] = axis, amode
        case["angle"] = rng.choice([rng.uniform(-math.pi, math.pi), rng.uniform(0.5, 3.0), math.pi / 2, 2.0])
    if motion == "align_vectors":
        mode = rng.choice(["generic", "generic", "near-antiparallel", "near-antiparallel", "antiparallel", "antiparallel", "parallel"])
        case["mode"] = mode
        if mode == "antiparallel":
            a = rng.choice([[0, 0, 1], [1, 1, 0], [3, 0, 4], [1, 2, 2], [1, 2, 3], [rng.randint(-5, 5) for _ in range(3)], [0, -2, 0]])
            if not any(a):
                a = [1, 0, 0]
            kf = rng.choice([1, 2, 3, 0.5])
            case["origin"], case["target"] = [float(x) for x in a], [-kf * x for x in a]
        elif mode == "parallel":
            a = _unit(rng)
            case["origin"], case["target"] = a, [2.5 * x for x in a]
        else:
            a = _unit(rng)
            p_ = _unit(rng)
            dp = sum(x * y for x, y in zip(a, p_))
            p_ = [x - dp * y for x, y in zip(p_, a)]
            n_ = math.sqrt(sum(x * x for x in p_)) or 1.0
            p_ = [x / n_ for x in p_]
            ang = rng.uniform(0.05, 3.0) if mode == "generic" else math.pi - 10 ** rng.uniform(-6, -1)
            ln = rng.uniform(0.5, 4)
            case["origin"] = a
            case["target"] = [ln * (math.cos(ang) * x + math.sin(ang) * y) for x, y in zip(a, p_)]
    return case


def _farr(rng, shape, lim):
    if len(shape) == 1:
        return [[_fl(rng, lim) for _ in range(3)] for _ in range(shape[0])]
    return [[[_fl(rng, lim) for _ in range(3)] for _ in range(shape[1])] for _ in range(shape[0])]


def _fmap2(a, f):
    if a and not isinstance(a[0][0], list):
        return [f(v) for v in a]
    return [[f(v) for v in m] for m in a]


# =====================================================================================
# oracle — written from the property statement, independent of the Lean model
# =====================================================================================
EPS = {"f32": 2.0 ** -23, "f64": 2.0 ** -52}


def _exact(a):
    """numpy array -> nested lists of Fractions"""
    import numpy as np
    return [[Fr(float(c)) for c in v] for v in np.asarray(a).reshape(-1, 3)]


def _dotF(u, v):
    return u[0] * v[0] + u[1] * v[1] + u[2] * v[2]


def _subF(u, v):
    return [u[0] - v[0], u[1] - v[1], u[2] - v[2]]


def _crossF(u, v):
    return [u[1] * v[2] - u[2] * v[1], u[2] * v[0] - u[0] * v[2], u[0] * v[1] - u[1] * v[0]]


def _norm(u):
    return math.sqrt(float(_dotF(u, u)))


def _ref_angle_cos(a, b, c):
    v1, v2 = _subF(b, a), _subF(b, c)
    return float(_dotF(v1, v2)) / (_norm(v1) * _norm(v2))


def _ref_dihedral(a, b, c, d):
    """IUPAC: atan2(|b2| b1.(b2 x b3), (b1 x b2).(b2 x b3))"""
    b1, b2, b3 = _subF(b, a), _subF(c, b), _subF(d, c)
    n1, n2 = _crossF(b1, b2), _crossF(b2, b3)
    y = _norm(b2) * float(_dotF(b1, n2))
    x = float(_dotF(n1, n2))
    if min(_norm(b1), _norm(b2), _norm(b3)) == 0:
        return float("nan"), (0.0, 0.0)          # coinciding atoms: not defined
    return math.atan2(y, x), (_norm(n1) / (_norm(b1) * _norm(b2)), _norm(n2) / (_norm(b2) * _norm(b3)))


def _angdiff(a, b):
    d = (a - b) % (2 * math.pi)
    return min(d, 2 * math.pi - d)


def _inv_exact(box):
    a, b, c = box
    det = _dotF(a, _crossF(b, c))
    c0, c1, c2 = _crossF(b, c), _crossF(c, a), _crossF(a, b)
    # columns of the inverse
    return det, [[x / det for x in c0], [x / det for x in c1], [x / det for x in c2]]


def _fracs(v, invcols):
    return [_dotF(v, invcols[0]), _dotF(v, invcols[1]), _dotF(v, invcols[2])]


def _min_image(d, box, rng_=2):
    """(min squared length, argmin shift) over shifts in [-rng_, rng_]^3 around the rounded fractional position; exact"""
    det, invc = _inv_exact(box)
    f = _fracs(d, invc)
    base = [-round(x) for x in f]
    best = None
    for i in range(-rng_, rng_ + 1):
        for j in range(-rng_, rng_ + 1):
            for k in range(-rng_, rng_ + 1):
                s = (base[0] + i, base[1] + j, base[2] + k)
                e = [d[t] + s[0] * box[0][t] + s[1] * box[1][t] + s[2] * box[2][t] for t in range(3)]
                l2 = _dotF(e, e)
                if best is None or l2 < best[0]:
                    best = (l2, s)
    return best


def _heights(box):
    """the three box heights (distance between opposite faces) = 1/|column of inverse|"""
    det, invc = _inv_exact(box)
    return [1.0 / _norm(c) for c in invc]


def _box_exact(b):
    return [[Fr(float(c)) for c in r] for r in b]


def _cond(box):
    import numpy as np
    return float(np.linalg.cond(np.array([[float(c) for c in r] for r in box])))


def _is_orth_exact(box, tol=1e-6):
    return all(abs(float(_dotF(box[i], box[j]))) < tol for i, j in ((0, 1), (0, 2), (1, 2)))


def oracle(case):
    import warnings
    with warnings.catch_warnings():
        warnings.simplefilter("ignore")
        k = case.get("kind", "")
        if k.startswith("f-"):
            return {"f-geom": _o_geom, "f-alias": _o_alias, "f-collinear": _o_collinear, "f-state": _o_state, "f-refuse": _o_refuse, "f-spell": _o_spell, "f-misc": _o_misc, "f-seq": _o_seq, "f-index": _o_index, "f-pmeasure": _o_pmeasure, "f-transform": _o_transform, "f-pbc": _o_pbc, "f-move": _o_move, "f-unitcell": _o_unitcell, "f-rpbc": _o_rpbc}[k](case)
        return _o_exact(case)


# ---- exact cases: the property re-stated on the real code, in exact rational arithmetic
def _singular_exact(b):
    """is some box of `b` (numpy (3,3) or (m,3,3)) exactly singular?  exact rational determinant"""
    import numpy as np
    b = np.asarray(b)
    for bb in (b.reshape(-1, 3, 3)):
        bx = _box_exact(bb)
        if _dotF(bx[0], _crossF(bx[1], bx[2])) == 0:
            return True
    return False


def _refusal_ok(np, e, *, singular=False, shapes=None, extra=()):
    """Is the exception `e` one the documented contract allows for this input?  LinAlgError only for an exactly singular
    box, ValueError only for coordinate shapes numpy cannot broadcast; anything else refuses well-formed input."""
    allowed = set(extra)
    if singular:
        allowed.add("LinAlgError")
    if shapes is not None:
        try:
            np.broadcast_shapes(*shapes)
        except ValueError:
            allowed.add("ValueError")
    return type(e).__name__ in allowed


def _o_exact(case):
    import numpy as np

    import biotite.structure as struc
    v = []
    for op in case.get("ops", []):
        w = op.split()
        try:
            if w[0] == "disp" and w[4] != "-":
                dt = DT[w[1]]
                a1, a2, b = np_arr(dec_arr(w[2]), dt), np_arr(dec_arr(w[3]), dt), _npbox(np, dec_box(w[4]), dt)
                if b.ndim == 3 and max(a1.ndim, a2.ndim) != 3:
                    continue
                try:
                    res = struc.displacement(a1, a2, b)
                except Exception as e:  # noqa: BLE001
                    if not _refusal_ok(np, e, singular=_singular_exact(b), shapes=(a1.shape, a2.shape)):
                        v.append(("C15/displacement/rejects-valid-input", f"op `{op}`: {type(e).__name__}: {e}"))
                    continue
                if _singular_exact(b):
                    v.append(("C15/displacement/singular-box-accepted", f"op `{op}`: a box with determinant 0 must be refused (LinAlgError)"))
                    continue
                if np.asarray(res).size == 0:
                    continue
                diff = np.broadcast_to(a2.astype(float) - a1.astype(float), res.shape)
                for mi, (dm, rm) in enumerate(zip(diff.reshape(-1, diff.shape[-2] if diff.ndim > 1 else 1, 3),
                                                  np.asarray(res).reshape(-1, res.shape[-2] if res.ndim > 1 else 1, 3))):
                    bx = _box_exact(b if b.ndim == 2 else b[mi])
                    for d_, r_ in zip(_exact(dm), _exact(rm)):
                        v += _check_disp(d_, r_, bx, 0.0, f"op `{op}`")
            elif w[0] == "idisp":
                dt = DT[w[1]]
                at, c, b, own, is_atoms = _index_target(np, struc, w, dt)
                width = len(w[3].split(";")[0].split(":")) if w[3] != "_" else 2
                idx = _npidx(np, w[3], width)
                if width != 2:
                    continue
                periodic = w[4] == "T"
                # documented: periodic=False -> no box; an explicit `box` overrides the atoms' own `box` attribute
                eff = None if not periodic else (b if b is not None else own)
                must_reject = periodic and b is None and not is_atoms
                try:
                    r1 = struc.index_displacement(at, idx, periodic=periodic, box=b)
                except IndexError:
                    continue
                except ValueError:
                    if must_reject:
                        continue
                    try:
                        struc.displacement(c[..., idx[:, 0], :], c[..., idx[:, 1], :], eff)
                    except Exception:
                        continue          # the coordinate variant rejects the same input (shape / singular box)
                    v.append(("C15/index_displacement/rejected-although-coordinate-variant-accepts", f"op `{op}`"))
                    continue
                except Exception as e:  # noqa: BLE001
                    if not _refusal_ok(np, e, singular=eff is not None and _singular_exact(eff)):
                        v.append(("C15/index_displacement/rejects-valid-input", f"op `{op}`: {type(e).__name__}: {e}"))
                    continue
                if must_reject:
                    v.append(("C15/index_displacement/periodic-without-box-accepted", f"op `{op}`"))
                    continue
                r2 = struc.displacement(c[..., idx[:, 0], :], c[..., idx[:, 1], :], eff)
                which = "explicit-box-vs-own-box" if (is_atoms and b is not None and own is not None) else "differs-from-coordinate-variant"
                if r1.shape != r2.shape or not np.array_equal(r1, r2):
                    v.append((f"C15/index_displacement/{which}", f"op `{op}`: {np.asarray(r1).tolist()} vs displacement(..., documented box) {np.asarray(r2).tolist()}"))
                d1 = struc.index_distance(at, idx, periodic=periodic, box=b)
                d2 = struc.distance(c[..., idx[:, 0], :], c[..., idx[:, 1], :], eff)
                if not np.array_equal(d1, d2):
                    v.append((f"C15/index_distance/{which}", f"op `{op}`"))
            elif w[0] == "move":
                dt = DT[w[1]]
                a, b = np_arr(dec_arr(w[2]), dt), _npbox(np, dec_box(w[3]), dt)
                try:
                    res = struc.move_inside_box(a, b)
                except Exception as e:  # noqa: BLE001
                    if not _refusal_ok(np, e, singular=_singular_exact(b)):
                        v.append(("C15/move_inside_box/rejects-valid-input", f"op `{op}`: {type(e).__name__}: {e}"))
                    continue
                if _singular_exact(b):
                    v.append(("C15/move_inside_box/singular-box-accepted", f"op `{op}`: a box with determinant 0 must be refused (LinAlgError)"))
                    continue
                ra, rr = a.reshape(-1, a.shape[-2] if a.ndim > 1 else 1, 3), np.asarray(res).reshape(-1, a.shape[-2] if a.ndim > 1 else 1, 3)
                for mi in range(len(ra)):
                    bx = _box_exact(b if b.ndim == 2 else b[mi])
                    det, invc = _inv_exact(bx)
                    for x_, y_ in zip(_exact(ra[mi]), _exact(rr[mi])):
                        fy = _fracs(y_, invc)
                        if not all(0 <= f < 1 for f in fy):
                            v.append(("C15/move_inside_box/outside-box", f"op `{op}`: fractions {[str(f) for f in fy]}"))
                        fd = _fracs(_subF(y_, x_), invc)
                        if not all(f.denominator == 1 for f in fd):
                            v.append(("C15/move_inside_box/not-a-lattice-vector", f"op `{op}`: moved by fractions {[str(f) for f in fd]}"))
                again = struc.move_inside_box(res, b)
                if not np.array_equal(again, res):
                    v.append(("C15/move_inside_box/not-idempotent", f"op `{op}`"))
            elif w[0] == "frac":
                dt = DT[w[1]]
                a, b = np_arr(dec_arr(w[2]), dt), _npbox(np, dec_box(w[3]), dt)
                try:
                    res = struc.fraction_to_coord(struc.coord_to_fraction(a, b), b)
                except Exception as e:  # noqa: BLE001
                    if not _refusal_ok(np, e, singular=_singular_exact(b)):
                        v.append(("C15/coord_to_fraction/rejects-valid-input", f"op `{op}`: {type(e).__name__}: {e}"))
                    continue
                if _singular_exact(b):
                    v.append(("C15/coord_to_fraction/singular-box-accepted", f"op `{op}`: a box with determinant 0 must be refused (LinAlgError)"))
                    continue
                if not np.array_equal(res, a):
                    v.append(("C15/coord_to_fraction/not-inverse-of-fraction_to_coord", f"op `{op}`: {np.asarray(res).tolist()}"))
            elif w[0] == "rpbc":
                dt = DT[w[1]]
                a, b = np_arr(dec_arr(w[2]), dt), _npbox(np, dec_box(w[3]), dt)
                try:
                    res = struc.remove_pbc_from_coord(a, b)
                except Exception as e:  # noqa: BLE001
                    if not _refusal_ok(np, e, singular=_singular_exact(b)):
                        v.append(("C15/remove_pbc_from_coord/rejects-valid-input", f"op `{op}`: {type(e).__name__}: {e}"))
                    continue
                if _singular_exact(b):
                    v.append(("C15/remove_pbc_from_coord/singular-box-accepted", f"op `{op}`: a box with determinant 0 must be refused (LinAlgError)"))
                    continue
                if a.shape[-2] == 0:
                    if np.asarray(res).shape != a.shape:
                        v.append(("C15/remove_pbc/shape", f"op `{op}`: {a.shape} -> {np.asarray(res).shape}"))
                    continue
                ra, rr = a.reshape(-1, a.shape[-2], 3), np.asarray(res).reshape(-1, a.shape[-2], 3)
                for mi in range(len(ra)):
                    bx = _box_exact(b if b.ndim == 2 else b[mi])
                    v += _check_rpbc(_exact(ra[mi]), _exact(rr[mi]), bx, [(i, i + 1) for i in range(len(ra[mi]) - 1)], 0.0, f"op `{op}`",
                                     array_adjacent=True)
            elif w[0] == "dihclass":
                q = dec_arr(w[2])
                b1, b2, b3 = _subF(q[1], q[0]), _subF(q[2], q[1]), _subF(q[3], q[2])
                n1, n2 = _crossF(b1, b2), _crossF(b2, b3)
                # textbook (IUPAC): atan2(|b2| b1.(b2 x b3), (b1 x b2).(b2 x b3)) -- here only what exact arithmetic decides
                ty, tx = _dotF(b1, n2), _dotF(n1, n2)
                want = ("0" if tx > 0 else "pi") if ty == 0 else ("+" if ty > 0 else "-")
                qa = np_arr(q, DT[w[1]])
                got = _dih_class(float(struc.dihedral(qa[0], qa[1], qa[2], qa[3])))
                if got != want:
                    names = {"0": "0 (planar cis)", "pi": "180 degrees (planar trans)", "+": "positive", "-": "negative"}
                    key = {"pi": "planar-trans-is-not-180-degrees", "0": "planar-cis-is-not-0"}.get(want, "wrong-sign")
                    v.append((f"C15/dihedral/{key}", f"op `{op}`: dihedral() gives {names[got]}, the textbook value is {names[want]}"))
            elif w[0] == "rpbcmol":
                a, b = np_arr(dec_arr(w[2]), "float32"), _npbox(np, dec_box(w[3]), "float32")
                mols = [[int(i) for i in mm.split(",")] for mm in w[4].split(";")]
                atoms = _mk_atoms(np, struc, a, b)
                bl = [(mm[i], mm[i + 1], 1) for mm in mols for i in range(len(mm) - 1)]
                atoms.bonds = struc.BondList(len(a), np.array(bl, dtype=np.uint32).reshape(-1, 3))
                sel = None if len(w) < 6 else np.array([c == "1" for c in w[5]], dtype=bool)
                try:
                    res = _forked(lambda: struc.remove_pbc(atoms, sel).coord)
                except ChildCrash as e:
                    v.append(("C15/remove_pbc/crash", f"op `{op}`: {e}"))
                    continue
                except Exception as e:  # noqa: BLE001
                    if not _refusal_ok(np, e, singular=_singular_exact(b)):
                        v.append(("C15/remove_pbc/rejects-valid-input", f"op `{op}`: {type(e).__name__}: {e}"))
                    continue
                bx = _box_exact(b)
                ea, er = _exact(a), _exact(res)
                contiguous = all(mm == list(range(mm[0], mm[0] + len(mm))) for mm in mols)
                if sel is not None:
                    if any(ea[i] != er[i] for i in range(len(ea)) if not sel[i]):
                        v.append(("C15/remove_pbc/unselected-atom-moved", f"op `{op}`"))
                    mols = [[i for i in mm if sel[i]] for mm in mols]
                    mols = [mm for mm in mols if mm]
                for mm in mols:
                    vv = _check_rpbc([ea[i] for i in mm], [er[i] for i in mm], bx, [(k, k + 1) for k in range(len(mm) - 1)], 0.0,
                                     f"op `{op}` molecule {mm}", array_adjacent=False, adj_ok=True)
                    if not contiguous:
                        vv = [(k + "/molecule-not-contiguous-in-array" if k == "C15/remove_pbc/bonded-atoms-not-at-minimum-image" else k, m) for k, m in vv]
                    v += vv
                    det, invc = _inv_exact(bx)
                    cen = [sum(er[i][k] for i in mm) / len(mm) for k in range(3)]
                    if not all(0 <= f < 1 for f in _fracs(cen, invc)):
                        v.append(("C15/remove_pbc/centroid-outside-box", f"op `{op}` molecule {mm}"))
            elif w[0] in ("repeat", "rbox"):
                a, b = np_arr(dec_arr(w[2]), "float64"), _npbox(np, dec_box(w[3]), "float64")
                amount = 1 if w[4] == "-" else int(w[4])
                if amount < 0:
                    if a.shape[-2] == 0:
                        continue                 # nothing to repeat: an empty array stays empty
                    try:
                        struc.repeat_box_coord(a, b, amount)
                        v.append(("C15/repeat_box_coord/negative-amount-accepted", f"op `{op}`"))
                    except ValueError:
                        pass
                    continue
                if w[0] == "repeat":
                    rep, idx = struc.repeat_box_coord(a, b, amount)
                else:
                    rep, idx = struc.repeat_box(_mk_atoms(np, struc, a, b), amount)
                    rep = rep.coord
                n = a.shape[-2]
                want = (2 * amount + 1) ** 3 * n
                if rep.shape[-2] != want or len(idx) != want or rep.shape[:-2] != a.shape[:-2]:
                    v.append((K_REPEAT_AMOUNT if w[0] == "rbox" and amount != 1 and rep.shape[-2] == 27 * n else f"C15/{'repeat_box' if w[0] == 'rbox' else 'repeat_box_coord'}/wrong-number-of-copies",
                              f"op `{op}`: shape {rep.shape}, expected (2*{amount}+1)^3*{n} = {want} coordinates per model"))
                    continue
                models = [(a, rep, b)] if a.ndim == 2 else [(a[i], rep[i], b[i]) for i in range(len(a))]
                for mi, (am_, rm_, bm_) in enumerate(models):
                    bx = _box_exact(bm_)
                    det, invc = _inv_exact(bx)
                    seen = set()
                    ea = _exact(am_)
                    where = f"op `{op}`" + (f" model {mi}" if a.ndim == 3 else "")
                    for j, (y_, i_) in enumerate(zip(_exact(rm_), idx)):
                        if int(i_) != j % n:
                            v.append(("C15/repeat_box/indices", f"{where}: index {j} is {i_}"))
                            break
                        fd = _fracs(_subF(y_, ea[int(i_)]), invc)
                        if not all(f.denominator == 1 and abs(f) <= amount for f in fd):
                            key = K_REPEAT_STACK if a.ndim == 3 else "C15/repeat_box/copy-not-a-lattice-shift-within-amount"
                            v.append((key, f"{where}: copy {j} is atom {int(i_)} of this model shifted by box fractions {[str(f) for f in fd]}"))
                            break
                        seen.add((int(i_), tuple(fd)))
                        if j < n and any(fd):
                            v.append(("C15/repeat_box/original-not-first", where))
                            break
                    else:
                        if len(seen) != want:
                            v.append(("C15/repeat_box/duplicate-or-missing-box", f"{where}: {len(seen)} distinct copies of {want}"))
                            continue
                        continue
                    break
        except Exception:  # noqa: BLE001
            raise          # the harness could not judge the case: reported by the framework as `oracle-error` (a broken tie), never as a failing input
    return v


def _check_disp(d, r, box, tol, where, require_min=None):
    """d: plain difference, r: returned displacement (exact Fractions); tol: absolute tolerance (0 for the exact stream)"""
    v = []
    det, invc = _inv_exact(box)
    fd = _fracs(_subF(r, d), invc)
    ftol = tol * max(1.0 / h for h in _heights(box)) if tol else 0
    if not all(abs(f - round(f)) <= ftol for f in fd):
        v.append(("C15/displacement/not-a-lattice-translate", f"{where}: displacement - difference has fractions {[float(f) for f in fd]}"))
        return v
    l2, s = _min_image(d, box)
    lmin = math.sqrt(float(l2))
    lres = _norm(r)
    orth = all(_dotF(box[i], box[j]) == 0 for i, j in ((0, 1), (0, 2), (1, 2)))
    hmin = min(_heights(box))
    if require_min is None:
        must = orth or (lmin < 0.5 * hmin - 4 * tol - 1e-9 * hmin)
    else:
        must = require_min
    longer = (_dotF(r, r) > l2) if tol == 0 else (lres > lmin + 2 * tol)
    if must and longer:
        key = "C15/displacement/not-the-shortest-image" + ("/orthogonal-box" if orth else "/triclinic-box-below-half-height")
        v.append((key, f"{where}: |displacement| = {lres!r} but image shift {s} has length {lmin!r} (box heights {_heights(box)})"))
    return v


def _check_rpbc(before, after, box, bonds, tol, where, array_adjacent, adj_ok=True):
    v = []
    if len(before) != len(after):
        return [("C15/remove_pbc/shape", f"{where}: {len(before)} -> {len(after)} atoms")]
    det, invc = _inv_exact(box)
    ftol = tol * max(1.0 / h for h in _heights(box)) if tol else 0
    for i, (x, y) in enumerate(zip(before, after)):
        fd = _fracs(_subF(y, x), invc)
        if not all(abs(f - round(f)) <= ftol * (i + 2) for f in fd):
            v.append(("C15/remove_pbc/atom-not-moved-by-lattice-vector", f"{where}: atom {i} moved by fractions {[float(f) for f in fd]}"))
            return v
    orth = all(_dotF(box[i], box[j]) == 0 for i, j in ((0, 1), (0, 2), (1, 2)))
    hmin = min(_heights(box))
    for (i, j) in bonds:
        d = _subF(after[j], after[i])
        l2, s = _min_image(_subF(before[j], before[i]), box)
        lmin = math.sqrt(float(l2))
        unique = orth or lmin < 0.5 * hmin - 4 * tol - 1e-9 * hmin
        if unique and _norm(d) > lmin + 2 * tol * (abs(j - i) + 1) and not (tol == 0 and _dotF(d, d) <= l2):
            if array_adjacent:
                key = "C15/remove_pbc_from_coord/array-neighbours-not-at-minimum-image"
            elif adj_ok:
                key = "C15/remove_pbc/bonded-atoms-not-at-minimum-image"
            else:
                key = K_ARRAY_FAR
            v.append((key, f"{where}: atoms {i},{j} end {_norm(d)!r} apart, minimum image is {lmin!r}"))
            break
    return v


def _fl64(a):
    """numpy array -> list of float64 3-vectors (the float stream is judged in float64)"""
    import numpy as np
    return np.asarray(a, dtype=np.float64).reshape(-1, 3).tolist()


def _box_fl(b):
    return [[float(c) for c in r] for r in b]


# ---- float cases
def DT_NP(dt, x):
    import numpy as np
    return np.dtype(DT[dt]).type(x)


def _npf(a, dt):
    import numpy as np
    return np.array(a, dtype=DT[dt])


def _o_geom(case):
    import numpy as np

    import biotite.structure as struc
    v = []
    dt = case["dt"]
    eps = EPS["f32"]          # `coord()` casts every ndarray to float32, whatever its dtype
    P = [_npf(p, dt) for p in case["pts"]]
    M = max(float(np.abs(p).max()) for p in P) + 1.0

    def measure(Q):
        return (struc.distance(Q[0], Q[1]), struc.angle(Q[0], Q[1], Q[2]), struc.dihedral(Q[0], Q[1], Q[2], Q[3]))

    dist, ang, dih = measure(P)
    flat = [p.reshape(-1, 3) for p in P]
    ex = [_fl64(p.astype(np.float32)) for p in P]
    conds = []
    for i in range(len(flat[0])):
        a, b, c, d = (ex[t][i] for t in range(4))
        dref = _norm(_subF(b, a))
        got = float(np.asarray(dist).reshape(-1)[i])
        tol_d = 8 * eps * (M + dref)
        if abs(got - dref) > tol_d:
            v.append(("C15/distance/differs-from-textbook", f"distance {got!r}, sqrt(sum of squares) = {dref!r} (tol {tol_d:.3g}) for {a} {b}"))
        l1, l2_ = _norm(_subF(b, a)), _norm(_subF(b, c))
        if min(l1, l2_) > 0.05:
            cref = _ref_angle_cos(a, b, c)
            got = float(np.asarray(ang).reshape(-1)[i])
            tol_c = 16 * eps * (1 + M / l1 + M / l2_)
            if math.isnan(got) and abs(abs(cref) - 1) < 1e-6:
                v.append(("C15/angle/nan-for-collinear-atoms", f"angle is NaN for collinear atoms {a} {b} {c}"))
            elif not (abs(math.cos(got) - cref) <= tol_c and 0 <= got <= math.pi + 4 * eps):      # float32(pi) > pi
                v.append(("C15/angle/differs-from-textbook", f"angle {got!r} (cos {math.cos(got)!r}), textbook cos = {cref!r} (tol {tol_c:.3g})"))
        l3 = _norm(_subF(d, c))
        href, (s1, s2) = _ref_dihedral(a, b, c, d)
        ok_cond = min(l1, _norm(_subF(c, b)), l3) > 0.05 and min(s1, s2) > 0.05
        conds.append((ok_cond, min(l1, _norm(_subF(c, b)), l3) if ok_cond else 1, min(s1, s2) if ok_cond else 1))
        if ok_cond:
            got = float(np.asarray(dih).reshape(-1)[i])
            tol_h = 64 * eps * (1 + M / min(l1, _norm(_subF(c, b)), l3)) / min(s1, s2) ** 2
            if _angdiff(got, href) > tol_h:
                v.append(("C15/dihedral/differs-from-textbook", f"dihedral {got!r}, textbook atan2 = {href!r} (tol {tol_h:.3g})"))
    # index variants == coordinate variants (bitwise)
    n = P[0].shape[-2]
    allc = np.concatenate(P, axis=-2)
    idx = np.stack([np.arange(n) + t * n for t in range(4)], axis=1)
    for name, fn, ifn, k in (("distance", struc.distance, struc.index_distance, 2), ("angle", struc.angle, struc.index_angle, 3),
                             ("dihedral", struc.dihedral, struc.index_dihedral, 4), ("displacement", struc.displacement, struc.index_displacement, 2)):
        r1 = ifn(allc, idx[:, :k])
        r2 = fn(*P[:k])
        if np.shape(r1) != np.shape(r2) or not np.array_equal(r1, r2, equal_nan=True):
            v.append((f"C15/index_{name}/differs-from-coordinate-variant", f"{np.asarray(r1).tolist()} vs {np.asarray(r2).tolist()}"))
    # a mirror image (improper orthogonal map): distances and angles stay, every dihedral changes its sign
    Pm = [p * np.array([-1, 1, 1], dtype=p.dtype) for p in P]
    dist_m, ang_m, dih_m = measure(Pm)
    for i in range(len(flat[0])):
        if abs(float(np.asarray(dist).reshape(-1)[i]) - float(np.asarray(dist_m).reshape(-1)[i])) > 8 * eps * M:
            v.append(("C15/distance/changes-under-reflection", f"{np.asarray(dist).reshape(-1)[i]!r} -> {np.asarray(dist_m).reshape(-1)[i]!r}"))
        ok_cond, lmin, smin = conds[i]
        if ok_cond:
            h1, h2 = float(np.asarray(dih).reshape(-1)[i]), float(np.asarray(dih_m).reshape(-1)[i])
            if _angdiff(h1, -h2) > 192 * eps * (1 + M / lmin) / smin ** 2:
                v.append(("C15/dihedral/not-negated-by-a-reflection", f"{h1!r} -> {h2!r}"))
    # rigid motion
    motion = case["motion"]
    mp = case["mparams"]
    if motion == "quat":
        R = [[Fr(x) for x in row] for row in case["quat"]]
        t = [Fr(x) for x in case["trans"]]
        Q = []
        for p in P:
            moved = [[float(_dotF(R[r_], x) + t[r_]) for r_ in range(3)] for x in _fl64(p)]
            Q.append(np.array(moved, dtype=DT[dt]).reshape(p.shape))
    else:
        allp = np.concatenate(P, axis=-2)
        if motion == "rotate":
            moved = struc.rotate(allp, mp[:3])
        elif motion == "rotate_centered":
            moved = struc.rotate_centered(allp, mp[:3])
        elif motion == "rotate_about_axis":
            moved = struc.rotate_about_axis(allp, [mp[0], mp[1], mp[2] + 4.0], mp[3], support=[mp[4], mp[5], 1.0])
        elif motion == "align_vectors":
            # the formula divides by (1 + cos a): keep the two directions away from anti-parallel (float32 conditioning)
            od, td = [mp[0], mp[1], mp[2] + 4.0], [mp[3], mp[4] + 4.0, mp[5]]
            if sum(x * y for x, y in zip(od, td)) < 0:
                td = [-x for x in td]
            moved = struc.align_vectors(allp, od, td, origin_position=[1.0, mp[0], 2.0], target_position=[mp[1], -3.0, mp[2]])
        else:
            moved = struc.translate(allp, [mp[0] * 10, mp[1] * 10, mp[2] * 10])
        moved = np.asarray(moved)
        Q = [moved[..., t_ * n:(t_ + 1) * n, :] for t_ in range(4)]
    # transforms on float32 input work in float32 or float64; judge with the input dtype's eps, larger magnitude
    M2 = max(M, max(float(np.abs(q).max()) for q in Q) + 1.0)
    dist2, ang2, dih2 = measure(Q)
    for i in range(len(flat[0])):
        d1, d2 = float(np.asarray(dist).reshape(-1)[i]), float(np.asarray(dist2).reshape(-1)[i])
        tol_d = 24 * eps * (M2 + d1)
        if abs(d1 - d2) > tol_d:
            v.append((f"C15/distance/not-invariant-under-{motion}", f"{d1!r} -> {d2!r} (tol {tol_d:.3g})"))
        a, b, c, d = (ex[t][i] for t in range(4))
        l1, l2_, l3 = _norm(_subF(b, a)), _norm(_subF(b, c)), _norm(_subF(d, c))
        if min(l1, l2_) > 0.05:
            a1, a2 = float(np.asarray(ang).reshape(-1)[i]), float(np.asarray(ang2).reshape(-1)[i])
            tol_c = 48 * eps * (1 + M2 / l1 + M2 / l2_)
            if abs(math.cos(a1) - math.cos(a2)) > tol_c:
                v.append((f"C15/angle/not-invariant-under-{motion}", f"{a1!r} -> {a2!r} (tol on cos {tol_c:.3g})"))
        ok_cond, lmin, smin = conds[i]
        if ok_cond:
            h1, h2 = float(np.asarray(dih).reshape(-1)[i]), float(np.asarray(dih2).reshape(-1)[i])
            tol_h = 192 * eps * (1 + M2 / lmin) / smin ** 2
            if _angdiff(h1, h2) > tol_h:
                v.append((f"C15/dihedral/not-invariant-under-{motion}", f"{h1!r} -> {h2!r} (tol {tol_h:.3g})"))
    return v


def _o_index(case):
    """index_xxx(atoms, indices, periodic, box) == xxx(gathered coordinates, box selected by the documented rule):
    periodic=False -> no box; explicit `box` overrides the `box` attribute of the atoms; attribute used otherwise;
    plain coordinates with periodic=True and no box are rejected."""
    import numpy as np

    import biotite.structure as struc
    v = []
    c = np.array(case["coord"], dtype=np.float32)
    own = None if case["own"] is None else np.array(case["own"], dtype=np.float32)
    exp = None if case["explicit"] is None else np.array(case["explicit"], dtype=np.float32)
    is_obj = case["atoms"] == "object"
    atoms = _mk_atoms(np, struc, c, own) if is_obj else c
    if not is_obj:
        own = None
    periodic = case["periodic"]
    eff = None if not periodic else (exp if exp is not None else own)
    idx = np.array(case["idx"], dtype=int)
    for name, ifn, fn, k in (("displacement", struc.index_displacement, struc.displacement, 2), ("distance", struc.index_distance, struc.distance, 2),
                             ("angle", struc.index_angle, struc.angle, 3), ("dihedral", struc.index_dihedral, struc.dihedral, 4)):
        sub = idx[:, :k]
        try:
            got = ifn(atoms, sub, periodic=periodic, box=exp)
        except ValueError as e:
            if periodic and exp is None and not is_obj:
                continue        # documented rejection
            v.append((f"C15/index_{name}/rejected-although-coordinate-variant-accepts", f"{type(e).__name__}: {e}"))
            continue
        if periodic and exp is None and not is_obj:
            v.append((f"C15/index_{name}/periodic-without-box-accepted", "plain coordinates, periodic=True, no box"))
            continue
        ref = fn(*[c[..., sub[:, j], :] for j in range(k)], box=eff)
        if np.shape(got) != np.shape(ref) or not np.array_equal(got, ref, equal_nan=True):
            which = "explicit-box-vs-own-box" if (is_obj and exp is not None and own is not None) else "differs-from-coordinate-variant"
            v.append((f"C15/index_{name}/{which}",
                      f"periodic={periodic}, atoms carry {'a box' if own is not None else 'no box'}, explicit box {'given' if exp is not None else 'not given'}: "
                      f"{np.asarray(got).reshape(-1)[:4].tolist()} vs {name}(coords, documented box) {np.asarray(ref).reshape(-1)[:4].tolist()}"))
    return v


def _o_seq(case):
    """Functions of (coordinates, box) must be PURE: the result depends on the VALUES of the arguments only.
    The same box array object is changed in place between calls (scaled, vectors swapped, skewed) and every result
    must be bit-identical to the one obtained with fresh copies; arguments stay untouched, repeated calls agree,
    results do not alias the inputs."""
    import numpy as np

    import biotite.structure as struc
    v = []
    dt = DT[case["dt"]]
    fn = case["fn"]
    c0 = np.array(case["coord"], dtype=dt)
    n = len(c0)
    idx2 = np.array([[i, (i + 1) % n] for i in range(n)])
    idx4 = np.array([[i % n, (i + 1) % n, (i + 2) % n, (i + 3) % n] for i in range(n)]) if n >= 4 else None
    if fn == "index_dihedral" and idx4 is None:
        fn = "index_distance"

    def call(coord, box):
        if fn == "coord_to_fraction":
            return struc.coord_to_fraction(coord, box)
        if fn == "fraction_to_coord":
            return struc.fraction_to_coord(coord * 0.01, box)
        if fn == "move_inside_box":
            return struc.move_inside_box(coord, box)
        if fn == "displacement":
            return struc.displacement(coord[:-1], coord[1:], box)
        if fn == "distance":
            return struc.distance(coord[0], coord[1:], box)
        if fn == "index_distance":
            return struc.index_distance(coord, idx2, periodic=True, box=box)
        if fn == "index_dihedral":
            return struc.index_dihedral(coord, idx4, periodic=True, box=box)
        if fn == "remove_pbc_from_coord":
            return struc.remove_pbc_from_coord(coord, box)
        if fn == "repeat_box_coord":
            return struc.repeat_box_coord(coord, box)[0]
        if persistent and box is persistent[0].box:
            atoms = persistent[0]           # the SAME AtomArray, whose box attribute is changed in place (`atoms.box *= s`)
            atoms.coord = coord
        else:
            atoms = make_atoms(coord, box)
        return struc.remove_pbc(atoms).coord

    def make_atoms(coord, box):
        atoms = struc.AtomArray(n)
        atoms.coord = coord
        atoms.box = box
        atoms.bonds = struc.BondList(n, np.array([[a_, b_, 1] for a_, b_ in case["bonds"]], dtype=np.uint32).reshape(-1, 3))
        return atoms

    def mutate(box, how):
        if how == "scale":
            box *= case["scale"]
        elif how == "swap":
            box[[0, 1]] = box[[1, 0]]
        elif how == "skew":
            box[2] += 0.25 * box[0]
        else:
            box[1] = -box[1]

    persistent = []
    box = np.array(case["box"], dtype=dt)           # THE box object of this history
    if fn == "remove_pbc":
        persistent.append(make_atoms(c0.copy(), box))
        box = persistent[0].box                     # the array object stored in the AtomArray
    history = ["initial"] + list(case["mutations"])
    # first pass: ONLY calls with the one box object (any call with another box in between would hide a stale cache)
    seen = []
    for step, how in enumerate(history):
        if step:
            mutate(box, how)
        coord = c0.copy()
        cb, bb = coord.copy(), box.copy()
        with np.errstate(all="ignore"):
            got = np.asarray(call(coord, box))
        if not (np.array_equal(coord, cb) and np.array_equal(box, bb)):
            return [(f"C15/{fn}/modifies-its-arguments", f"{case['boxkind']} box, step {step} ({how})")]
        if np.shares_memory(got, coord) or np.shares_memory(got, box):
            return [(f"C15/{fn}/result-aliases-an-argument", f"{case['boxkind']} box, step {step} ({how})")]
        with np.errstate(all="ignore"):
            again = np.asarray(call(coord, box))
        if not np.array_equal(got, again, equal_nan=True):
            return [(f"C15/{fn}/repeated-call-differs", f"{case['boxkind']} box, step {step} ({how})")]
        seen.append((got.copy(), bb))
    # second pass: the same values in fresh arrays
    for step, (got, bb) in enumerate(seen):
        with np.errstate(all="ignore"):
            fresh = np.asarray(call(c0.copy(), bb.copy()))
        if got.shape != fresh.shape or not np.array_equal(got, fresh, equal_nan=True):
            dev = float(np.nanmax(np.abs(got.astype(float) - fresh.astype(float)))) if got.shape == fresh.shape else float("nan")
            v.append((f"C15/{fn}/stale-result-after-in-place-change-of-box",
                      f"{case['boxkind']} box changed in place ({' -> '.join(history[:step + 1])}): the result with the SAME array object differs "
                      f"from the result with a fresh copy of equal values by up to {dev:.4g}"))
            break
    return v


# ---- hardening streams: everything below is derived from the case seed ------------------------------------------
def _rand_system(r, n=None, stack=False):
    """(coords float32 (n,3) or (m,n,3), box float32, bonds) — a compact molecule near a random place of a random box"""
    import numpy as np
    kind, box = _float_box(r)
    n = n or r.choice([4, 6, 9])
    coords, bonds = _molecule(r, n)
    centre = [sum(r.uniform(-1, 2) * box[r_][i] for r_ in range(3)) for i in range(3)]
    c = np.array([[x[k] + centre[k] for k in range(3)] for x in coords], dtype=np.float32)
    if stack:
        c = np.stack([c, c[::-1].copy() + np.float32(0.5), c * np.float32(1.01)])
    return c, np.array(box, dtype=np.float32), bonds


def _atoms_with(np, struc, coord, box, bonds):
    atoms = _mk_atoms(np, struc, coord, box)
    n = coord.shape[-2]
    atoms.bonds = struc.BondList(n, np.array([[a_, b_, 1] for a_, b_ in bonds], dtype=np.uint32).reshape(-1, 3))
    return atoms


def _same(np, x, y, tol=0.0):
    x, y = np.asarray(x), np.asarray(y)
    if x.shape != y.shape:
        return False
    if tol == 0.0:
        return bool(np.array_equal(x, y, equal_nan=True))
    return bool(np.allclose(x.astype(float), y.astype(float), rtol=tol, atol=tol, equal_nan=True))


def _o_state(case):
    """ONE AtomArray / AtomArrayStack object is reused: read, change in place (coordinates, box, bonds, another size),
    read again; every read must equal the read on a FRESH object built from the same content."""
    import random as _random

    import numpy as np

    import biotite.structure as struc
    r = _random.Random(case["seed"])
    stack = r.random() < 0.4
    coord, box, bonds = _rand_system(r, stack=stack)
    n = coord.shape[-2]
    atoms = _atoms_with(np, struc, coord.copy(), box.copy(), bonds)
    idx = np.array([[i, (i + 1) % n, (i + 2) % n, (i + 3) % n] for i in range(n)])
    reads = {
        "remove_pbc": lambda a: struc.remove_pbc(a).coord,
        "index_distance(periodic)": lambda a: struc.index_distance(a, idx[:, :2], periodic=True),
        "index_dihedral(periodic)": lambda a: struc.index_dihedral(a, idx, periodic=True),
        "repeat_box": lambda a: struc.repeat_box(a)[0].coord,
        "move_inside_box": lambda a: struc.move_inside_box(a.coord, a.box),
        "centroid": lambda a: struc.centroid(a),
        "coord_to_fraction": lambda a: struc.coord_to_fraction(a.coord, a.box),
        "distance(box)": lambda a: struc.distance(a.coord[..., 0, :], a.coord[..., 1, :], a.box) if not stack else struc.distance(a[0].coord[0], a[0].coord[1], a.box[0]),
    }
    changes = ["coord-in-place", "box-scale-in-place", "box-skew-in-place", "bond-added", "bond-removed", "coord-assigned", "smaller"]
    history = ["initial"]
    for step in range(r.choice([2, 3, 4])):
        if step:
            how = r.choice(changes)
            history.append(how)
            if how == "coord-in-place":
                atoms.coord += np.float32(r.uniform(-30, 30))
            elif how == "coord-assigned":
                atoms.coord = (atoms.coord[..., ::-1, :] * np.float32(0.9)).copy()
            elif how == "box-scale-in-place":
                atoms.box *= np.float32(r.choice([0.5, 1.5, 2.0]))
            elif how == "box-skew-in-place":
                atoms.box[..., 2, :] += np.float32(0.3) * atoms.box[..., 0, :]
            elif how == "bond-added":
                i, j = r.sample(range(atoms.array_length()), 2)
                atoms.bonds.add_bond(i, j, 1)
            elif how == "bond-removed":
                ba = atoms.bonds.as_array()
                if len(ba):
                    k = r.randrange(len(ba))
                    atoms.bonds.remove_bond(int(ba[k][0]), int(ba[k][1]))
            else:
                if atoms.array_length() > 4:
                    atoms = atoms[..., : atoms.array_length() - 1]      # another size
                    n = atoms.array_length()
                    idx = np.array([[i, (i + 1) % n, (i + 2) % n, (i + 3) % n] for i in range(n)])
        names = r.sample(sorted(reads), 3)
        for name in names:
            fresh = _atoms_with(np, struc, atoms.coord.copy(), atoms.box.copy(), [(int(a_), int(b_)) for a_, b_, _ in atoms.bonds.as_array()])
            with np.errstate(all="ignore"):
                got = np.asarray(reads[name](atoms))
                want = np.asarray(reads[name](fresh))
            if not _same(np, got, want):
                return [(f"C15/{name.split('(')[0]}/reused-object-differs-from-fresh-object",
                         f"{'stack' if stack else 'array'}, history {' -> '.join(history)}: {name} on the reused object differs from a fresh object of equal content")]
    return []


def _o_collinear(case):
    """exactly collinear atoms (linear molecules on idealised coordinates): the angle is 0 or 180 degrees, never NaN"""
    import random as _random

    import numpy as np

    import biotite.structure as struc
    r = _random.Random(case["seed"])
    v = []
    for _ in range(40):
        a = np.array([r.randint(-40, 40) / r.choice([1, 2, 4]) for _ in range(3)], dtype=np.float32)
        d = np.array([r.randint(-6, 6) for _ in range(3)], dtype=np.float32)
        if not d.any():
            continue
        k1, k2 = r.randint(1, 5), r.randint(1, 5)
        for label, p1, p3, want in (("180", a - k1 * d, a + k2 * d, math.pi), ("0", a + k1 * d, a + k2 * d, 0.0)):
            got = float(struc.angle(p1, a, p3))
            if math.isnan(got):
                v.append(("C15/angle/nan-for-collinear-atoms", f"angle({p1.tolist()}, {a.tolist()}, {p3.tolist()}) is NaN, the atoms lie on one line ({label} degrees)"))
            elif abs(got - want) > 1e-3:
                v.append(("C15/angle/differs-from-textbook", f"angle({p1.tolist()}, {a.tolist()}, {p3.tolist()}) = {got!r}, collinear atoms: {label} degrees"))
            at = _mk_atoms(np, struc, np.stack([p1, a, p3]), None)
            got2 = float(struc.index_angle(at, np.array([[0, 1, 2]]))[0])
            if not (got2 == got or (math.isnan(got) and math.isnan(got2))):
                v.append(("C15/index_angle/differs-from-coordinate-variant", f"{got2!r} vs {got!r}"))
        if len(v) > 3:
            break
        # a dihedral over collinear atoms is not defined: any number (or NaN) is acceptable, an exception is not
        try:
            with np.errstate(all="ignore"):
                struc.dihedral(a - k1 * d, a, a + k2 * d, a + np.float32(1.5))
                struc.angle(a, a, a + d)               # coinciding atoms: NaN
        except Exception as e:  # noqa: BLE001
            v.append(("C15/dihedral/raises-for-degenerate-geometry", f"{type(e).__name__}: {e}"))
            break
    return v


def _o_alias(case):
    """Objects a function returns share no mutable state with its arguments: editing the result in place (the usual
    `supercell.box *= 3`, `moved.coord += ...`) leaves the input untouched and vice versa."""
    import random as _random

    import numpy as np

    import biotite.structure as struc
    r = _random.Random(case["seed"])
    stack = r.random() < 0.4
    coord, box, bonds = _rand_system(r, stack=stack)
    n = coord.shape[-2]
    idx = np.array([[i, (i + 1) % n] for i in range(n)])
    makers = [
        ("repeat_box", lambda a: struc.repeat_box(a, r.choice([1, 1, 0]))[0]),
        ("remove_pbc", lambda a: struc.remove_pbc(a)),
        ("translate", lambda a: struc.translate(a, [1.0, 2.0, 3.0])),
        ("rotate", lambda a: struc.rotate(a, [0.3, 0.2, 0.1])),
        ("rotate_centered", lambda a: struc.rotate_centered(a, [0.3, 0.2, 0.1])),
        ("rotate_about_axis", lambda a: struc.rotate_about_axis(a, [1, 2, 3], 0.5)),
        ("align_vectors", lambda a: struc.align_vectors(a, [1, 0, 0], [0, 1, 1])),
    ]
    if not stack:
        makers.append(("orient_principal_components", lambda a: struc.orient_principal_components(a)))
    reads = [("index_distance(periodic)", lambda a: struc.index_distance(a, idx, periodic=True)),
             ("move_inside_box", lambda a: struc.move_inside_box(a.coord, a.box)),
             ("remove_pbc", lambda a: struc.remove_pbc(a).coord)]
    v = []
    for name, make in r.sample(makers, 3):
        atoms = _atoms_with(np, struc, coord.copy(), box.copy(), bonds)
        atoms.set_annotation("charge", np.arange(n))
        with np.errstate(all="ignore"):
            out = make(atoms)
        pairs = [("coord", out.coord, atoms.coord), ("box", out.box, atoms.box), ("charge", out.charge, atoms.charge)]
        shared = [lab for lab, x, y in pairs if x is not None and y is not None and np.shares_memory(x, y)]
        if shared:
            v.append((f"C15/{name}/result-shares-{shared[0]}-with-its-argument", f"{'stack' if stack else 'array'}: np.shares_memory(result.{shared[0]}, atoms.{shared[0]})"))
            continue
        # behaviour: edit one side in place, the other side must read as before
        for side in ("result", "argument"):
            a2 = _atoms_with(np, struc, coord.copy(), box.copy(), bonds)
            with np.errstate(all="ignore"):
                o2 = make(a2)
                rname, read = r.choice(reads)
                edited, other = (o2, a2) if side == "result" else (a2, o2)
                if other.array_length() != n:
                    rname, read = "move_inside_box", reads[1][1]
                before = np.asarray(read(other))
                snap = (other.coord.copy(), other.box.copy())
                edited.box *= np.float32(3)
                edited.coord += np.float32(7)
                if edited.bonds is not None and edited.bonds.get_bond_count():
                    b0 = edited.bonds.as_array()[0]
                    edited.bonds.remove_bond(int(b0[0]), int(b0[1]))
                after = np.asarray(read(other))
            if not (np.array_equal(other.coord, snap[0]) and np.array_equal(other.box, snap[1])) or not _same(np, before, after):
                what = "box" if not np.array_equal(other.box, snap[1]) else "coord" if not np.array_equal(other.coord, snap[0]) else "bonds"
                v.append((f"C15/{name}/in-place-edit-of-the-{side}-changes-the-other-object",
                          f"{'stack' if stack else 'array'}: after `{side}.box *= 3; {side}.coord += 7` the {what} of the "
                          f"{'argument' if side == 'result' else 'result'} changed ({rname} reads differently)"))
                break
    return v


def _o_refuse(case):
    """A refused call changes nothing: after every exception the arguments equal their snapshots and the next valid
    call gives the result of a fresh call."""
    import random as _random

    import numpy as np

    import biotite.structure as struc
    r = _random.Random(case["seed"])
    stack = r.random() < 0.3
    coord, box, bonds = _rand_system(r, stack=stack)
    n = coord.shape[-2]
    atoms = _atoms_with(np, struc, coord.copy(), box.copy(), bonds)
    nobox = _atoms_with(np, struc, coord.copy(), None, bonds)
    sing = box.copy()
    sing[..., 2, :] = 0          # exactly singular also in floating point: LAPACK meets a zero pivot
    idx = np.array([[0, 1], [1, 2]])
    bad_idx = np.array([[0, n + r.choice([0, 1, 5])], [1, 2]])
    c2 = coord if not stack else coord[0]
    refused = [
        ("displacement/singular-box", (np.linalg.LinAlgError,), lambda: struc.displacement(coord, coord[..., ::-1, :], sing)),
        ("move_inside_box/singular-box", (np.linalg.LinAlgError,), lambda: struc.move_inside_box(coord, sing)),
        ("coord_to_fraction/singular-box", (np.linalg.LinAlgError,), lambda: struc.coord_to_fraction(coord, sing)),
        ("index_distance/index-out-of-range", (IndexError,), lambda: struc.index_distance(atoms, bad_idx, periodic=True)),
        ("index_angle/wrong-width", (ValueError,), lambda: struc.index_angle(atoms, idx)),
        ("index_dihedral/periodic-without-box", (ValueError,), lambda: struc.index_dihedral(coord, np.array([[0, 1, 2, 3]]), periodic=True)),
        ("displacement/shape-mismatch", (ValueError,), lambda: struc.displacement(c2[:2], c2[:3], box)),
        ("repeat_box/no-box", (struc.BadStructureError,), lambda: struc.repeat_box(nobox)),
        ("remove_pbc/no-box", (struc.BadStructureError,), lambda: struc.remove_pbc(nobox)),
        ("repeat_box_coord/non-integer-amount", (TypeError,), lambda: struc.repeat_box_coord(coord, box, 1.5)),
        ("align_vectors/antiparallel", (ValueError,), lambda: struc.align_vectors(atoms, [1, 2, 2], [-2, -4, -4])),
        ("align_vectors/zero-vector", (ValueError,), lambda: struc.align_vectors(atoms, [0, 0, 0], [1, 0, 0])),
        ("rotate_about_axis/zero-axis", (ValueError,), lambda: struc.rotate_about_axis(atoms, [0, 0, 0], 1.0)),
        ("rotate/two-angles", (ValueError,), lambda: struc.rotate(atoms, [0.1, 0.2])),
        ("translate/wrong-vector", (ValueError,), lambda: struc.translate(atoms, [1.0, 2.0])),
        ("orient_principal_components/bad-order", (ValueError,), lambda: struc.orient_principal_components(c2, order=(0, 0, 1))),
        ("orient_principal_components/too-few-atoms", (ValueError,), lambda: struc.orient_principal_components(c2[:2])),
    ]
    valid = [
        ("remove_pbc", lambda a, c, b: struc.remove_pbc(a).coord),
        ("index_distance", lambda a, c, b: struc.index_distance(a, idx, periodic=True)),
        ("displacement", lambda a, c, b: struc.displacement(c, c[..., ::-1, :], b)),
        ("move_inside_box", lambda a, c, b: struc.move_inside_box(c, b)),
        ("rotate_about_axis", lambda a, c, b: struc.rotate_about_axis(a, [1, 2, 3], 0.7).coord),
        ("repeat_box", lambda a, c, b: struc.repeat_box(a)[0].coord),
    ]
    v = []
    for name, excs, call in r.sample(refused, 5):
        snaps = [x.copy() for x in (coord, box, sing, atoms.coord, atoms.box, nobox.coord, bad_idx, idx)]
        bonds_snap = atoms.bonds.as_array().copy()
        try:
            with np.errstate(all="ignore"):
                call()
            v.append((f"C15/{name}/accepted", "the call is documented to be rejected but returned a result"))
            continue
        except excs:
            pass
        except Exception as e:  # noqa: BLE001
            v.append((f"C15/{name}/unexpected-exception", f"{type(e).__name__}: {e}"))
            continue
        now = (coord, box, sing, atoms.coord, atoms.box, nobox.coord, bad_idx, idx)
        if not all(np.array_equal(x, y) for x, y in zip(snaps, now)) or not np.array_equal(bonds_snap, atoms.bonds.as_array()):
            v.append((f"C15/{name}/refused-call-changed-its-arguments", "an argument differs from its snapshot after the exception"))
            continue
        vname, vcall = r.choice(valid)
        fresh = _atoms_with(np, struc, coord.copy(), box.copy(), bonds)
        with np.errstate(all="ignore"):
            got, want = np.asarray(vcall(atoms, coord, box)), np.asarray(vcall(fresh, coord.copy(), box.copy()))
        if not _same(np, got, want):
            v.append((f"C15/{name}/next-valid-call-differs-after-refusal", f"{vname} after the refused call differs from a fresh call"))
    return v


def _o_spell(case):
    """The same values in another spelling (memory layout, byte order, read-only, list / tuple, float64 copies of
    float32 values, NumPy scalars of several widths, integer dtypes of index arrays) give the same result."""
    import random as _random

    import numpy as np

    import biotite.structure as struc
    r = _random.Random(case["seed"])
    stack = r.random() < 0.3
    coord, box, bonds = _rand_system(r, stack=stack)
    n = coord.shape[-2]
    c2 = coord if not stack else coord[0]
    b2 = box
    idx = np.array([[i, (i + 1) % n, (i + 2) % n, (i + 3) % n] for i in range(n)] + [[-1, 0, 1, 2]])

    def arr_spellings(a, lists=True):
        a = np.asarray(a)
        big = np.zeros(tuple(2 * d for d in a.shape), dtype=a.dtype)
        sl = tuple(slice(None, None, 2) for _ in a.shape)
        big[sl] = a
        ro = a.copy()
        ro.setflags(write=False)
        out = {"fortran-order": np.asfortranarray(a), "strided-view": big[sl], "read-only": ro,
               "byte-swapped": a.astype(a.dtype.newbyteorder(">")), "float64": a.astype(np.float64) if a.dtype.kind == "f" else a.astype(np.int64)}
        if lists:
            out["list"] = a.tolist()
            out["tuple"] = tuple(map(tuple, a.tolist())) if a.ndim == 2 else a.tolist()
        return out
    amount = case.get("amount", r.choice([0, 1, 2]))
    ang = float(np.float32(r.uniform(-3, 3)))
    rev = coord[..., ::-1, :].copy()
    fns = [
        ("displacement", True, lambda c, b, i: struc.displacement(c, rev, b)),
        ("distance", True, lambda c, b, i: struc.distance(rev, c, b)),
        ("move_inside_box", False, lambda c, b, i: struc.move_inside_box(np.asarray(c), b)),
        ("coord_to_fraction", False, lambda c, b, i: struc.coord_to_fraction(np.asarray(c), b)),
        ("remove_pbc_from_coord", False, lambda c, b, i: struc.remove_pbc_from_coord(np.asarray(c), b)),
        ("index_distance", False, lambda c, b, i: struc.index_distance(c, i[:, :2], periodic=True, box=b)),
        ("index_angle", False, lambda c, b, i: struc.index_angle(c, i[:, :3], periodic=True, box=b)),
        ("index_dihedral", False, lambda c, b, i: struc.index_dihedral(c, i, periodic=True, box=b)),
        ("is_orthogonal", False, lambda c, b, i: struc.is_orthogonal(b)),
        ("box_volume", False, lambda c, b, i: struc.box_volume(b)),
        ("unitcell_from_vectors", False, lambda c, b, i: np.array(struc.unitcell_from_vectors(b), dtype=float)),
        ("centroid", True, lambda c, b, i: struc.centroid(c)),
        ("translate", True, lambda c, b, i: struc.translate(c, [1.5, -2.0, 0.25])),
        ("rotate_about_axis", True, lambda c, b, i: struc.rotate_about_axis(c, [1, 2, 3], ang)),
    ]
    v = []
    tol = 2e-5          # layouts may change the summation order of BLAS by an ulp; float64 copies run in double precision
    for name, lists_ok, fn in r.sample(fns, 5):
        use_c, use_b = (c2, b2) if name in ("unitcell_from_vectors",) else (coord, box)
        if name in ("index_distance", "index_angle", "index_dihedral", "remove_pbc_from_coord") and stack:
            pass
        with np.errstate(all="ignore"):
            base = np.asarray(fn(use_c, use_b, idx))
        which = r.choice(["coord", "box", "idx"]) if name.startswith("index_") else r.choice(["coord", "box"])
        if name in ("is_orthogonal", "box_volume", "unitcell_from_vectors"):
            which = "box"
        if name in ("centroid", "translate", "rotate_about_axis"):
            which = "coord"
        if which == "coord":
            sp = arr_spellings(use_c, lists=lists_ok and not stack)
        elif which == "box":
            sp = arr_spellings(use_b, lists=False)
        else:
            sp = {f"indices-{d}": idx.astype(d) for d in ("int8", "int16", "int32", "int64")}
            sp["indices-fortran"] = np.asfortranarray(idx)
            sp["indices-read-only"] = idx.copy()
            sp["indices-read-only"].setflags(write=False)
            pos = np.where(idx < 0, idx + n, idx)
            sp["indices-non-negative-uint8"] = pos.astype(np.uint8)
        if name == "is_orthogonal":
            sp.pop("float64", None)      # a threshold test: double precision dot products may fall on the other side of 1e-6
        label, alt = r.choice(sorted(sp.items(), key=lambda kv: kv[0]))
        try:
            with np.errstate(all="ignore"):
                if which == "coord":
                    got = np.asarray(fn(alt, use_b, idx))
                elif which == "box":
                    got = np.asarray(fn(use_c, alt, idx))
                else:
                    got = np.asarray(fn(use_c, use_b, alt))
        except Exception as e:  # noqa: BLE001
            v.append((f"C15/{name}/rejects-{which}-as-{label}", f"{type(e).__name__}: {e}"))
            continue
        if not _same(np, got, base, tol):
            v.append((f"C15/{name}/result-depends-on-spelling-of-{which}", f"{which} as {label}: {np.asarray(got).reshape(-1)[:4].tolist()} vs {np.asarray(base).reshape(-1)[:4].tolist()}"))
    # scalar spellings: `amount`
    with np.errstate(all="ignore"):
        base = struc.repeat_box_coord(c2, b2, amount)[0]
        for sc in (np.int8(amount), np.int16(amount), np.int64(amount), np.uint8(amount), np.uint64(amount)):
            try:
                got = struc.repeat_box_coord(c2, b2, sc)[0]
                at = _atoms_with(np, struc, c2.copy(), (b2).copy(), bonds)
                got2 = struc.repeat_box(at, sc)[0].coord
            except Exception as e:  # noqa: BLE001
                v.append((f"C15/repeat_box/rejects-amount-as-{type(sc).__name__}", f"{type(e).__name__}: {e}"))
                continue
            if not (_same(np, got, base) and _same(np, got2, base)):
                v.append((f"C15/repeat_box/result-depends-on-spelling-of-amount", f"amount = {amount} as {type(sc).__name__}: {len(got)} / {len(got2)} coordinates, {len(base)} with a Python int"))
        # angle as NumPy scalars (the value is a float32 number, so every spelling denotes the same angle)
        base = struc.rotate_about_axis(c2, [1, 2, 3], ang)
        for sc in (np.float32(ang), np.float64(ang)):
            got = struc.rotate_about_axis(c2, np.array([1, 2, 3], dtype=np.int64), sc)
            if not _same(np, got, base, 1e-4):
                v.append(("C15/rotate_about_axis/result-depends-on-spelling-of-angle", f"angle as {type(sc).__name__}"))
        base = struc.rotate(c2, [ang, 0.5, -1.0])
        got = struc.rotate(c2, np.array([ang, 0.5, -1.0], dtype=np.float32))
        if not _same(np, got, base, 1e-4):
            v.append(("C15/rotate/result-depends-on-spelling-of-angles", "angles as float32 array"))
    return v


_CCD_DONE = []


def _install_ccd():
    """dihedral_backbone() needs the component dictionary (amino acid names): a minimal one lives in fixtures/C15
    (rebuilt deterministically if absent) and is installed through the public `info.set_ccd_path()`."""
    if _CCD_DONE:
        return
    import numpy as np

    import biotite.structure.info as info
    import biotite.structure.io.pdbx as pdbx
    from common import paths
    path = os.path.join(paths.FIXTURES, "C15", "components.bcif")
    if not os.path.exists(path):
        three = sorted(["ALA", "ARG", "ASN", "ASP", "CYS", "GLN", "GLU", "GLY", "HIS", "ILE", "LEU", "LYS", "MET", "PHE", "PRO", "SER", "THR", "TRP", "TYR", "VAL"])
        one = {"ALA": "A", "ARG": "R", "ASN": "N", "ASP": "D", "CYS": "C", "GLN": "Q", "GLU": "E", "GLY": "G", "HIS": "H", "ILE": "I", "LEU": "L",
               "LYS": "K", "MET": "M", "PHE": "F", "PRO": "P", "SER": "S", "THR": "T", "TRP": "W", "TYR": "Y", "VAL": "V"}
        ids = sorted(three + ["HOH"])
        file = pdbx.BinaryCIFFile()
        file["components"] = pdbx.BinaryCIFBlock({"chem_comp": pdbx.BinaryCIFCategory({
            "id": np.array(ids), "type": np.array(["NON-POLYMER" if i == "HOH" else "L-PEPTIDE LINKING" for i in ids]),
            "one_letter_code": np.array([one.get(i, "?") for i in ids]), "name": np.array(ids)})})
        os.makedirs(os.path.dirname(path), exist_ok=True)
        file.write(path)
    info.set_ccd_path(path)
    _CCD_DONE.append(True)


def _o_misc(case):
    """entry points no other stream calls: orient_principal_components, util.distance / matrix_rotate / vector_dot /
    norm_vector, dihedral_backbone, centroid of every shape"""
    import random as _random

    import numpy as np

    import biotite.structure as struc
    import biotite.structure.util as U
    r = _random.Random(case["seed"])
    v = []
    what = case["what"]
    eps = EPS["f32"]
    if what == "orient":
        n = r.choice([3, 4, 6, 10, 25])
        scale = [r.uniform(0.5, 20) for _ in range(3)]
        R = np.array([[float(x) for x in row] for row in _quat_rotation(r)])
        pts = (np.array([[r.gauss(0, 1) * scale[k] for k in range(3)] for _ in range(n)]) @ R.T + np.array([_fl(r, 50) for _ in range(3)])).astype(np.float32)
        order = r.choice([None, (0, 1, 2), (2, 1, 0), (1, 0, 2), (1, 2, 0)])
        as_atoms = r.random() < 0.4
        arg = _mk_atoms(np, struc, pts, None) if as_atoms else pts
        out = struc.orient_principal_components(arg) if order is None else struc.orient_principal_components(arg, order=order)
        oc = np.asarray(out.coord if as_atoms else out, dtype=np.float64)
        p64 = pts.astype(np.float64)
        mag = float(np.abs(p64).max()) + 1
        if oc.shape != p64.shape:
            return [("C15/orient_principal_components/shape", f"{p64.shape} -> {oc.shape}")]
        d0 = np.linalg.norm(p64[:, None] - p64[None], axis=-1)
        d1 = np.linalg.norm(oc[:, None] - oc[None], axis=-1)
        if float(np.abs(d0 - d1).max()) > 256 * eps * mag:
            v.append(("C15/orient_principal_components/distance-not-preserved", f"max deviation {float(np.abs(d0 - d1).max()):.3g}"))
        if float(np.abs(oc.mean(axis=0)).max()) > 256 * eps * mag:
            v.append(("C15/orient_principal_components/not-centred", f"centroid {oc.mean(axis=0).tolist()}"))
        if n >= 4:
            t0 = float(np.dot(np.cross(p64[1] - p64[0], p64[2] - p64[0]), p64[3] - p64[0]))
            t1 = float(np.dot(np.cross(oc[1] - oc[0], oc[2] - oc[0]), oc[3] - oc[0]))
            if abs(t0) > 1e-2 * mag ** 3 * 1e-3 and abs(t0) > 1.0 and (t0 > 0) != (t1 > 0):
                v.append(("C15/orient_principal_components/handedness-flipped", f"signed volume {t0!r} -> {t1!r}"))
        var = oc.var(axis=0)
        want = (0, 1, 2) if order is None else order
        ranked = sorted(range(3), key=lambda k: -var[k])          # axis with the largest variance first
        sv = sorted(var, reverse=True)
        if min(sv[0] - sv[1], sv[1] - sv[2]) > 1e-3 * sv[0] and n > 3:
            expect = [list(want).index(k) for k in range(3)]       # component k goes to axis index(want == k)
            if ranked != expect:
                v.append(("C15/orient_principal_components/components-not-in-requested-order", f"order={order}: variances along x,y,z = {var.tolist()}"))
        cov = np.cov(oc.T) if n > 3 else None
        if cov is not None and float(np.abs(cov - np.diag(np.diag(cov))).max()) > 1e-3 * float(np.diag(cov).max()) + 1e-4:
            v.append(("C15/orient_principal_components/axes-not-principal", f"covariance {cov.tolist()}"))
        return v
    if what == "util":
        shape = r.choice([(3,), (5, 3), (2, 4, 3)])
        a = np.array(_farr(r, shape[:-1] if len(shape) > 1 else (1,), 30), dtype=np.float64).reshape(shape)
        b = np.array(_farr(r, shape[:-1] if len(shape) > 1 else (1,), 30), dtype=np.float64).reshape(shape)
        if not np.allclose(U.vector_dot(a, b), (a * b).sum(-1), rtol=1e-12):
            v.append(("C15/util.vector_dot/differs-from-textbook", ""))
        if not np.allclose(U.distance(a, b), np.sqrt(((a - b) ** 2).sum(-1)), rtol=1e-12):
            v.append(("C15/util.distance/differs-from-textbook", ""))
        c = a.copy()
        U.norm_vector(c)
        if not np.allclose(np.linalg.norm(c, axis=-1), 1.0, rtol=1e-12) or not np.allclose(c * np.linalg.norm(a, axis=-1)[..., None], a, rtol=1e-10):
            v.append(("C15/util.norm_vector/not-a-unit-vector-of-the-same-direction", ""))
        R = np.array([[float(x) for x in row] for row in _quat_rotation(r)])
        rot = U.matrix_rotate(a, R)
        want = np.einsum("ij,...j->...i", R, a)
        if rot.shape != a.shape or not np.allclose(rot, want, rtol=1e-10, atol=1e-10):
            v.append(("C15/util.matrix_rotate/differs-from-R-times-x", f"shape {a.shape} -> {rot.shape}"))
        return v
    if what == "centroid":
        shape = r.choice([(1, 3), (4, 3), (2, 5, 3), (3, 1, 3)])
        a = np.array(_farr(r, shape[:-1], 50), dtype=np.float32).reshape(shape)
        got = np.asarray(struc.centroid(a), dtype=float)
        want = a.astype(np.float64).mean(axis=-2)
        if got.shape != want.shape or float(np.abs(got - want).max()) > 64 * eps * 51:
            v.append(("C15/centroid/differs-from-mean", f"{got.tolist()} vs {want.tolist()}"))
        at = _mk_atoms(np, struc, a, None)
        if not np.array_equal(np.asarray(struc.centroid(at)), np.asarray(struc.centroid(a))):
            v.append(("C15/centroid/atoms-object-differs-from-coordinates", ""))
        return v
    # ---- dihedral_backbone
    _install_ccd()
    nres = r.choice([1, 2, 3, 6])
    stack = r.random() < 0.4
    names, resid, resn, chain, coords = [], [], [], [], []
    pos = np.array([_fl(r, 20) for _ in range(3)])
    missing = r.choice([None, None, "N", "CA", "C"]) if nres > 2 else None
    miss_res = r.randrange(1, nres - 1) if missing else None
    hetero_before = r.random() < 0.3
    zz, zpos = [1], [float(r.randint(-10, 10)), float(r.randint(-10, 10))]
    planar_bb = r.random() < 0.3          # an idealised, exactly planar backbone (all z equal): dihedrals are 0 or 180 degrees
    if hetero_before:
        names.append("O"); resid.append(0); resn.append("HOH"); chain.append("A"); coords.append(pos + 3.0)
    for i in range(nres):
        atoms_here = [("N", None), ("CA", None), ("C", None), ("O", None), ("CB", None)]
        if r.random() < 0.5:
            r.shuffle(atoms_here)              # the order of the atoms inside a residue must not matter
        place = {}
        for nm in ("N", "CA", "C"):
            pos = pos + np.array(_unit(r)) * r.uniform(1.3, 1.6)
            place[nm] = pos.copy()
        if planar_bb:
            # a zig-zag in the plane z = 3 on a half-integer grid; never three atoms in a row on one line
            for nm in ("N", "CA", "C"):
                step_y = -zz[-1] if (len(zz) >= 2 and zz[-1] == zz[-2]) or r.random() < 0.75 else zz[-1]
                zz.append(step_y)
                zpos[0] += r.choice([1.0, 1.5]); zpos[1] += step_y * r.choice([1.0, 1.5])
                place[nm] = np.array([zpos[0], zpos[1], 3.0])
            pos = place["C"].copy()
        place["O"] = place["C"] + np.array(_unit(r)) * 1.2
        place["CB"] = place["CA"] + np.array(_unit(r)) * 1.5
        for nm, _ in atoms_here:
            if i == miss_res and nm == missing:
                continue
            names.append(nm); resid.append(i + 1); resn.append(r.choice(["ALA", "GLY", "LEU", "SER"])); chain.append("A"); coords.append(place[nm])
    n = len(names)
    c = np.array(coords, dtype=np.float32)
    if stack:
        R = np.array([[float(x) for x in row] for row in _quat_rotation(r)])
        c = np.stack([c, (c.astype(np.float64) @ R.T + 5.0).astype(np.float32)])
    atoms = _mk_atoms(np, struc, c, None)
    atoms.atom_name = np.array(names); atoms.res_id = np.array(resid); atoms.chain_id = np.array(chain)
    # one residue name per residue
    rn = {}
    atoms.res_name = np.array([rn.setdefault(i, nm) for i, nm in zip(resid, resn)])
    try:
        phi, psi, omg = struc.dihedral_backbone(atoms)
    except Exception as e:  # noqa: BLE001
        return [("C15/dihedral_backbone/raises", f"{type(e).__name__}: {e}")]
    models = c if stack else c[None]
    phi, psi, omg = (np.asarray(x, dtype=float).reshape(len(models), -1) for x in (phi, psi, omg))
    off = 1 if hetero_before else 0          # one entry per residue of the array; a non-amino-acid residue gets NaN
    if phi.shape[1] != nres + off:
        return [("C15/dihedral_backbone/shape", f"{nres + off} residues, angles of shape {phi.shape}")]
    if off and not all(math.isnan(x[m][0]) for x in (phi, psi, omg) for m in range(len(models))):
        v.append(("C15/dihedral_backbone/angle-for-a-residue-that-is-no-amino-acid", f"{phi[:, 0].tolist()}"))
    phi, psi, omg = phi[:, off:], psi[:, off:], omg[:, off:]
    for m, cm in enumerate(models):
        def at(res, nm):
            for k in range(n):
                if resid[k] == res and names[k] == nm:
                    return cm[k].astype(np.float32)
            return None
        for i in range(1, nres + 1):
            for label, arr, quad in (("phi", phi, ((i - 1, "C"), (i, "N"), (i, "CA"), (i, "C"))),
                                     ("psi", psi, ((i, "N"), (i, "CA"), (i, "C"), (i + 1, "N"))),
                                     ("omega", omg, ((i, "CA"), (i, "C"), (i + 1, "N"), (i + 1, "CA")))):
                pts = [at(rs, nm) if 1 <= rs <= nres else None for rs, nm in quad]
                got = arr[m][i - 1]
                if any(p is None for p in pts):
                    if not math.isnan(got):
                        v.append((f"C15/dihedral_backbone/{label}-defined-although-an-atom-is-missing", f"residue {i}: {got!r}"))
                    continue
                want, (s1_, s2_) = _ref_dihedral(*[[float(x) for x in p_] for p_ in pts])
                if math.isnan(want) or min(s1_, s2_) < 0.15:
                    continue                    # coinciding / nearly collinear atoms: the dihedral is ill-conditioned
                if math.isnan(got) or _angdiff(got, want) > 2e-5 / min(s1_, s2_) ** 2 + 1e-5:
                    v.append((f"C15/dihedral_backbone/{label}-differs-from-dihedral-of-the-backbone-atoms", f"model {m}, residue {i}: {got!r} vs {want!r}"))
        if len(v) > 4:
            break
    return v


def _o_pmeasure(case):
    """distance / angle / dihedral WITH a box == the non-periodic value on the unwrapped chain, and unchanged when any
    single atom is wrapped by a further lattice vector; index variants (periodic=True) == coordinate variants"""
    import numpy as np

    import biotite.structure as struc
    v = []
    eps = EPS["f32"]
    box = np.array(case["box"], dtype=np.float32)
    b64 = box.astype(np.float64)
    cond = _cond(_box_fl(box))
    q = np.array(case["chains"], dtype=np.float64)               # (n, 4, 3) unwrapped
    sh = np.array(case["shifts"], dtype=np.float64)              # (4, 3) integer lattice shifts
    p = q + (sh @ b64)[np.newaxis, :, :]
    p2 = p.copy()
    p2[:, case["rewrap_atom"], :] += np.array(case["rewrap_shift"], dtype=np.float64) @ b64
    Q = [q[:, i, :].astype(np.float32) for i in range(4)]
    P = [p[:, i, :].astype(np.float32) for i in range(4)]
    P2 = [p2[:, i, :].astype(np.float32) for i in range(4)]
    M = float(max(np.abs(p).max(), np.abs(p2).max())) + float(np.abs(box).max())

    def measure(X, bx):
        return (np.asarray(struc.distance(X[0], X[1], bx), dtype=float), np.asarray(struc.angle(X[0], X[1], X[2], bx), dtype=float),
                np.asarray(struc.dihedral(X[0], X[1], X[2], X[3], bx), dtype=float))
    ref = measure(Q, None)
    got = measure(P, box)
    got2 = measure(P2, box)
    pat = case["pattern"]
    for i in range(len(q)):
        l1, l2, l3 = (float(np.linalg.norm(q[i, j + 1] - q[i, j])) for j in range(3))
        n1, n2 = np.cross(q[i, 1] - q[i, 0], q[i, 2] - q[i, 1]), np.cross(q[i, 2] - q[i, 1], q[i, 3] - q[i, 2])
        smin = min(float(np.linalg.norm(n1)) / (l1 * l2), float(np.linalg.norm(n2)) / (l2 * l3))
        tol_d = 24 * eps * cond * (M + l1)
        tol_c = 48 * eps * cond * (1 + M / l1 + M / l2)
        tol_h = 192 * eps * cond * (1 + M / min(l1, l2, l3)) / smin ** 2
        for label, other in (("differs-from-unwrapped", ref), ("changes-when-one-atom-is-wrapped", got2)):
            if abs(got[0][i] - other[0][i]) > tol_d:
                v.append((f"C15/distance/periodic-{label}/{pat}", f"{case['boxkind']} box: {got[0][i]!r} vs {other[0][i]!r} (tol {tol_d:.3g})"))
            if abs(math.cos(got[1][i]) - math.cos(other[1][i])) > tol_c:
                v.append((f"C15/angle/periodic-{label}/{pat}", f"{case['boxkind']} box: {got[1][i]!r} vs {other[1][i]!r} (tol on cos {tol_c:.3g})"))
            if _angdiff(got[2][i], other[2][i]) > tol_h:
                v.append((f"C15/dihedral/periodic-{label}/{pat}", f"{case['boxkind']} box, atom shifts {case['shifts']}: {got[2][i]!r} vs {other[2][i]!r} (tol {tol_h:.3g})"))
    # index variants on an AtomArray that carries the box
    n = len(q)
    allc = np.concatenate(P, axis=0)
    atoms = _mk_atoms(np, struc, allc, box)
    idx = np.stack([np.arange(n) + t * n for t in range(4)], axis=1)
    for name, ifn, k, g in (("distance", struc.index_distance, 2, got[0]), ("angle", struc.index_angle, 3, got[1]), ("dihedral", struc.index_dihedral, 4, got[2])):
        r1 = np.asarray(ifn(atoms, idx[:, :k], periodic=True), dtype=float)
        if r1.shape != g.shape or not np.array_equal(r1, g, equal_nan=True):
            v.append((f"C15/index_{name}/periodic-differs-from-coordinate-variant", f"{r1.tolist()} vs {g.tolist()}"))
    return v


def _o_transform(case):
    """every transformation helper must be a proper rigid motion x -> R x + t: R orthonormal, det R = +1, distances and
    the SIGN of dihedrals preserved; align_vectors must map the origin direction onto the target direction (or reject
    exactly opposite directions)"""
    import numpy as np

    import biotite.structure as struc
    v = []
    motion = case["motion"]
    mp = case["params"]
    probe = np.array([[0, 0, 0], [1, 0, 0], [0, 1, 0], [0, 0, 1]] + case["points"], dtype=DT[case["dt"]])
    o_pos = [mp[3], mp[4], mp[5]] if case["positions"] else None
    t_pos = [mp[6], mp[7], mp[8]] if case["positions"] else None
    try:
        if motion == "rotate":
            out = struc.rotate(probe, mp[:3])
        elif motion == "rotate_centered":
            out = struc.rotate_centered(probe, mp[:3])
        elif motion == "rotate_about_axis":
            out = struc.rotate_about_axis(probe, case.get("axis", [mp[0], mp[1], mp[2] + 4.0]), case.get("angle", mp[3]), support=o_pos)
        elif motion == "translate":
            out = struc.translate(probe, [mp[0] * 10, mp[1] * 10, mp[2] * 10])
        else:
            out = struc.align_vectors(probe, case["origin"], case["target"], origin_position=o_pos, target_position=t_pos)
    except ValueError as e:
        if motion == "align_vectors" and case.get("mode") == "antiparallel":
            return []            # documented: exactly opposite directions are rejected
        return [(f"C15/{motion}/rejects-valid-input", f"{type(e).__name__}: {e}")]
    out = np.asarray(out, dtype=np.float64)
    p64 = probe.astype(np.float32).astype(np.float64)
    R = (out[1:4] - out[0]).T                                   # columns: images of the unit vectors
    tol = 1e-5
    orth = float(np.abs(R.T @ R - np.eye(3)).max())
    det = float(np.linalg.det(R))
    what = f"{motion}" + (f" ({case.get('mode')}: {case['origin']} -> {case['target']})" if motion == "align_vectors" else "")
    if motion == "rotate_about_axis" and "axis" in case:
        what += f" ({case['axis_mode']} axis {case['axis']}, |axis| = {math.sqrt(sum(x * x for x in case['axis']))!r}, angle {case['angle']!r})"
    if orth > tol:
        v.append((f"C15/{motion}/not-orthonormal", f"{what}: max |RtR - 1| = {orth:.3g}, det = {det:.6f}"))
    elif abs(det - 1) > tol:
        v.append((f"C15/{motion}/improper-transformation", f"{what}: det R = {det:.6f} (a reflection / inversion, not a rotation)"))
    # affine + isometric on further points, handedness preserved
    mag = float(np.abs(out).max()) + float(np.abs(p64).max()) + 1
    pts_in, pts_out = p64[4:], out[4:]
    for i in range(len(pts_in)):
        for j in range(i):
            d0, d1 = float(np.linalg.norm(pts_in[i] - pts_in[j])), float(np.linalg.norm(pts_out[i] - pts_out[j]))
            if abs(d0 - d1) > 64 * EPS["f32"] * mag or abs(d0 - d1) > 1e-5 * max(d0, mag):
                v.append((f"C15/{motion}/distance-not-preserved", f"{what}: {d0!r} -> {d1!r}"))
                break
        else:
            continue
        break
    t0 = float(np.dot(np.cross(pts_in[1] - pts_in[0], pts_in[2] - pts_in[0]), pts_in[3] - pts_in[0]))
    t1 = float(np.dot(np.cross(pts_out[1] - pts_out[0], pts_out[2] - pts_out[0]), pts_out[3] - pts_out[0]))
    if abs(t0) > 1.0 and (t0 > 0) != (t1 > 0):
        v.append((f"C15/{motion}/handedness-flipped", f"{what}: signed volume {t0!r} -> {t1!r}"))
    d_in = float(struc.dihedral(*[pts_in[i].astype(np.float32) for i in range(4)]))
    d_out = float(struc.dihedral(*[pts_out[i].astype(np.float32) for i in range(4)]))
    if abs(d_in) > 0.2 and abs(abs(d_in) - math.pi) > 0.2 and (d_in > 0) != (d_out > 0):
        v.append((f"C15/{motion}/dihedral-sign-flipped", f"{what}: dihedral {d_in!r} -> {d_out!r}"))
    if motion == "align_vectors" and not v:
        a = np.array(case["origin"], dtype=np.float32).astype(np.float64)
        b = np.array(case["target"], dtype=np.float32).astype(np.float64)
        a, b = a / np.linalg.norm(a), b / np.linalg.norm(b)
        if float(np.abs(R @ a - b).max()) > 1e-4:
            v.append(("C15/align_vectors/origin-not-mapped-onto-target", f"{what}: R a = {(R @ a).tolist()}, target {b.tolist()}"))
        if case["positions"]:
            op = np.array(o_pos, dtype=np.float32).astype(np.float64)
            tp = np.array(t_pos, dtype=np.float32).astype(np.float64)
            img = R @ (op - p64[0]) + out[0]
            if float(np.abs(img - tp).max()) > 64 * EPS["f32"] * mag:
                v.append(("C15/align_vectors/origin-position-not-mapped-onto-target-position", f"{what}: {img.tolist()} vs {tp.tolist()}"))
    if motion == "translate" and float(np.abs(R - np.eye(3)).max()) > 64 * EPS["f32"] * mag:
        v.append(("C15/translate/not-a-translation", f"R = {R.tolist()}"))
    return v


def _o_pbc(case):
    import numpy as np

    import biotite.structure as struc
    v = []
    dt = case["dt"]
    eps = EPS["f32"]          # `coord()` casts every ndarray to float32, whatever its dtype
    sc = case.get("scale", 1.0)
    a1, a2 = _npf(case["a1"], dt) * DT_NP(dt, sc), _npf(case["a2"], dt) * DT_NP(dt, sc)
    box = _npf(case["box"], dt) * DT_NP(dt, sc)
    mix = case.get("shape_mix", "same")
    if mix == "single-first":
        a1 = a1[0]
    elif mix == "single-second":
        a2 = a2[0]
    res = struc.displacement(a1, a2, box)
    a1f, a2f = a1.astype(np.float32), a2.astype(np.float32)
    diff = np.broadcast_to(a2f.astype(np.float64) - a1f.astype(np.float64), res.shape)
    dist = struc.distance(a1, a2, box)
    if not np.allclose(np.asarray(dist, dtype=float), np.sqrt((np.asarray(res, dtype=float) ** 2).sum(-1)), rtol=8 * eps, atol=0):
        v.append(("C15/distance/box-distance-differs-from-norm-of-displacement", "distance(a1,a2,box) != |displacement(a1,a2,box)|"))
    nat = res.shape[-2] if res.ndim > 1 else 1
    dm, rm = diff.reshape(-1, nat, 3), np.asarray(res).reshape(-1, nat, 3)
    coordmag = max(float(np.abs(a1).max()), float(np.abs(a2).max()))
    for mi in range(len(dm)):
        b = box if box.ndim == 2 else box[mi]
        bx = _box_fl(b)
        bmag = float(np.abs(b).max())
        cond = _cond(bx)
        for d_, r_ in zip(_fl64(dm[mi]), _fl64(rm[mi])):
            tol = 16 * eps * cond * (coordmag + _norm(d_) + bmag)
            # the code decides orthogonality with an absolute tolerance; follow the property, not the code:
            v += _check_disp(d_, r_, bx, tol, f"{case['boxkind']} box {np.asarray(b).tolist()}, difference {[float(x) for x in d_]}",
                             require_min=_pbc_must(d_, bx, tol, eps))
    # index variant
    if a1.shape == a2.shape and a1.ndim >= 2:
        n = a1.shape[-2]
        allc = np.concatenate([a1, a2], axis=-2)
        idx = np.stack([np.arange(n), np.arange(n) + n], axis=1)
        r1 = struc.index_displacement(allc, idx, periodic=True, box=box)
        if not np.array_equal(r1, res):
            v.append(("C15/index_displacement/differs-from-coordinate-variant", "periodic index_displacement != displacement"))
        r0 = struc.index_displacement(allc, idx, periodic=False, box=box)
        if not np.array_equal(r0, a2f - a1f):
            v.append(("C15/index_displacement/box-used-although-not-periodic", "periodic=False must ignore the box"))
    return v


def _pbc_must(d, bx, tol, eps=2.0 ** -23):
    """Is the minimum image required here?  Orthorhombic boxes (orthogonal up to the rounding of the box entries):
    always.  Triclinic boxes: when the shortest image is shorter than half the smallest box height."""
    rel = max(abs(float(_dotF(bx[i], bx[j]))) / (_norm(bx[i]) * _norm(bx[j])) for i, j in ((0, 1), (0, 2), (1, 2)))
    if rel <= 8 * eps:
        return True
    hmin = min(_heights(bx))
    l2, _ = _min_image(d, bx)
    return math.sqrt(float(l2)) < 0.5 * hmin - 4 * tol - 1e-9 * hmin


def _o_move(case):
    import numpy as np

    import biotite.structure as struc
    v = []
    dt = case["dt"]
    eps = EPS[dt]
    sc = case.get("scale", 1.0)
    a, box = _npf(case["a"], dt) * DT_NP(dt, sc), _npf(case["box"], dt) * DT_NP(dt, sc)
    bx = _box_fl(box)
    det, invc = _inv_exact(bx)
    cond = _cond(bx)
    res = struc.move_inside_box(a, box)
    fr = struc.coord_to_fraction(a, box)
    back = struc.fraction_to_coord(fr, box)
    mag = float(np.abs(a).max()) + float(np.abs(box).max())
    tol = 16 * eps * cond * mag
    hinv = max(1.0 / h for h in _heights(bx))
    if res.shape != a.shape:
        return [("C15/move_inside_box/shape", f"{a.shape} -> {res.shape}")]
    for x_, y_, f_, b_ in zip(_fl64(a), _fl64(res), np.asarray(fr, dtype=float), _fl64(back)):
        fy = [float(f) for f in _fracs(y_, invc)]
        if not all(-tol * hinv <= f <= 1 + tol * hinv for f in fy):
            v.append(("C15/move_inside_box/outside-box", f"{case['boxkind']} box: fractions {fy} (tol {tol * hinv:.3g})"))
        fd = [float(f) for f in _fracs(_subF(y_, x_), invc)]
        if not all(abs(f - round(f)) <= tol * hinv for f in fd):
            v.append(("C15/move_inside_box/not-a-lattice-vector", f"{case['boxkind']} box: moved by fractions {fd} (tol {tol * hinv:.3g})"))
        fx = [float(f) for f in _fracs(x_, invc)]
        if not all(abs(p - q) <= tol * hinv for p, q in zip(fx, f_)):
            v.append(("C15/coord_to_fraction/differs-from-definition", f"{list(f_)} vs exact {fx}"))
        if _norm(_subF(b_, x_)) > tol:
            v.append(("C15/coord_to_fraction/not-inverse-of-fraction_to_coord", f"{[float(c) for c in x_]} -> {[float(c) for c in b_]} (tol {tol:.3g})"))
        if all(8 * tol * hinv < f < 1 - 8 * tol * hinv for f in fy):
            again = struc.move_inside_box(np.array([[float(c) for c in y_]], dtype=DT[dt]), box)[0]
            if _norm(_subF(_fl64(again)[0], y_)) > tol:
                v.append(("C15/move_inside_box/not-idempotent", f"{[float(c) for c in y_]} -> {again.tolist()}"))
    vol = float(struc.box_volume(box))
    # reference: the exact rational triple product of the float entries.  numpy's det works through the LU factors AND
    # through log / exp of the pivots, so its relative error grows with |ln| of the length scale (27 ulps for a
    # 4e4-sized float64 box) besides the conditioning: the band is a few ulps of both, relative to the determinant
    be = _box_exact(box)
    det_exact = abs(float(_dotF(be[0], _crossF(be[1], be[2]))))
    logs = sum(abs(math.log(max(_norm(r_), 1e-300))) for r_ in bx)
    if abs(vol - det_exact) > eps * (16 * cond + 8 * (1 + logs)) * det_exact:
        v.append(("C15/box_volume/differs-from-triple-product", f"{vol!r} vs {det_exact!r} (relative band {eps * (16 * cond + 8 * (1 + logs)):.3g})"))
    return v


def _snapped(lens, angs):
    """(classification of a repaired defect) would a zeroing tolerance scaled by the SUM of the cell lengths remove a
    component that is genuinely non-zero?"""
    al, be, ga = (math.radians(x) for x in angs)
    la, lb, lc = lens
    comps = [(lb * math.cos(ga), lb), (lc * math.cos(be), lc),
             (lc * (math.cos(al) - math.cos(be) * math.cos(ga)) / math.sin(ga), lc)]
    tol = 1e-4 * (la + lb + lc)
    return any(1e-6 * ln < abs(c) < tol for c, ln in comps)


def _o_unitcell(case):
    import numpy as np

    import biotite.structure as struc
    v = []
    lens, angs = case["lens"], case["angs"]
    rad = [math.radians(x) for x in angs]
    if case.get("f32"):
        # angles and lengths as float32 numbers (what trajectory readers hand over)
        lens = [float(np.float32(x)) for x in lens]
        rad = [float(np.float32(x)) for x in rad]
        angs = [math.degrees(x) for x in rad]
    # a valid cell needs a positive volume
    ca, cb, cg = (math.cos(x) for x in rad)
    vol2 = 1 - ca * ca - cb * cb - cg * cg + 2 * ca * cb * cg
    if case.get("invalid") and (vol2 < -1e-3 or abs(math.sin(rad[2])) < 1e-12):
        # there is no such cell: the function must not hand back an ordinary-looking box -- an exception or
        # non-finite entries (what it does today) are the only acceptable answers
        try:
            with np.errstate(all="ignore"):
                bad_box = np.asarray(struc.vectors_from_unitcell(*lens, *rad), dtype=float)
        except (ValueError, ArithmeticError):
            return []
        if np.isfinite(bad_box).all():
            return [("C15/vectors_from_unitcell/finite-box-for-an-impossible-cell", f"cell {lens} {angs} (1 - cos2a - cos2b - cos2g + 2 cosa cosb cosg = {vol2:.3g}) -> {bad_box.tolist()}")]
        return []
    if vol2 <= 0.02:
        return []          # nearly flat cells: the angles are ill-conditioned functions of the vectors (cond ~ 1/sqrt(vol2))
    if case.get("f32"):
        box = struc.vectors_from_unitcell(*[np.float32(x) for x in lens], *[np.float32(x) for x in rad])
    else:
        box = struc.vectors_from_unitcell(*lens, *rad)
    eps = 2.0 ** -23
    snap = 2e-6          # components below 1e-6 of their own vector may be set to zero
    bx = np.asarray(box, dtype=np.float64)
    # ---- textbook definition: row lengths and the angles between the rows (alpha = b^c, beta = a^c, gamma = a^b)
    bad = []
    norms = [float(np.linalg.norm(bx[i])) for i in range(3)]
    for i in range(3):
        if abs(norms[i] - lens[i]) > (32 * eps + snap) * lens[i]:
            bad.append(f"|vector {i}| = {norms[i]!r}, cell length {lens[i]!r}")
    for name, (i, j), want in (("alpha", (1, 2), ca), ("beta", (0, 2), cb), ("gamma", (0, 1), cg)):
        got = float(bx[i] @ bx[j]) / (norms[i] * norms[j])
        if abs(got - want) > 32 * eps / math.sqrt(vol2) + snap:
            bad.append(f"cos {name} = {got!r}, cell says {want!r}")
    if bad:
        key = K_UNITCELL_SNAP if _snapped(lens, angs) else "C15/vectors_from_unitcell/differs-from-textbook"
        v.append((key, f"cell {lens} {angs} -> {box.tolist()}: " + "; ".join(bad)))
    # lower-triangular convention, a along x, b in the xy plane
    if not (box[0][1] == 0 and box[0][2] == 0 and box[1][2] == 0 and box[1][1] > 0 and box[2][2] > 0):
        v.append(("C15/vectors_from_unitcell/convention", f"{box.tolist()}"))
    # ---- documented inverse: unitcell_from_vectors(vectors_from_unitcell(cell)) == cell
    back = struc.unitcell_from_vectors(box)
    tol_ang = 64 * eps / math.sqrt(vol2) + snap
    bad = []
    for i in range(3):
        if abs(float(back[i]) - lens[i]) > (64 * eps + snap) * lens[i]:
            bad.append(f"length {i}: {lens[i]!r} -> {float(back[i])!r}")
        if abs(float(back[3 + i]) - rad[i]) > tol_ang:
            bad.append(f"angle {i}: {angs[i]!r} deg -> {math.degrees(float(back[3 + i]))!r} deg")
    if bad:
        key = K_UNITCELL_SNAP if _snapped(lens, angs) else "C15/unitcell_from_vectors/not-inverse-of-vectors_from_unitcell"
        v.append((key, f"cell {lens} {angs}: " + "; ".join(bad)))
    # ---- lengths and angles do not depend on the orientation of the box: rotate it as a whole (exact rational rotation,
    # then rounded to float32), permute / mirror the coordinate axes, and compare with plain norm / arccos of dot products
    import random as _random
    r_ = _random.Random(case.get("seed", 0))
    Rq = np.array([[float(x) for x in row] for row in _quat_rotation(r_)])
    perm = np.eye(3)[:, r_.choice([[1, 0, 2], [2, 1, 0], [0, 2, 1], [1, 2, 0], [2, 0, 1]])]
    mirror = np.diag([r_.choice([-1.0, 1.0]), r_.choice([-1.0, 1.0]), -1.0])
    for label, T in (("rotated", Rq), ("axes-permuted", perm), ("mirrored", mirror), ("rotated+mirrored", Rq @ mirror)):
        tb = (bx @ T.T).astype(np.float32)
        got = [float(x) for x in struc.unitcell_from_vectors(tb)]
        t64 = tb.astype(np.float64)
        nn = [float(np.linalg.norm(t64[i])) for i in range(3)]
        want = nn + [math.acos(max(-1.0, min(1.0, float(t64[i] @ t64[j]) / (nn[i] * nn[j])))) for i, j in ((1, 2), (0, 2), (0, 1))]
        bad = []
        for i in range(3):
            if abs(got[i] - want[i]) > 64 * eps * want[i]:
                bad.append(f"length {i}: {got[i]!r}, norm of the vector {want[i]!r}")
            if abs(got[3 + i] - want[3 + i]) > 64 * eps / math.sqrt(vol2) + snap:
                bad.append(f"angle {i}: {math.degrees(got[3 + i])!r} deg, arccos of the dot product {math.degrees(want[3 + i])!r} deg")
            if abs(got[3 + i] - rad[i]) > 192 * eps / math.sqrt(vol2) + 2 * snap:
                bad.append(f"angle {i}: {math.degrees(got[3 + i])!r} deg, cell before the {label} transformation {angs[i]!r} deg")
        if bad and not _snapped(lens, angs):
            v.append((f"C15/unitcell_from_vectors/depends-on-box-orientation/{label}", f"cell {lens} {angs}, box {tb.tolist()}: " + "; ".join(bad[:3])))
            break
    # ---- and the other way round: vectors -> cell -> vectors, every row judged relative to its own length
    box2 = np.asarray(struc.vectors_from_unitcell(*[float(x) for x in back]), dtype=np.float64)
    for i in range(3):
        if float(np.abs(box2[i] - bx[i]).max()) > (256 * eps / math.sqrt(vol2) + 2 * snap) * lens[i]:
            key = K_UNITCELL_SNAP if _snapped(lens, angs) else "C15/vectors_from_unitcell/not-inverse-of-unitcell_from_vectors"
            v.append((key, f"row {i}: {box.tolist()} -> {box2.tolist()}"))
            break
    return v


def _build_rpbc(case):
    """AtomArray / AtomArrayStack with bonds (or chain ids), wrapped coordinates, bookkeeping:
    (atoms, [box per model], bonds, per-molecule index lists, selection or None, [true unwrapped coords per molecule])"""
    import random as _random

    import numpy as np

    import biotite.structure as struc
    n_models = case.get("models", 1)
    lrng = _random.Random(case.get("layout_seed", 0))
    sizes = [len(m["coords"]) for m in case["mols"]]
    order = _layout(_random.Random(case.get("layout_seed", 0)), sizes, case.get("layout", "contiguous"))
    pos = {mj: i for i, mj in enumerate(order)}
    boxes, model_coords, trues = [], [], []
    for k in range(n_models):
        box = (_npf(case["box"], "f32").astype(np.float64) * (1.0 + 0.15 * k)).astype(np.float32)
        bx = _box_fl(box)
        det, invc = _inv_exact(bx)
        per_mol = []
        for mol in case["mols"]:
            st = mol.get("stretch", 1.0)
            base = mol["coords"][0]
            true = [[base[t] + (c[t] - base[t]) * st for t in range(3)] for c in mol["coords"]]
            if k == 0:
                trues.append(true)
            wrapped = []
            for c, s0 in zip(true, mol["shift"]):
                s_ = s0 if k == 0 else [lrng.randint(-2, 2) for _ in range(3)]
                if case["wrap"] == "shift":
                    wrapped.append([c[t] + sum(s_[r_] * float(box[r_][t]) for r_ in range(3)) for t in range(3)])
                else:
                    f = [float(x) for x in _fracs(c, invc)]
                    wrapped.append([c[t] - sum(math.floor(f[r_]) * float(box[r_][t]) for r_ in range(3)) for t in range(3)])
            per_mol.append(wrapped)
        boxes.append(box)
        model_coords.append([per_mol[m][j] for m, j in order])
    bonds = [(pos[(m, i)], pos[(m, j)], 1) for m, mol in enumerate(case["mols"]) for i, j in mol["bonds"]]
    molsets = [[pos[(m, j)] for j in range(sizes[m])] for m in range(len(sizes))]
    n = len(order)
    if n_models == 1:
        atoms = struc.AtomArray(n)
        atoms.coord = np.array(model_coords[0], dtype=np.float32).reshape(-1, 3)
        atoms.box = boxes[0]
    else:
        atoms = struc.AtomArrayStack(n_models, n)
        atoms.coord = np.array(model_coords, dtype=np.float32).reshape(n_models, -1, 3)
        atoms.box = np.stack(boxes)
    if case.get("no_bonds"):
        atoms.chain_id = np.array([f"C{m}" for m, _ in order])
    else:
        atoms.bonds = struc.BondList(n, np.array(bonds, dtype=np.uint32).reshape(-1, 3))
    sel = None
    if "selection_p" in case:
        sel = np.array([lrng.random() < case["selection_p"] for _ in range(n)], dtype=bool)
    return atoms, boxes, bonds, molsets, sel, trues


def _o_rpbc(case):
    import numpy as np

    import biotite.structure as struc
    v = []
    atoms, boxes, bonds, molsets, sel, trues = _build_rpbc(case)
    eps = EPS["f32"]
    snap_coord, snap_box = atoms.coord.copy(), atoms.box.copy()
    try:
        res = _forked(lambda: struc.remove_pbc(atoms) if sel is None else struc.remove_pbc(atoms, selection=sel))
    except ChildCrash as e:
        return [("C15/remove_pbc/crash", f"{case['boxkind']} box: {e}")]
    if not (np.array_equal(atoms.coord, snap_coord) and np.array_equal(atoms.box, snap_box)):
        v.append(("C15/remove_pbc/modifies-its-argument", "input structure changed"))
    if type(res) is not type(atoms) or res.coord.shape != atoms.coord.shape:
        return v + [("C15/remove_pbc/shape", f"{type(atoms).__name__}{atoms.coord.shape} -> {type(res).__name__}{res.coord.shape}")]
    lay = case.get("layout", "contiguous")
    way = ("selection, " if sel is not None else "") + ("chains instead of bonds, " if case.get("no_bonds") else "") + (f"stack of {len(boxes)} models, " if len(boxes) > 1 else "")
    c_in = atoms.coord.reshape(len(boxes), -1, 3)
    c_out = res.coord.reshape(len(boxes), -1, 3)
    for k, box in enumerate(boxes):
        bx = _box_fl(box)
        cond = _cond(bx)
        hmin = min(_heights(bx))
        mag = float(np.abs(c_in[k]).max()) + float(np.abs(box).max()) + float(np.abs(c_out[k]).max())
        tol = 16 * eps * cond * mag
        before, after = _fl64(c_in[k]), _fl64(c_out[k])
        det, invc = _inv_exact(bx)
        hinv = max(1.0 / h for h in _heights(bx))
        if sel is not None and any(before[i] != after[i] for i in range(len(before)) if not sel[i]):
            v.append(("C15/remove_pbc/unselected-atom-moved", f"{case['boxkind']} box, {way}{lay} layout"))
        for idxs_all, true in zip(molsets, trues):
            keep = [t for t, g in enumerate(idxs_all) if sel is None or sel[g]]
            idxs = [idxs_all[t] for t in keep]
            if not idxs:
                continue
            sub_true = [true[t] for t in keep]
            ok = all(math.dist(sub_true[i], sub_true[i + 1]) < 0.5 * hmin * 0.98 for i in range(len(sub_true) - 1))
            loc = {g: t for t, g in enumerate(idxs)}
            mb = [(loc[i], loc[j]) for i, j, _ in bonds if i in loc and j in loc]
            where = f"{case['boxkind']} box, {way}{lay} layout, model {k}, molecule at array positions {idxs}"
            vv = _check_rpbc([before[i] for i in idxs], [after[i] for i in idxs], bx, mb, tol, where, array_adjacent=False, adj_ok=ok)
            if lay != "contiguous":
                vv = [(kk + "/molecule-not-contiguous-in-array" if kk == "C15/remove_pbc/bonded-atoms-not-at-minimum-image" else kk, m) for kk, m in vv]
            v += vv
            cen = [sum(after[i][t] for i in idxs) / len(idxs) for t in range(3)]
            fc = [float(f) for f in _fracs(cen, invc)]
            if not all(-tol * hinv * 4 <= f <= 1 + tol * hinv * 4 for f in fc):
                v.append(("C15/remove_pbc/centroid-outside-box", f"{where}: centroid fractions {fc}"))
        if len(v) > 6:
            break
    # remove_pbc_from_coord on the first molecule alone: array neighbours at minimum image
    bx = _box_fl(boxes[0])
    tol = 16 * eps * _cond(bx) * (float(np.abs(c_in[0]).max()) + float(np.abs(boxes[0]).max()) + float(np.abs(c_out[0]).max()))
    sub = c_in[0][molsets[0]]
    r2 = struc.remove_pbc_from_coord(sub, boxes[0])
    v += _check_rpbc(_fl64(sub), _fl64(r2), bx, [(i, i + 1) for i in range(len(sub) - 1)], tol, "remove_pbc_from_coord", array_adjacent=True)
    return v


# =====================================================================================
# bookkeeping
# =====================================================================================
def nontrivial(case, impl_out):
    if case.get("ops"):
        if impl_out and any(o.startswith("ERR") for o in impl_out):
            return True
        return any(len(set(op.replace(";", " ").replace("|", " ").split())) > 4 for op in case["ops"])
    k = case["kind"]
    if k == "f-geom":
        return len(case["pts"][0]) >= 1
    return True


def signature(case):
    if case.get("ops"):
        return "|".join(case["ops"])
    return case["kind"] + ":" + str(case.get("seed"))


def distribution(cases_, impl_outs):
    outcomes, opk, box = {}, {}, {}
    for c, o in zip(cases_, impl_outs):
        for op, line in zip(c.get("ops") or [], o or []):
            k = line.split(" ")[0]
            outcomes[k] = outcomes.get(k, 0) + 1
            n = op.split()[0]
            opk[n] = opk.get(n, 0) + 1
        if "boxkind" in c:
            box[c["boxkind"]] = box.get(c["boxkind"], 0) + 1
    return {"outcomes": outcomes, "ops": opk, "float_box_kinds": box}


def search(rng, problems, tier):
    """failing-input search: both streams again on a fresh random stream (oracle only), more of the float stream"""
    n = 1500 if tier == "quick" else 8000
    for _ in range(n // 3):
        yield gen_exact(rng)
    for _ in range(n):
        yield gen_float(rng)

"""C02 — A bond list is a set of undirected typed bonds with safe indices.

State of one history: two bond lists `cur` and `aux` (aux is the argument of merge / concatenate /
remove_bonds / ==).  Every mutating op prints the whole observable state `ok <n> <sorted triples>`; view ops
print the canonical view.  Ops whose atom index lies outside [-n, n) (and masks of the wrong length) are
executed in a forked child first; a signal exit prints `CRASH` and the op is not applied to the parent.

Protocol (one op per line):
  new <n> <i,j,t;...|_>      cur := BondList(n, int64 (k,3) array)      aux <n> <...>   the same for aux
  new2 <n> <i,j;...|_>       cur := BondList(n, int64 (k,2) array)
  swap | dup                 exchange cur/aux | aux := cur.copy()
  add <i> <j> <t> | remove <i> <j> | remove_to <i> | remove_bonds | merge | concat | concat3
  offset <k> | rm_arom | rm_order
  getitem mask|smask|blist <0101|_>  |  getitem arr|list <ints|_>  |  getitem slice <a|-> <b|-> <c|->
  add2 <i> <j>               add_bond with the default bond type
  optional trailing ` @i8|i16|i32|i64|ip|u8|u16|u32|u64` on add/remove/remove_to/get_bonds/getitem int/contains/getitem arr
  and ` @<dtype>|be|ro|sr|sc|F|kw|none` on new/aux/new2 (array dtype / byte order / read-only / strided / Fortran / keyword call /
  default argument), ` @ro|sr|be` on getitem arr, ` @ro` on getitem mask:
  the indices are passed as NumPy integer scalars / an index array of that dtype
  get_bonds <i> | getitem int <i> | all_bonds | adj | types | graph | contains <i> <j> | eq | count
"""
import os
import re

PROP = "C02"
PROPS_MODULE = "BiotiteModel.Props.C02"
DRIVER_MODULE = "BiotiteModel.Driver.C02"
EXT_MODULES = ["biotite.structure.bonds"]
GEN_FILES = ["BiotiteModel/Gen/C02.lean"]
RULE = ("seeded histories of 1-30 BondList operations over two lists of 0-8 atoms (all 10 bond types, duplicate and "
        "reversed pairs, negative indices, masks / unsorted index arrays of every integer dtype / lists / slices with steps, "
        "scalar indices as Python ints and NumPy integer scalars, returned objects overwritten / kept across ops), every op "
        "compared with the Lean model and with an independent dict[frozenset]->type reference on all views; a "
        "separate invalid-index stream (i < -n, i >= n, outside int32, wrong-length masks) runs in a forked child. "
        "non-trivial = the history reaches a list with >= 2 bonds or an error/crash outcome; distinct = different op text")
TRUSTED = ["numpy np.sort/np.delete/np.append/np.cumsum/fancy indexing modelled by documented semantics",
           "networkx.Graph (as_graph view) trusted",
           "fork sandbox: a signal exit of the child is what 'terminates the process' means"]
ASSUMPTIONS = ["the invariant / refinement theorems assume atom counts below 2^31 (int32 index arguments); what happens beyond "
               "(uint32 atom count, C int running count of concatenate, uint32 wrap of offset_indices, narrow array dtypes) "
               "is modelled by the *Full functions and stated in the _rejects/_agrees/_defect theorems",
               "memory safety is argued only through the bounds invariants proved on the model (cachedMax, index < n)"]
LEVEL_TEXT = ("proof (Lean 4, all inputs, 52 theorems; every size/range hypothesis has a _rejects/_agrees/_defect counterpart): every operation keeps both lists canonical and the cached maximum a "
              "bound of every degree (so get_bonds/get_all_bonds stay inside their buffers); every operation refines a "
              "reference map from sorted pairs to one type (first wins at construction, new type on update, argument on "
              "merge, disjoint union with offset, __getitem__ = relabelling by the inverse index, mask branch = index "
              "branch of nonzero(mask), slices of any step/bounds select duplicate-free atoms below n), lifted to whole "
              "histories (C02_refines); all views (as_array/as_set/as_graph, get_bonds, get_all_bonds, both matrices, "
              "membership, ==) are functions of that map; merge is total. Partial for the index guard only: "
              "_to_positive_index accepts indices below -n (C02_index_defect*, C02_canon_defect, known findings), so "
              "'rejected with IndexError' is proved for i >= n and [-n, n) is proved accepted; the invariants for add_bond "
              "carry the hypothesis i, j >= -n")
LEVEL_NOTE = ("model tied to bonds.pyx by (1) proof obligations on the regenerated source: signature (C types, defaults, except clause), "
              "canonical body and exception classes of all 36 modelled functions equal the frozen text next to the model "
              "(C02_gen_fn_*, C02_gen_param_types/defaults/exception_classes), BondType/aromaticity tables; (2) op-by-op correspondence; "
              "numpy primitives, networkx and C memory safety beyond the proved index bounds are trusted")
TECHNIQUE = "Lean 4 proof (invariants + refinement of every operation and of whole histories to a finite-map spec, induction over lists, BitVec 32 index arithmetic) + differential correspondence in a crash-contained worker"

INT32 = (-2 ** 31, 2 ** 31 - 1)
MAX_N = 40          # generator keeps atom counts small (matrices are printed)


# ---------------------------------------------------------------- text helpers
def _triples(ts):
    ts = sorted((int(a), int(b), int(c)) for a, b, c in ts)
    return ";".join(f"{a},{b},{c}" for a, b, c in ts) if ts else "_"


def _pairs(ps):
    ps = sorted((int(a), int(b)) for a, b in ps)
    return ";".join(f"{a},{b}" for a, b in ps) if ps else "_"


def _parse_rows(s, width):
    if s == "_":
        return []
    rows = [[int(x) for x in r.split(",")] for r in s.split(";")]
    assert all(len(r) == width for r in rows), s
    return rows


def _parse_ints(s):
    return [] if s == "_" else [int(x) for x in s.split(",")]


def _parse_bits(s):
    return [] if s == "_" else [c == "1" for c in s]


def _opt(s):
    return None if s == "-" else int(s)


# Optional trailing token `@<dtype>` on ops with scalar atom indices or an integer index array: the index is passed as a
# NumPy integer scalar / an array of that dtype instead of a Python int / int64 (the model ignores the token: every
# integer object denoting the same number must behave the same).
DT_RANGE = {"i8": (-2 ** 7, 2 ** 7 - 1), "i16": (-2 ** 15, 2 ** 15 - 1), "i32": (-2 ** 31, 2 ** 31 - 1),
            "i64": (-2 ** 63, 2 ** 63 - 1), "ip": (-2 ** 63, 2 ** 63 - 1), "u8": (0, 2 ** 8 - 1), "u16": (0, 2 ** 16 - 1),
            "u32": (0, 2 ** 32 - 1), "u64": (0, 2 ** 64 - 1)}


def _np_type(name):
    import numpy as np
    return {"i8": np.int8, "i16": np.int16, "i32": np.int32, "i64": np.int64, "ip": np.intp,
            "u8": np.uint8, "u16": np.uint16, "u32": np.uint32, "u64": np.uint64}[name]


def _dt(w):
    return w[-1][1:] if w and w[-1].startswith("@") else None


def _sc(x, w):
    """the scalar index as the op line asks for it: Python int, or a NumPy integer scalar"""
    d = _dt(w)
    return int(x) if d is None else _np_type(d)(int(x))


def _tok(rng, values, p=0.5, layouts=(), p_layout=0.35):
    """a random ` @dtype` / ` @layout` suffix ('' with probability 1-p); a dtype is one that can hold all the values"""
    if rng.random() >= p:
        return ""
    if layouts and rng.random() < p_layout:
        return " @" + rng.choice(list(layouts))
    fit = [d for d, (lo, hi) in sorted(DT_RANGE.items()) if all(lo <= v <= hi for v in values)]
    return " @" + rng.choice(fit) if fit else ""


def _ctor_tok(rng, rows, p=0.6):
    if not rows and rng.random() < 0.5:
        return " @none"
    return _tok(rng, [x for r in rows for x in r], p, ("be", "ro", "sr", "sc", "F", "kw"))


def _bits(bs):
    return "".join("1" if b else "0" for b in bs) if len(bs) else "_"


def _ints(xs):
    return ",".join(str(int(x)) for x in xs) if len(xs) else "_"


# ---- bonds.pyx read function by function (pass 7): signatures with C types and defaults, canonical bodies ------------
# Docstrings, comments, blank lines, layout and the arguments of `raise X(...)` are dropped; parameters and declared /
# assigned locals are renamed a0, a1 … / v0, v1 … in order of first appearance, so a renamed local regenerates the same
# text while a changed guard, operator, constant, dtype, default, helper call, order of steps or exception class does not.

_PYX_KEEP = set("""self True False None and or not in is if elif else for while return raise pass break continue def cdef cpdef class
import from as try except finally with lambda yield del global assert range len max min int str isinstance set list tuple
np nx numbers BondType BondList Sequence itertools free realloc sizeof
IndexError ValueError TypeError NotImplementedError MemoryError OverflowError KeyError BadStructureError
uint8 uint16 uint32 uint64 int8 int16 int32 int64 ptr bint object float double void IndexType""".split())

def _pyx_strip_code(text):
    """remove docstrings, comments, blank lines; join bracketed continuation lines; normalise whitespace"""
    text = re.sub(r'(?s)[rRuU]?""".*?"""', '""', text)
    lines = []
    for raw in text.split("\n"):
        # comment removal (quotes in this file never contain '#', except f-strings without '#')
        q = None; out = []
        for ch in raw:
            if q:
                out.append(ch)
                if ch == q: q = None
            elif ch in "\"'":
                q = ch; out.append(ch)
            elif ch == "#":
                break
            else:
                out.append(ch)
        lines.append("".join(out).rstrip())
    logical = []; cur = ""; depth = 0; indent = 0; cont = False
    for ln in lines:
        if not ln.strip() and depth == 0 and not cont:
            continue
        if depth == 0 and not cont:
            indent = len(ln) - len(ln.lstrip()); cur = ln.strip()
        else:
            cur += " " + ln.strip()
        depth += sum(ln.count(c) for c in "([{") - sum(ln.count(c) for c in ")]}")
        cont = cur.endswith("\\")
        if cont:
            cur = cur[:-1].rstrip(); continue
        if depth <= 0:
            depth = 0
            cur = re.sub(r"\s+", " ", cur)
            cur = re.sub(r"\(\s+", "(", cur); cur = re.sub(r"\s+\)", ")", cur); cur = re.sub(r"\[\s+", "[", cur); cur = re.sub(r"\s+\]", "]", cur)
            cur = re.sub(r",\)", ")", cur)
            if cur not in ('""',):
                logical.append((indent, cur))
            cur = ""
    return logical

def _pyx_functions(src):
    """{qualified name: (signature line, [(indent, logical line)])} for every def/cdef function of the file"""
    ll = _pyx_strip_code(src)
    out = {}; i = 0; cls = None
    while i < len(ll):
        ind, ln = ll[i]
        m = re.match(r"class (\w+)", ln)
        if m and ind == 0:
            cls = m.group(1)
        elif ind == 0 and not ln.startswith("@") and not re.match(r"(def|cdef|cpdef|class) ", ln):
            pass
        m = re.match(r"(?:def|cdef|cpdef)\s+(?:inline\s+)?(?:[\w\[\]\*\.]+\s+)*?(\w+)\s*\((.*)\)\s*(except\s*[-\w\?]+)?\s*:$", ln)
        if m and (ind == 0 or ind == 4):
            name = m.group(1); body = []; j = i + 1
            while j < len(ll) and ll[j][0] > ind:
                body.append(ll[j]); j += 1
            q = (cls + "." if ind == 4 and cls else "") + name
            if ind == 0: cls = None if not ln.startswith("class") else cls
            out[q] = (ln, body)
            i = j; continue
        i += 1
    return out

def _pyx_params(sig):
    m = re.match(r"(?:def|cdef|cpdef)\s+(?:inline\s+)?((?:[\w\[\]\*\.]+\s+)*?)(\w+)\s*\((.*)\)\s*(except\s*[-\w\?]+)?\s*:$", sig)
    ret, name, args, exc = m.group(1).strip(), m.group(2), m.group(3), (m.group(4) or "")
    ps = []
    depth = 0; cur = ""
    for ch in args + ",":
        if ch == "," and depth == 0:
            if cur.strip(): ps.append(cur.strip())
            cur = ""
        else:
            depth += ch in "([{"; depth -= ch in ")]}"; cur += ch
    res = []
    for p in ps:
        default = ""
        if "=" in p:
            p, default = [x.strip() for x in p.split("=", 1)]
        parts = p.split()
        res.append((parts[-1].lstrip("*"), " ".join(parts[:-1]), default))
    return ret, exc.replace(" ", ""), res

def _pyx_canon(sig, body):
    """rename parameters (a0, a1 …) and declared / assigned locals (v0, v1 …) in order of first appearance"""
    _, _, ps = _pyx_params(sig)
    names = {}
    for k, (n, _, _) in enumerate(p for p in ps if p[0] != "self"):
        names[n] = f"a{k}"
    decl = []
    for _, ln in body:
        m = re.match(r"cdef\s+(.*)$", ln)
        if m:
            rest = m.group(1)
            pieces, depth, cur = [], 0, ""
            for ch in rest + ",":
                if ch == "," and depth == 0:
                    pieces.append(cur)
                    cur = ""
                else:
                    depth += ch in "([{"
                    depth -= ch in ")]}"
                    cur += ch
            for piece in pieces:
                piece = piece.split("=")[0].strip()
                ident = re.findall(r"[A-Za-z_]\w*", piece)
                if ident: decl.append(ident[-1])
        m = re.match(r"([A-Za-z_]\w*)\s*(?:=|\+=|-=)(?!=)", ln)
        if m: decl.append(m.group(1))
        m = re.match(r"for\s+([\w, ]+)\s+in\b", ln)
        if m: decl += re.findall(r"[A-Za-z_]\w*", m.group(1))
        for mm in re.finditer(r"\bfor\s+([A-Za-z_]\w*)\s+in\b", ln): decl.append(mm.group(1))
    k = 0
    for d in decl:
        if d not in names and d not in _PYX_KEEP:
            names[d] = f"v{k}"; k += 1
    def ren(ln):
        def f(m):
            if m.start() > 0 and ln[m.start() - 1] == ".": return m.group(0)
            return names.get(m.group(0), m.group(0))
        # leave string literals alone
        parts = re.split(r"(f?\"[^\"]*\"|f?'[^']*')", ln)
        return "".join(p if i % 2 else re.sub(r"[A-Za-z_]\w*", lambda m, p=p: (m.group(0) if (m.start() > 0 and p[m.start()-1] == ".") else names.get(m.group(0), m.group(0))), p) for i, p in enumerate(parts))
    return [(ind, ren(ln)) for ind, ln in body], names

_PYX_STEP = re.compile(r"raise (\w+)|\b(_to_positive_index_array|_to_positive_index|_to_index_array|_invert_index|_sort|_in_array|_remove_redundant_bonds|_get_max_bonds_per_atom|np\.sort|np\.append|np\.delete|np\.concatenate|np\.cumsum|np\.frombuffer|np\.nonzero|np\.arange|np\.full|np\.zeros|np\.ones|np\.max|get_bonds|as_array|as_set|copy|BondList|max|min)\(")

def _pyx_facts(src, wanted):
    fs = _pyx_functions(src)
    res = {}
    for q in wanted:
        if q not in fs: raise ValueError(f"function {q} not found in bonds.pyx")
        sig, body = fs[q]
        ret, exc, ps = _pyx_params(sig)
        cbody, names = _pyx_canon(sig, body)
        conds = [ln for _, ln in cbody if re.match(r"(if|elif|while) ", ln)]
        steps = []
        for _, ln in cbody:
            for m in _PYX_STEP.finditer(ln):
                if m.group(1): steps.append("raise " + m.group(1))
                else:
                    recv = re.search(r"([\w\.]+)\.$", ln[:m.start(2)])
                    steps.append((recv.group(1) + "." if recv and m.group(2) in ("as_array", "as_set", "copy", "get_bonds", "_remove_redundant_bonds", "_get_max_bonds_per_atom") else "") + m.group(2))
        dts = re.findall(r"dtype=([\w\.]+)", " ".join(ln for _, ln in cbody))
        fills = re.findall(r"np\.full\((?:\([^)]*\)|[^,]+), ([^,]+),", " ".join(ln for _, ln in cbody))
        res[q] = {"ret": ret, "exc": exc, "params": [(names.get(n, n), t, d) for n, t, d in ps], "conds": conds, "steps": steps,
                  "dtypes": dts, "fills": fills, "body": [("  " * ((ind - body[0][0]) // 4) if body else "") + ln for ind, ln in cbody]}
    return res



MODELLED_FUNCTIONS = [
    "BondType.without_aromaticity", "BondList.__init__", "BondList.concatenate", "BondList.__copy_create__",
    "BondList.__copy_fill__", "BondList.offset_indices", "BondList.as_array", "BondList.as_set", "BondList.as_graph",
    "BondList.remove_aromaticity", "BondList.remove_bond_order", "BondList.get_atom_count", "BondList.get_bond_count",
    "BondList.get_bonds", "BondList.get_all_bonds", "BondList.adjacency_matrix", "BondList.bond_type_matrix",
    "BondList.add_bond", "BondList.remove_bond", "BondList.remove_bonds_to", "BondList.remove_bonds", "BondList.merge",
    "BondList.__add__", "BondList.__getitem__", "BondList.__iter__", "BondList.__str__", "BondList.__eq__",
    "BondList.__contains__", "BondList._get_max_bonds_per_atom", "BondList._remove_redundant_bonds",
    "_to_positive_index", "_to_positive_index_array", "_to_index_array", "_in_array", "_sort", "_invert_index"]


def _lean_ident(q):
    return q.replace("BondList.", "").replace("BondType.", "BondType_").replace("__", "dunder_").strip("_")


def _lean_str(x):
    return '"' + x.replace("\\", "\\\\").replace('"', '\\"') + '"'


def _pyx_gen_lines(src, namespace):
    """Lean definitions `sig_<fn>` / `body_<fn>` for every modelled function."""
    fs = _pyx_facts(src, MODELLED_FUNCTIONS)
    out = []
    for q in MODELLED_FUNCTIONS:
        f = fs[q]
        body = [re.sub(r"^(\s*raise \w+)\(.*\)$", r"\1", ln) for ln in f["body"]]
        ident = _lean_ident(q)
        ps = ", ".join(f"({_lean_str(n)}, {_lean_str(t)}, {_lean_str(d)})" for n, t, d in f["params"])
        out.append(f"/-- `{q}`: (return C type, exception clause, [(parameter, C type, default)]) -/")
        out.append(f"def sig_{ident} : String × String × List (String × String × String) := ({_lean_str(f['ret'])}, {_lean_str(f['exc'])}, [{ps}])")
        out.append(f"def body_{ident} : List String := [" + ", ".join(_lean_str(b) for b in body) + "]")
        raises = [b.strip().split()[1] for b in body if b.strip().startswith("raise ")]
        out.append(f"/-- exception classes `{q}` raises itself, in source order -/")
        out.append(f"def raises_{ident} : List String := [" + ", ".join(_lean_str(r) for r in raises) + "]")
    return out


# ---------------------------------------------------------------- translator (Gen)
def gen_lean():
    from common import paths
    src = open(os.path.join(paths.SRC, "biotite/structure/bonds.pyx")).read()
    m = re.search(r"class BondType\(IntEnum\):(.*?)\n    def without_aromaticity", src, re.S)
    if not m:
        raise ValueError("BondType enum not found in bonds.pyx")
    body = re.sub(r'(?s)""".*?"""', "", m.group(1))
    members = re.findall(r"^\s+([A-Z_]+)\s*=\s*(\d+)\s*$", body, re.M)
    if len(members) < 2:
        raise ValueError("BondType members not found")
    m2 = re.search(r"def without_aromaticity\(self\):(.*?)\n(?:@|class |def )", src, re.S)
    if not m2:
        raise ValueError("without_aromaticity not found")
    wa = re.sub(r'(?s)""".*?"""', "", m2.group(1))
    branches = re.findall(r"(?:if|elif) self == BondType\.([A-Z_]+):\s*return BondType\.([A-Z_]+)", wa)
    if not branches or not re.search(r"else:\s*return self", wa):
        raise ValueError("without_aromaticity branches not recognised")
    m3 = re.search(r"def remove_aromaticity\(self\):(.*?)\n    def ", src, re.S)
    if not m3:
        raise ValueError("remove_aromaticity not found")
    ra = re.sub(r'(?s)""".*?"""', "", m3.group(1))
    pairs = re.findall(r"\(BondType\.([A-Z_]+),\s*BondType\.([A-Z_]+)\)", ra)
    if not pairs or "bond_types[bond_types == aromatic_type] = non_aromatic_type" not in ra:
        raise ValueError("remove_aromaticity pair list not recognised")
    # the two guards `>= len(BondType)` (constructor and add_bond)
    guards = len(re.findall(r">=\s*len\(BondType\)", src))
    # `_to_positive_index`: the guard expressions exactly as written
    m4 = re.search(r"cdef uint32 _to_positive_index\(int32 index, uint32 array_length\) except -1:(.*?)\ndef ", src, re.S)
    if not m4:
        raise ValueError("_to_positive_index signature (int32, uint32, except -1) not found")
    tp = re.sub(r'(?s)""".*?"""', "", m4.group(1))
    tp_lines = [ln.strip() for ln in tp.splitlines() if ln.strip() and not ln.strip().startswith("#")]
    conds = [ln for ln in tp_lines if ln.startswith("if ") or ln.startswith("else") or ln.startswith("pos_index =") or ln.startswith("return")]
    val = dict(members)

    def lst(xs):
        return "[" + ", ".join(xs) + "]"
    out = ["/- REGENERATED on every run by harness/props/c02.py from structure/bonds.pyx. Do not edit. -/",
           "namespace BiotiteModel.Gen.C02",
           "/-- `BondType` members: (name, value). -/",
           "def bondTypes : List (String × Nat) := " + lst(f'("{n}", {v})' for n, v in members),
           "/-- `BondType.without_aromaticity`: explicit branches (from, to) by value; every other member maps to itself. -/",
           "def withoutAromaticity : List (Nat × Nat) := " + lst(f"({val[a]}, {val[b]})" for a, b in branches),
           "/-- `BondList.remove_aromaticity`: the (aromatic, non-aromatic) pairs applied in order. -/",
           "def removeAromaticity : List (Nat × Nat) := " + lst(f"({val[a]}, {val[b]})" for a, b in pairs),
           "/-- number of `>= len(BondType)` guards in the file (constructor and add_bond). -/",
           f"def typeGuards : Nat := {guards}",
           "/-- control skeleton of `_to_positive_index` as written (conditions, assignment, returns). -/",
           "def toPositiveIndexSkeleton : List String := " + lst('"' + c.replace('"', "'") + '"' for c in conds),
           "/-! every modelled function of bonds.pyx: signature and canonical body (see harness/props/c02.py `_pyx_*`) -/"] \
        + _pyx_gen_lines(src, "Gen") + ["end BiotiteModel.Gen.C02", ""]
    return {"BiotiteModel/Gen/C02.lean": "\n".join(out)}


# ---------------------------------------------------------------- reference: dict[sorted pair] -> type  (from the statement)
AROM = {5: 1, 6: 2, 7: 3, 9: 0}


class Ref:
    """The reference mapping of the property statement: unordered pair -> one bond type, plus the atom count."""

    def __init__(self, n, m=None):
        self.n = n
        self.m = dict(m or {})

    def copy(self):
        return Ref(self.n, self.m)

    @staticmethod
    def key(i, j):
        return (i, j) if i <= j else (j, i)

    def norm(self, i):
        """index in [-n, n) -> position; otherwise None (must be rejected with IndexError)."""
        if -self.n <= i < self.n:
            return i % self.n
        return None

    @staticmethod
    def construct(n, rows):
        """first type wins; None if some index is outside [-n, n) or some type is no BondType."""
        r = Ref(n)
        for row in rows:
            i, j = r.norm(row[0]), r.norm(row[1])
            if i is None or j is None:
                return "index"
        for row in rows:
            t = row[2] if len(row) == 3 else 0
            if not 0 <= t <= 9:
                return "type"
            r.m.setdefault(Ref.key(r.norm(row[0]), r.norm(row[1])), t)
        return r

    def triples(self):
        return sorted((i, j, t) for (i, j), t in self.m.items())

    def neighbours(self, k):
        return sorted((j if i == k else i, t) for (i, j), t in self.m.items() if k in (i, j))

    def select(self, sel):
        pos = {a: p for p, a in enumerate(sel)}
        r = Ref(len(sel))
        for (i, j), t in self.m.items():
            if i in pos and j in pos:
                r.m[Ref.key(pos[i], pos[j])] = t
        return r


# ---------------------------------------------------------------- real-code adapter
class _St:
    def __init__(self):
        from biotite.structure.bonds import BondList
        self.cur = BondList(0)
        self.aux = BondList(0)


def _state_line(bl):
    return f"ok {int(bl.get_atom_count())} {_triples(bl.as_array().tolist())}"


def _mk(n, rows, width):
    import numpy as np
    from biotite.structure.bonds import BondList
    arr = np.array(rows, dtype=np.int64).reshape(-1, width)
    return BondList(n, arr)


LAYOUTS = ("be", "ro", "sr", "sc", "F", "kw", "none")      # non-dtype `@` tokens


def _layout(arr, variant):
    """the same values in another memory layout: byte-swapped, read-only, strided rows / columns, Fortran order"""
    import numpy as np
    if variant == "be":
        return arr.astype(">i8")
    if variant == "ro":
        arr = arr.copy()
        arr.setflags(write=False)
        return arr
    if variant == "sr":
        big = np.zeros((2 * arr.shape[0],) + arr.shape[1:], dtype=arr.dtype)
        big[::2] = arr
        return big[::2]
    if variant == "sc" and arr.ndim == 2:
        big = np.zeros((arr.shape[0], 2 * arr.shape[1]), dtype=arr.dtype)
        big[:, ::2] = arr
        return big[:, ::2]
    if variant == "F" and arr.ndim == 2:
        return np.asfortranarray(arr)
    return arr


def _int_array(values, w, shape=None):
    import numpy as np
    d = _dt(w)
    arr = np.array(values, dtype=_np_type(d) if d in DT_RANGE else np.int64)
    if shape is not None:
        arr = arr.reshape(shape)
    return _layout(arr, d)


def _spell_int(x, k):
    """a non-index integer argument (atom count, offset, bond type) in a spelling chosen by the value itself"""
    import numpy as np
    x = int(x)
    if k % 3 == 1 and -2 ** 63 <= x < 2 ** 63:
        return np.int64(x)
    if k % 3 == 2 and 0 <= x < 256:
        return np.uint8(x)
    return x


def _spell_type(t, k):
    import numpy as np
    from biotite.structure.bonds import BondType
    t = int(t)
    if 0 <= t <= 9:
        return [t, BondType(t), np.uint8(t), np.int64(t)][k % 4]
    return t


def _remember(st, *objs):
    """arguments handed to the code: (object, snapshot) — a call, accepted or refused, must not change them"""
    import numpy as np
    st.args = [(o, o.copy() if isinstance(o, np.ndarray) else list(o)) for o in objs
               if isinstance(o, (np.ndarray, list))]


def _args_changed(st):
    import numpy as np
    for o, snap in getattr(st, "args", []):
        if isinstance(o, np.ndarray):
            if o.shape != snap.shape or o.dtype != snap.dtype or not np.array_equal(o, snap):
                return f"{snap.tolist()} became {o.tolist()}"
        elif o != snap:
            return f"{snap} became {o}"
    return None


def _index_object(w):
    import numpy as np
    kind = w[1]
    if kind == "mask":
        return _layout(np.array(_parse_bits(w[2]), dtype=bool), _dt(w))
    if kind == "smask":
        bits = _parse_bits(w[2])
        inter = np.zeros(2 * len(bits), dtype=bool)
        inter[::2] = bits
        return inter[::2]
    if kind == "blist":
        return [bool(b) for b in _parse_bits(w[2])]
    if kind == "arr":
        return _int_array(_parse_ints(w[2]), w)
    if kind == "list":
        return _parse_ints(w[2])
    if kind == "slice":
        return slice(_opt(w[2]), _opt(w[3]), _opt(w[4]))
    raise ValueError("bad index kind " + kind)


def _nb(bonds, types):
    return _pairs(zip(bonds.tolist(), types.tolist()))


def _do(st, w):
    """Execute one op on the real objects; returns the canonical `ok ...` text (exceptions propagate)."""
    import numpy as np
    from biotite.structure.bonds import BondList
    op = w[0]
    st.args = []
    if op in ("new", "aux", "new2"):
        width = 2 if op == "new2" else 3
        n, rows, variant = int(w[1]), _parse_rows(w[2], width), _dt(w)
        nn = _spell_int(n, n)
        if variant == "none" and not rows:
            bl = BondList(nn) if n % 2 else BondList(nn, None)           # default argument / explicit None
        else:
            arr = _int_array(rows, w, (-1, width))
            _remember(st, arr)
            bl = BondList(atom_count=nn, bonds=arr) if variant == "kw" else BondList(nn, arr)
        if op == "aux":
            st.aux = bl
        else:
            st.cur = bl
        return _state_line(bl)
    if op == "swap":
        st.cur, st.aux = st.aux, st.cur
        return _state_line(st.cur)
    if op == "dup":
        st.aux = st.cur.copy()
        return _state_line(st.aux)
    if op == "add":
        st.cur.add_bond(_sc(w[1], w), _sc(w[2], w), _spell_type(w[3], int(w[1]) + int(w[2]) + int(w[3])))
    elif op == "add2":
        st.cur.add_bond(_sc(w[1], w), _sc(w[2], w))                      # default bond_type
    elif op == "remove":
        st.cur.remove_bond(_sc(w[1], w), _sc(w[2], w))
    elif op == "remove_to":
        st.cur.remove_bonds_to(_sc(w[1], w))
    elif op == "remove_bonds":
        st.cur.remove_bonds(st.aux)
    elif op == "merge":
        st.cur = st.cur.merge(st.aux)
    elif op == "concat":
        k = int(st.cur.get_bond_count()) + int(st.aux.get_bond_count())
        st.cur = (st.cur + st.aux) if k % 2 == 0 else BondList.concatenate((st.cur, st.aux))
    elif op == "concat3":
        parts = [st.cur, st.aux, st.cur]
        k = int(st.cur.get_bond_count()) + int(st.aux.get_bond_count())
        st.cur = BondList.concatenate(parts if k % 3 == 0 else tuple(parts) if k % 3 == 1 else (p for p in parts))
    elif op == "offset":
        st.cur.offset_indices(_spell_int(w[1], int(w[1])))
    elif op == "rm_arom":
        st.cur.remove_aromaticity()
    elif op == "rm_order":
        st.cur.remove_bond_order()
    elif op == "getitem" and w[1] == "int":
        return "ok " + _nb(*st.cur[_sc(w[2], w)])
    elif op == "getitem":
        ix = _index_object(w)
        _remember(st, ix)
        st.cur = st.cur[ix]
    elif op == "get_bonds":
        return "ok " + _nb(*st.cur.get_bonds(_sc(w[1], w)))
    elif op == "all_bonds":
        b, t = st.cur.get_all_bonds()
        rows = []
        for rb, rt in zip(b.tolist(), t.tolist()):
            if any((x == -1) != (y == -1) for x, y in zip(rb, rt)):
                return "ok INCONSISTENT-PADDING"
            rows.append(_pairs((x, y) for x, y in zip(rb, rt) if x != -1))
        return "ok " + ("|".join(rows) if rows else "_")
    elif op == "adj":
        m = st.cur.adjacency_matrix()
        return "ok " + ("|".join("".join("1" if x else "0" for x in r) for r in m.tolist()) if len(m) else "_")
    elif op == "types":
        m = st.cur.bond_type_matrix()
        return "ok " + ("|".join(",".join(str(int(x)) for x in r) for r in m.tolist()) if len(m) else "_")
    elif op == "graph":
        g = st.cur.as_graph()
        return "ok " + _triples((min(a, b), max(a, b), int(d["bond_type"])) for a, b, d in g.edges(data=True))
    elif op == "contains":
        return "ok " + ("1" if (_sc(w[1], w), _sc(w[2], w)) in st.cur else "0")
    elif op == "eq":
        return "ok " + ("1" if st.cur == st.aux else "0")
    elif op == "count":
        return f"ok {int(st.cur.get_bond_count())} {int(st.cur.get_atom_count())}"
    else:
        raise ValueError("bad-op " + op)
    return _state_line(st.cur)


def _atom_indices(w):
    """The explicit atom indices an op carries (scalar index arguments only)."""
    op = w[0]
    if op in ("add", "add2", "remove", "contains"):
        return [int(w[1]), int(w[2])]
    if op in ("remove_to", "get_bonds"):
        return [int(w[1])]
    if op == "getitem" and w[1] == "int":
        return [int(w[2])]
    return []


def _risky(st, w):
    """Must this op be tried in a forked child first?  (unchecked C indexing may be reached)"""
    n = int(st.cur.get_atom_count())
    if w[0] != "contains" and any(not (-n <= i < n) for i in _atom_indices(w)):
        return True
    if w[0] == "getitem" and w[1] in ("mask", "smask") and len(_parse_bits(w[2])) != n:
        return True
    return False


def _ub_in_parent(st, w):
    """Risky ops that are never applied to the parent's objects: every scalar atom index outside [-n, n) (the model
    says error, crash, no-op or ub for them) and masks shorter than the atom count (ub).  Only a too long mask,
    which the code handles without unchecked accesses, is performed for real after the child survived it."""
    n = int(st.cur.get_atom_count())
    if any(not (-n <= i < n) for i in _atom_indices(w)):
        return True
    if w[0] == "getitem" and w[1] in ("mask", "smask"):
        return len(_parse_bits(w[2])) < n
    return False


def _exec(st, w):
    from common import sandbox
    try:
        if _risky(st, w):
            def child():
                try:
                    return _do(st, w)
                except Exception as e:  # noqa: BLE001
                    return "ERR:" + type(e).__name__
            r = sandbox.run_forked(child, timeout=30)
            if r[0] != "ok":
                return "CRASH" if r[0] == "crash" else "TIMEOUT"
            if _ub_in_parent(st, w) or r[1].startswith("ERR:"):
                return r[1]
        return _do(st, w)
    except Exception as e:  # noqa: BLE001
        return "ERR:" + type(e).__name__


def _run_impl_inner(case):
    st = _St()
    return [_exec(st, op.split()) for op in case["ops"]]


# ---- persistent forked worker -------------------------------------------------------------------------------------
# One child serves up to WORKER_BATCH histories (fresh BondList objects per history), so the fork + pickle cost is
# paid once per batch instead of twice per history.  Crash containment is kept: the parent never touches a BondList;
# if the worker dies or hangs, it is replaced and *that* history is re-run alone in its own child (`run_forked`),
# which decides whether the history itself kills the process.
WORKER_BATCH = 64


def _send(fd, obj):
    import pickle
    import struct
    data = pickle.dumps(obj)
    data = struct.pack("<Q", len(data)) + data
    while data:
        n = os.write(fd, data)
        data = data[n:]


def _recv(fd, timeout):
    """One framed message, or None on EOF / timeout."""
    import pickle
    import select
    import struct
    import time
    deadline = time.time() + timeout

    def read_n(n):
        buf = b""
        while len(buf) < n:
            left = deadline - time.time()
            if left <= 0:
                return None
            r, _, _ = select.select([fd], [], [], left)
            if not r:
                return None
            chunk = os.read(fd, n - len(buf))
            if not chunk:
                return None
            buf += chunk
        return buf
    head = read_n(8)
    if head is None:
        return None
    body = read_n(struct.unpack("<Q", head)[0])
    return None if body is None else pickle.loads(body)


def _serve(rfd, wfd):
    while True:
        msg = _recv(rfd, 3600)
        if msg is None:
            return
        kind, case = msg
        try:
            res = ("ok", _run_impl_inner(case) if kind == "impl" else _oracle_inner(case))
        except BaseException as e:  # noqa: BLE001
            res = ("err", type(e).__name__, str(e)[:300])
        _send(wfd, res)


class _Worker:
    def __init__(self):
        self.pid = None
        self.served = 0

    def start(self):
        import numpy, networkx                       # noqa: F401  (loaded once in the parent, inherited by the children)
        import biotite.structure.bonds              # noqa: F401
        p_r, c_w = os.pipe()
        c_r, p_w = os.pipe()
        pid = os.fork()
        if pid == 0:
            try:
                os.close(p_r)
                os.close(p_w)
                _serve(c_r, c_w)
            finally:
                os._exit(0)
        os.close(c_r)
        os.close(c_w)
        self.pid, self.r, self.w, self.served = pid, p_r, p_w, 0

    def stop(self, kill=False):
        import signal
        if self.pid is None:
            return
        for fd in (self.w, self.r):
            try:
                os.close(fd)
            except OSError:
                pass
        if kill:
            try:
                os.kill(self.pid, signal.SIGKILL)
            except OSError:
                pass
        try:
            os.waitpid(self.pid, 0)
        except OSError:
            pass
        self.pid = None

    def call(self, kind, case, timeout):
        """('ok', value) | ('err', class, msg) | None when the worker died or hung (it is replaced)."""
        if self.pid is None or self.served >= WORKER_BATCH:
            self.stop()
            self.start()
        self.served += 1
        try:
            _send(self.w, (kind, {k: v for k, v in case.items() if not k.startswith("_")}))
            res = _recv(self.r, timeout)
        except OSError:
            res = None
        if res is None:
            self.stop(kill=True)
        return res


_WORKER = _Worker()


def _stop_worker():
    _WORKER.stop(kill=True)


import atexit  # noqa: E402
atexit.register(_stop_worker)


def _in_child(kind, fn, case, timeout):
    """Result of fn(case) computed outside the parent: by the shared worker, or alone in its own child if the worker
    did not survive.  Returns the tuple of `sandbox.run_forked`."""
    from common import sandbox
    res = None
    if os.environ.get("VERIF_C02_NO_WORKER") != "1":
        res = _WORKER.call(kind, case, timeout)
    if res is None:
        import numpy, networkx                       # noqa: F401
        import biotite.structure.bonds              # noqa: F401
        res = sandbox.run_forked(fn, case, timeout=timeout)
    return res


def run_impl(case):
    """The whole history runs in a child process: a changed kernel that corrupts memory on *valid* input must not
    take the check down with it."""
    r = _in_child("impl", _run_impl_inner, case, 120)
    if r[0] == "ok":
        return r[1]
    return ["PROCESS-KILLED" if r[0] == "crash" else r[0].upper()]


# ---------------------------------------------------------------- property oracle (independent of the Lean model)
def _expected_sel(n, w):
    """numpy is the oracle for index objects: the selected atoms in order, or the exception class."""
    import numpy as np
    try:
        return [int(x) for x in np.arange(n)[_index_object(w)]]
    except Exception as e:  # noqa: BLE001
        return type(e).__name__


SMALL_N = 48            # all atoms / all pairs are checked one by one
MATRIX_N = 2000         # n x n matrices are built and compared as arrays
TABLE_N = 10 ** 6       # anything that allocates O(n) in the code under test (get_all_bonds, the constructor)


def _sample_atoms(n, ref):
    if n <= SMALL_N:
        return list(range(n))
    ks = set(range(4)) | set(range(n - 4, n)) | {i for pr in list(ref.m)[:12] for i in pr}
    return sorted(k for k in ks if 0 <= k < n)


def _views_disagree(bl, ref):
    """Compare every view of the real object with the reference mapping; returns [(view, message)].
    Up to 48 atoms everything is checked exhaustively; on larger lists per-atom views are sampled (first / last atoms
    and the bonded ones), matrices are compared as arrays up to 2000 atoms, and views that allocate O(n) or O(n^2)
    in the code under test are skipped beyond 10^6 / 2000 atoms."""
    import numpy as np
    out = []
    n = int(bl.get_atom_count())
    exp = ref.triples()
    arr = [tuple(int(x) for x in r) for r in bl.as_array().tolist()]
    if n != ref.n:
        out.append(("atom_count", f"{n} != {ref.n}"))
    if sorted(arr) != exp:
        out.append(("as_array", f"{sorted(arr)} != {exp}"))
    if bl.as_set() != set(exp) or len(bl.as_set()) != len(arr):
        out.append(("as_set", f"{sorted(bl.as_set())} != {exp}"))
    if bl.get_bond_count() != len(exp):
        out.append(("get_bond_count", f"{bl.get_bond_count()} != {len(exp)}"))
    if any(not (i <= j < n) for i, j, _ in arr):
        out.append(("canonical", f"unsorted or out-of-range pair in {arr} for {n} atoms"))
    if out:
        return out          # the per-atom views below do unchecked writes on a corrupted list
    if n > 2 ** 32 - 1:
        # only reachable through offset_indices: the atom count no longer converts to the uint32 the methods take
        try:
            bl.get_bonds(0)
            bl.copy()
            return []
        except OverflowError as e:
            return [("atom_count-beyond-uint32", f"{n} atoms: get_bonds / copy raise OverflowError ({e})")]
    deg = {}
    for i, j, _ in arr:
        deg[i] = deg.get(i, 0) + 1
        deg[j] = deg.get(j, 0) + 1
    maxdeg = max(deg.values()) if deg else 0
    cached = getattr(bl, "_max_bonds_per_atom", None)
    if n and cached is not None and maxdeg > int(cached):
        return [("max_bonds_per_atom", f"cached {cached} < degree {maxdeg}")]
    atoms = _sample_atoms(n, ref)
    ab = at = None
    if n <= TABLE_N:
        ab, at = bl.get_all_bonds()
        if ab.shape[0] != n or at.shape != ab.shape:
            out.append(("get_all_bonds", f"shape {ab.shape}"))
    for k in atoms:
        want = ref.neighbours(k)
        for idx in (k, k - n):
            if not INT32[0] <= idx <= INT32[1]:
                continue        # not addressable through an int32 argument (huge lists: own stream, own finding)
            b, t = bl.get_bonds(idx)
            if sorted(zip(b.tolist(), t.tolist())) != want:
                out.append(("get_bonds", f"get_bonds({idx}) = {list(zip(b.tolist(), t.tolist()))}, expected {want}"))
            b2, t2 = bl[idx]
            if sorted(zip(b2.tolist(), t2.tolist())) != want:
                out.append(("getitem_int", f"[{idx}] differs from {want}"))
            # the same number as a NumPy integer scalar (what np.where / np.argmax / iterating an index array give)
            names = [d for d, (lo, hi) in sorted(DT_RANGE.items()) if lo <= idx <= hi]
            for dname in (names[(k + idx) % len(names)],):
                npi = _np_type(dname)(idx)
                for vname, call in (("getitem_int", lambda: bl[npi]), ("get_bonds", lambda: bl.get_bonds(npi))):
                    try:
                        b3, t3 = call()
                        got3 = sorted(zip(b3.tolist(), t3.tolist()))
                    except Exception as e:  # noqa: BLE001
                        got3 = "ERR:" + type(e).__name__
                    if got3 != want:
                        out.append((vname + "-numpy-scalar", f"index np.{np.dtype(_np_type(dname)).name}({idx}) -> {got3}, expected {want}"))
        if ab is not None:
            row = sorted((x, y) for x, y in zip(ab[k].tolist(), at[k].tolist()) if x != -1 or y != -1)
            if row != want:
                out.append(("get_all_bonds", f"row {k} = {row}, expected {want}"))
    g = bl.as_graph()
    edges = sorted((min(a, b), max(a, b), int(d["bond_type"])) for a, b, d in g.edges(data=True))
    if edges != exp:
        out.append(("as_graph", f"{edges} != {exp}"))
    if n <= MATRIX_N:
        adj = bl.adjacency_matrix()
        tm = bl.bond_type_matrix()
        want_adj = np.zeros((n, n), dtype=bool)
        want_tm = np.full((n, n), -1, dtype=np.int64)
        for (i, j), t in ref.m.items():
            want_adj[i, j] = want_adj[j, i] = True
            want_tm[i, j] = want_tm[j, i] = t
        if adj.shape != (n, n) or not np.array_equal(adj, want_adj):
            bad = np.argwhere(adj != want_adj)[:1].tolist() if adj.shape == (n, n) else adj.shape
            out.append(("adjacency_matrix", f"differs from the mapping at {bad}"))
        if tm.shape != (n, n) or not np.array_equal(tm.astype(np.int64), want_tm):
            bad = np.argwhere(tm != want_tm)[:1].tolist() if tm.shape == (n, n) else tm.shape
            out.append(("bond_type_matrix", f"differs from the mapping at {bad}"))
    # membership: every pair of the sampled atoms, every bonded pair, and non-negative indices beyond the atom count
    pairs = {(i, j) for i in atoms for j in atoms} if n <= SMALL_N else \
        ({(i, j) for i in atoms[:8] for j in atoms[:8]} | set(ref.m) | {(j, i) for i, j in ref.m})
    for i, j in sorted(pairs):
        if ((i, j) in bl) != (Ref.key(i, j) in ref.m):
            out.append(("contains", f"({i},{j}) in bonds = {(i, j) in bl}"))
    for i, j in ((n, 0), (0, n), (n + 3, n + 5)):
        if max(i, j) <= 2 ** 32 - 1 and ((i, j) in bl):
            out.append(("contains", f"({i},{j}) in bonds is True for {n} atoms"))
    # less-used entry points: str, iteration refused, comparison with a foreign object, !=, copy()
    if str(bl) != str(bl.as_array()):
        out.append(("str", f"{str(bl)!r}"))
    try:
        iter(bl)
        out.append(("iter", "iter(bonds) did not raise"))
    except TypeError:
        pass
    if bl == 3 or not (bl != 3) or bl == None:  # noqa: E711
        out.append(("eq", "equal to an object that is no BondList"))
    cp = bl.copy()
    if not (cp == bl) or cp != bl or cp.as_set() != set(exp) or np.shares_memory(cp.as_array(), bl.as_array()):
        out.append(("copy", "copy() differs from the list"))
    if getattr(cp, "_max_bonds_per_atom", None) is not None and int(cp._max_bonds_per_atom) < maxdeg:
        out.append(("copy", "copy() has a too small cached maximum"))
    # equality: equal to a list rebuilt from the mapping, different from every one-step neighbour of it
    if n <= TABLE_N:
        same = _mk(n, [list(x) for x in reversed(exp)], 3)
        if not (bl == same) or not (same == bl):
            out.append(("eq", "not equal to a list built from the same mapping"))
        if bl == _mk(n + 1, [list(x) for x in exp], 3):
            out.append(("eq", "equal to a list with a different atom count"))
        if exp:
            if bl == _mk(n, [list(x) for x in exp[1:]], 3):
                out.append(("eq", "equal to a list with one bond less"))
            i, j, t = exp[0]
            if bl == _mk(n, [[i, j, (t + 1) % 10]] + [list(x) for x in exp[1:]], 3):
                out.append(("eq", "equal to a list with a different bond type"))
    return out[:4]


# ---- views are values: no aliasing between a handed-out object and the list ------------------------------------------
def _graph_edges(g):
    return sorted((min(int(a), int(b)), max(int(a), int(b)), int(d["bond_type"])) for a, b, d in g.edges(data=True))


def _grab_views(bl):
    """view name -> (returned object, frozen snapshot) for every view that returns an array or a container.
    Only called on a list that just passed `_views_disagree` (canonical, cached maximum large enough)."""
    out = {}
    a = bl.as_array()
    out["as_array"] = (a, a.copy())
    s = bl.as_set()
    out["as_set"] = (s, frozenset(s))
    nn = int(bl.get_atom_count())
    heavy = [("get_all_bonds", bl.get_all_bonds)] if nn <= TABLE_N else []
    heavy += [("adjacency_matrix", bl.adjacency_matrix), ("bond_type_matrix", bl.bond_type_matrix)] if nn <= MATRIX_N else []
    for name, fn in heavy:
        r = fn()
        out[name] = (r, tuple(x.copy() for x in r) if isinstance(r, tuple) else r.copy())
    g = bl.as_graph()
    out["as_graph"] = (g, _graph_edges(g))
    if int(bl.get_atom_count()) > 0:
        r = bl.get_bonds(0)
        out["get_bonds"] = (r, tuple(x.copy() for x in r))
        r = bl[-1]
        out["getitem_int"] = (r, tuple(x.copy() for x in r))
    return out


def _same(obj, snap):
    import numpy as np
    if isinstance(obj, tuple):
        return len(obj) == len(snap) and all(_same(o, s) for o, s in zip(obj, snap))
    if isinstance(obj, np.ndarray):
        return obj.shape == snap.shape and obj.dtype == snap.dtype and bool(np.array_equal(obj, snap))
    if isinstance(obj, (set, frozenset)):
        return obj == snap
    return _graph_edges(obj) == snap


def _scribble(obj):
    """Overwrite a returned object in place wherever it is writable (what a caller is free to do with a value)."""
    import numpy as np
    if isinstance(obj, tuple):
        for o in obj:
            _scribble(o)
    elif isinstance(obj, np.ndarray):
        if obj.size and obj.flags.writeable:
            obj[...] = 77 if obj.dtype != bool else ~obj
    elif isinstance(obj, set):
        obj.clear()
        obj.add((98, 99, 9))
    else:
        from biotite.structure.bonds import BondType
        for _a, _b, d in obj.edges(data=True):
            d["bond_type"] = BondType.QUADRUPLE
        obj.add_edge(98, 99, bond_type=BondType.TRIPLE)


def _alias_problems(st, refs, held, opname, hist):
    """(i) objects handed out before this op still equal their snapshots; (ii) editing freshly returned objects leaves
    the list as it was.  Returns [(key, message)]."""
    for v, (o, snap) in held.items():
        if not _same(o, snap):
            return [(f"C02/{v}/returned-object-changed-by-later-{opname}",
                     f"after {hist}: the object returned by {v} before `{hist[-1]}` changed retroactively (it aliases the list)")]
    line = _state_line(st.cur)
    for v, (o, _snap) in _grab_views(st.cur).items():
        _scribble(o)
        now = _state_line(st.cur)
        if now != line:
            return [(f"C02/{v}/edit-of-returned-object-changes-list",
                     f"after {hist}: overwriting the object returned by {v} changed the list from `{line}` to `{now}`")]
    if _views_disagree(st.cur, refs["cur"]):
        return [("C02/views/edit-of-returned-object-changes-list", f"after {hist}: a view differs from the mapping after returned objects were overwritten")]
    return []


def _ctor_alias_problems(n, rows, width):
    """The array passed to BondList(...) is neither modified nor kept: pass it, compare, overwrite it, compare the list."""
    import numpy as np
    from biotite.structure.bonds import BondList
    dtypes = [np.int64] + ([np.uint32] if all(x >= 0 for r in rows for x in r) else [])
    for dt in dtypes:
        arr = np.array(rows, dtype=dt).reshape(-1, width)
        keep = arr.copy()
        bl = BondList(n, arr)
        if not np.array_equal(arr, keep):
            return [("C02/new/input-array-modified", f"BondList({n}, {keep.tolist()}) ({np.dtype(dt).name}) changed its argument to {arr.tolist()}")]
        line = _state_line(bl)
        if arr.size:
            arr[...] = 0
        if _state_line(bl) != line:
            return [("C02/new/input-array-aliased", f"BondList({n}, {keep.tolist()}) ({np.dtype(dt).name}) keeps its argument: overwriting it changed the list from `{line}` to `{_state_line(bl)}`")]
    return []



def _index_class(n, i):
    if i < INT32[0] or i > INT32[1]:
        return "outside-int32"
    if i >= n:
        return "index-at-or-above-n"
    if i == -n - 1:
        return "index-minus-n-minus-1"
    if i < -n:
        return "index-below-minus-n-minus-1"
    return "in-range"


OPNAME = {"add": "add_bond", "add2": "add_bond", "remove": "remove_bond", "remove_to": "remove_bonds_to", "get_bonds": "get_bonds",
          "getitem": "getitem", "contains": "contains"}


def _ref_step(refs, w, as_code=False):
    """Apply one op to the reference.  Returns ('ok', None) | ('reject', ExceptionClass or None) | ('view', None).
    'reject' = a rejection that leaves the list unchanged is required; the class is a name or a '|'-separated set of
    names: exactly the exceptions the documented contract allows for that input class (never "any exception")."""
    cur, aux = refs["cur"], refs["aux"]
    op = w[0]
    if as_code:
        # generator bookkeeping follows the code where it is known to deviate (known findings)
        d = _dt(w)
        narrow = d in DT_RANGE and DT_RANGE[d][1] < 2 ** 63 - 1
        if op in ("new", "aux", "new2") and narrow and w[2] != "_" and int(w[1]) > DT_RANGE[d][1]:
            return ("reject", None)
        if op == "getitem" and w[1] == "arr" and narrow and cur.n > DT_RANGE[d][1]:
            return ("reject", None)
        if op in ("concat", "concat3") and cur.n * (2 if op == "concat3" else 1) + aux.n > INT32[1]:
            return ("reject", None)
    if op in ("new", "aux", "new2"):
        width = 2 if op == "new2" else 3
        n = int(w[1])
        if n > 2 ** 32 - 1:
            return ("reject", "OverflowError")             # the atom count is a uint32
        r = Ref.construct(n, _parse_rows(w[2], width))
        if r == "index":
            return ("reject", "IndexError")
        if r == "type":
            return ("reject", "ValueError")            # "BondType … is invalid", also for negative types
        refs["aux" if op == "aux" else "cur"] = r
        return ("ok", None)
    if op == "swap":
        refs["cur"], refs["aux"] = aux, cur
        return ("ok", None)
    if op == "dup":
        refs["aux"] = cur.copy()
        return ("ok", None)
    idx = _atom_indices(w)
    if op == "add2":
        w = [w[0], w[1], w[2], "0"] + w[3:]                               # default bond type ANY
        op = "add"
    if op == "add" and not 0 <= int(w[3]) <= 9:
        bad_index = any(cur.norm(i) is None for i in _atom_indices(w))
        # a type >= len(BondType) is a ValueError; a negative one is refused by the unsigned store (OverflowError) or as
        # an invalid type; with a bad index as well the statement does not say which reason wins
        allowed = {"ValueError"} | ({"OverflowError"} if int(w[3]) < 0 else set()) | ({"IndexError"} if bad_index else set())
        return ("reject", "|".join(sorted(allowed)))
    if op != "contains" and any(cur.norm(i) is None for i in idx):
        return ("reject", "IndexError")
    if op == "add":
        t = int(w[3])
        cur.m[Ref.key(cur.norm(idx[0]), cur.norm(idx[1]))] = t          # the new type on update
    elif op == "remove":
        cur.m.pop(Ref.key(cur.norm(idx[0]), cur.norm(idx[1])), None)
    elif op == "remove_to":
        k = cur.norm(idx[0])
        cur.m = {p: t for p, t in cur.m.items() if k not in p}
    elif op == "remove_bonds":
        cur.m = {p: t for p, t in cur.m.items() if p not in aux.m}
    elif op == "merge":
        r = Ref(max(cur.n, aux.n), cur.m)
        r.m.update(aux.m)                                                  # the argument on merge
        refs["cur"] = r
    elif op in ("concat", "concat3"):
        parts = [cur, aux] + ([cur] if op == "concat3" else [])
        r, off = Ref(0), 0
        for p in parts:
            for (i, j), t in p.m.items():
                r.m[(i + off, j + off)] = t
            off += p.n
        r.n = off
        refs["cur"] = r
    elif op == "offset":
        k = int(w[1])
        if k < 0 or k > INT32[1]:
            return ("reject", "ValueError" if k < 0 and k >= INT32[0] else "OverflowError|ValueError")
        cur.m = {(i + k, j + k): t for (i, j), t in cur.m.items()}
        cur.n += k
    elif op == "rm_arom":
        cur.m = {p: AROM.get(t, t) for p, t in cur.m.items()}
    elif op == "rm_order":
        cur.m = {p: 0 for p in cur.m}
    elif op == "getitem" and w[1] != "int":
        if as_code and w[1] == "smask" and len(_parse_bits(w[2])) >= 2:
            return ("reject", None)        # generator bookkeeping follows the code (known finding): ValueError
        if as_code and ((w[1] == "arr" and _dt(w) == "be") or (w[1] in ("mask", "smask") and _dt(w) == "ro")):
            return ("reject", None)        # known findings: memoryview refuses byte-swapped arrays / read-only masks
        sel = _expected_sel(cur.n, w)
        if isinstance(sel, str):
            return ("reject", sel)                     # the class numpy itself raises for this index object
        if len(set(sel)) != len(sel):
            return ("reject", "NotImplementedError")                       # documented: duplicates unsupported
        refs["cur"] = cur.select(sel)
    else:
        return ("view", None)
    return ("ok", None)


def _finding_key(w, n, got):
    """Specific key for an op that was required to be rejected (or to succeed) and was not."""
    op = OPNAME.get(w[0], w[0])
    idx = _atom_indices(w)
    d = _dt(w)
    narrow = d in DT_RANGE and DT_RANGE[d][1] < 2 ** 63 - 1
    if w[0] in ("new", "aux", "new2"):
        if got == "ERR:OverflowError" and narrow and int(w[1]) > DT_RANGE[d][1] and int(w[1]) <= 2 ** 32 - 1:
            return "C02/new/narrow-dtype-bond-array-OverflowError"
        if got.startswith("ok") and w[0] != "new2" and any(r[2] < 0 for r in _parse_rows(w[2], 3)):
            return "C02/new/negative-bond-type-accepted"
        return "C02/new/mismatch"
    if w[0] == "getitem" and w[1] == "arr" and got == "ERR:OverflowError" and narrow and n > DT_RANGE[d][1]:
        return "C02/getitem/narrow-dtype-index-array-OverflowError"
    if idx and w[0] != "contains" and all(-n <= i < n for i in idx) and got == "ERR:OverflowError" \
            and any(not INT32[0] <= i <= INT32[1] for i in idx):
        return f"C02/{op}/valid-index-outside-int32-OverflowError"
    if w[0] in ("concat", "concat3") and got == "ERR:OverflowError":
        return "C02/concatenate/total-atom-count-above-int32-OverflowError"
    bad = [i for i in idx if not (-n <= i < n)]
    if bad and w[0] != "contains":
        first = bad[0]
        if got == "ERR:OverflowError":
            first = next((i for i in bad if not INT32[0] <= i <= INT32[1]), first)   # the index that overflowed
        elif got == "CRASH":
            # an index below -n-1 is accepted (wraps) and the call goes on: if another index is exactly -n-1 it is that
            # one which hits the `except -1` sentinel and kills the process — the class of the crash, whatever the order
            first = next((i for i in bad if i == -n - 1), first)
        cls = _index_class(n, first)
        what = "crash" if got == "CRASH" else ("accepted" if got.startswith("ok") else got.replace("ERR:", ""))
        return f"C02/{op}/{cls}/{what}"
    if w[0] == "getitem" and w[1] == "arr" and _dt(w) == "be" and got == "ERR:ValueError":
        return "C02/getitem/byte-swapped-index-array-ValueError"
    if w[0] == "getitem" and w[1] in ("mask", "smask") and _dt(w) == "ro" and got == "ERR:ValueError" \
            and len(_parse_bits(w[2])) == n:
        return "C02/getitem/read-only-mask-ValueError"
    if w[0] == "getitem" and w[1] in ("mask", "smask"):
        m = len(_parse_bits(w[2]))
        if m < n:
            return "C02/getitem/mask-shorter-than-atom-count"
        if m > n:
            return "C02/getitem/mask-longer-than-atom-count"
        if w[1] == "smask":
            return "C02/getitem/non-contiguous-mask-ValueError"
    if w[0] == "contains" and any(i < 0 for i in idx):
        return "C02/contains/negative-index-OverflowError"
    return f"C02/{op}/mismatch"


def oracle(case):
    """`_oracle_inner` in a child process (shared worker, or alone after a crash); if the child is killed, the killing op is located by replaying prefixes."""
    from common import sandbox
    r = _in_child("oracle", _oracle_inner, case, 300)
    if r[0] == "ok":
        return r[1]
    if r[0] == "err":
        raise RuntimeError(f"oracle raised {r[1]}: {r[2]}")
    ops = list(case.get("ops") or [])
    for k in range(1, len(ops) + 1):
        rk = sandbox.run_forked(_oracle_inner, {"kind": case.get("kind"), "ops": ops[:k]}, timeout=300)
        if rk[0] != "ok":
            w = ops[k - 1].split()
            return [(f"C02/{OPNAME.get(w[0], w[0])}/process-killed", f"after {ops[:k - 1]}: `{ops[k - 1]}` (accepted by the mapping) killed the process ({rk[0]})")]
    return [("C02/history/process-killed", f"the history {ops} killed the process ({r[0]})")]


def _oracle_inner(case):
    """Replay the history on the real code and on the reference mapping written from the statement:
    after every accepted op all views must agree with the mapping; every required rejection must be an exception
    (IndexError where the statement says so) that leaves both lists unchanged; nothing may kill the process."""
    from common import sandbox
    st = _St()
    refs = {"cur": Ref(0), "aux": Ref(0)}
    viol = []
    from biotite.structure.bonds import BondType
    for t in range(10):
        if int(BondType(t).without_aromaticity()) != AROM.get(t, t):
            viol.append((f"C02/BondType.without_aromaticity/{BondType(t).name}", f"{BondType(t).name}.without_aromaticity() = {BondType(t).without_aromaticity().name}"))
    if len(BondType) != 10 or sorted(int(b) for b in BondType) != list(range(10)):
        viol.append(("C02/BondType/members", f"{[(b.name, int(b)) for b in BondType]}"))
    held = {}
    lines = list(case.get("ops") or []) + list(case.get("probes") or [])
    n_ops = len(case.get("ops") or [])
    for k, line in enumerate(lines):
        w = line.split()
        probe = k >= n_ops
        n = refs["cur"].n
        before = {x: r.copy() for x, r in refs.items()}
        kind, cls = _ref_step(refs, w)
        if kind == "view":
            # contains with an in-range negative index: the statement's membership view
            if w[0] in ("get_bonds", "getitem"):
                # an explicit neighbour query with an index in [-n, n) (any spelling): the mapping's incident pairs
                i = _atom_indices(w)[0]
                want = "ok " + _pairs(refs["cur"].neighbours(refs["cur"].norm(i)))
                got = _exec(st, w)
                if got != want:
                    viol.append((_finding_key(w, n, got), f"after {lines[:k]}: `{line}` -> {got}, the mapping says {want}"))
            if w[0] == "contains":
                i, j = int(w[1]), int(w[2])
                if refs["cur"].norm(i) is not None and refs["cur"].norm(j) is not None:
                    want = Ref.key(refs["cur"].norm(i), refs["cur"].norm(j)) in refs["cur"].m
                    got = _exec(st, w)
                    if got != "ok " + ("1" if want else "0"):
                        viol.append((_finding_key(w, n, got), f"after {lines[:k]}: `{line}` -> {got}, mapping says {want}"))
            continue
        if kind == "reject" or probe:
            # run in a child: outcome + state afterwards
            def child():
                try:
                    r = _do(st, w)
                except Exception as e:  # noqa: BLE001
                    r = "ERR:" + type(e).__name__
                return r, _state_line(st.cur), _state_line(st.aux)
            res = sandbox.run_forked(child, timeout=30)
            got = res[1][0] if res[0] == "ok" else "CRASH"
            if kind == "reject":
                refs.update(before)
                ok = got.startswith("ERR:") and (cls is None or got[4:] in cls.split("|"))
                if got.startswith("ERR:"):
                    # the child survived and raised: let the *same objects* the history goes on with see the refused
                    # call, then every view, the cached maximum and the arguments must be as before
                    try:
                        _do(st, w)
                        again = "ok"
                    except Exception as e:  # noqa: BLE001
                        again = "ERR:" + type(e).__name__
                    opn = OPNAME.get(w[0], w[0])
                    if again != got:
                        viol.append((f"C02/{opn}/refused-call-not-reproducible", f"`{line}` raised {got} in a child and {again} on the history's objects"))
                        break
                    bad = _views_disagree(st.cur, refs["cur"]) + [("aux." + v, m) for v, m in _views_disagree(st.aux, refs["aux"])[:1]]
                    if bad:
                        viol.append((f"C02/{opn}/refused-call-changed-{bad[0][0]}", f"after {lines[:k]}: `{line}` raised {got} but {bad[0][0]}: {bad[0][1]}"))
                        break
                    ch = _args_changed(st)
                    if ch:
                        viol.append((f"C02/{opn}/refused-call-changed-argument", f"`{line}` raised {got} and changed its argument: {ch}"))
                        break
                if ok and (res[1][1] != f"ok {before['cur'].n} {_triples(before['cur'].triples())}"
                           or res[1][2] != f"ok {before['aux'].n} {_triples(before['aux'].triples())}"):
                    viol.append((f"C02/{OPNAME.get(w[0], w[0])}/rejected-but-changed", f"`{line}` raised {got} but the list changed: {res[1][1]}"))
                if not ok:
                    viol.append((_finding_key(w, n, got),
                                 f"after {lines[:k]}: `{line}` on {n} atoms -> {got}; the statement requires "
                                 f"{cls or 'a rejection'} and an unchanged list"))
                continue
            # a probe that the reference accepts: compare state in the child only
            refs_after = refs["cur"]
            if got == "CRASH" or got.startswith("ERR:") or res[1][1] != f"ok {refs_after.n} {_triples(refs_after.triples())}":
                viol.append((_finding_key(w, n, got), f"probe `{line}` -> {got} {res[1][1] if res[0] == 'ok' else ''}, expected ok {refs_after.n} {_triples(refs_after.triples())}"))
            refs.update(before)
            continue
        got = _exec(st, w)
        if got == "CRASH" or got.startswith("ERR:"):
            viol.append((_finding_key(w, n, got), f"after {lines[:k]}: `{line}` -> {got}, the mapping accepts it"))
            refs.update(before)       # the real objects did not change: continue from the same state
            continue
        bad = _views_disagree(st.cur, refs["cur"]) + [("aux." + v, m) for v, m in _views_disagree(st.aux, refs["aux"])[:1]]
        if bad:
            v, msg = bad[0]
            key = f"C02/{OPNAME.get(w[0], w[0])}/view-{v}"
            if w[0] == "offset" and refs["cur"].n > 2 ** 32 - 1:
                key = "C02/offset_indices/atom-count-beyond-uint32"
            viol.append((key, f"after {lines[:k + 1]}: {v}: {msg}"))
            break
        ch = _args_changed(st)
        if ch:
            viol.append((f"C02/{OPNAME.get(w[0], w[0])}/argument-changed", f"after {lines[:k]}: `{line}` changed its argument: {ch}"))
            break
        # views are values: nothing handed out earlier changed, editing what is handed out now changes nothing
        ap = _alias_problems(st, refs, held, OPNAME.get(w[0], w[0]), lines[:k + 1])
        if not ap and w[0] in ("new", "aux", "new2"):
            width = 2 if w[0] == "new2" else 3
            ap = _ctor_alias_problems(int(w[1]), _parse_rows(w[2], width), width)
        if ap:
            viol += ap
            break
        held = _grab_views(st.cur)
    # one key per case
    seen, out = set(), []
    for key, msg in viol:
        if key not in seen:
            seen.add(key)
            out.append((key, msg))
    return out


# ---------------------------------------------------------------- generator
def _rand_rows(rng, n, width=3, k=None):
    if n == 0:
        return []
    k = rng.choice([0, 1, 2, 3, 4, 6, 9]) if k is None else k
    rows = []
    for _ in range(k):
        r = rng.random()
        if rows and r < 0.25:
            a, b = rows[rng.randrange(len(rows))][:2]          # duplicate pair (maybe reversed / other sign)
            if rng.random() < 0.5:
                a, b = b, a
        elif r < 0.32:
            a = b = rng.randrange(-n, n)                        # self bond
        else:
            a, b = rng.randrange(-n, n), rng.randrange(-n, n)
        if rng.random() < 0.3:
            a = a - n if a >= 0 else a + n                      # same atom, other sign
        rows.append([a, b] + ([rng.randrange(10)] if width == 3 else []))
    return rows


def _rows_text(rows):
    return ";".join(",".join(str(x) for x in r) for r in rows) if rows else "_"


def _rand_index(rng, n):
    """A valid index object for n atoms (no duplicates)."""
    kind = rng.choice(["mask", "mask", "arr", "arr", "list", "blist", "slice", "slice", "smask"])
    if kind in ("mask", "blist", "smask"):
        bits = [rng.random() < 0.65 for _ in range(n)]
        return f"getitem {kind} {_bits(bits)}" + (" @ro" if kind == "mask" and rng.random() < 0.08 else "")
    if kind in ("arr", "list"):
        sel = rng.sample(range(n), rng.randint(0, n)) if n else []
        if rng.random() < 0.5:
            sel.sort()
        sel = [i - n if rng.random() < 0.3 else i for i in sel]
        return f"getitem {kind} {_ints(sel)}" + (_tok(rng, sel, 0.6, ("ro", "sr", "sr", "ro", "be"), 0.3) if kind == "arr" else "")
    lim = n + 2

    def b():
        return "-" if rng.random() < 0.35 else str(rng.randint(-lim, lim))
    step = rng.choice(["-", "1", "2", "3", "-1", "-2", "-3", str(rng.randint(-lim, lim) or 1)])
    return f"getitem slice {b()} {b()} {step}"


def _valid_op(rng, refs):
    cur, aux = refs["cur"], refs["aux"]
    n = cur.n
    kinds = ["add"] * 5 + ["remove"] * 3 + ["remove_to"] * 2 + ["getitem"] * 4 + ["view"] * 5 + \
            ["remove_bonds", "merge", "merge", "concat", "concat3", "offset", "rm_arom", "rm_order", "swap", "dup", "aux", "aux", "new", "new2"]
    k = rng.choice(kinds)
    if n == 0 and k in ("add", "remove", "remove_to"):
        k = rng.choice(["new", "concat", "offset", "swap", "view"])
    if k in ("concat", "concat3") and cur.n * (3 if k == "concat3" else 1) + aux.n > MAX_N:
        k = "getitem"
    if k == "offset" and n + 3 > MAX_N:
        k = "view"
    if k == "add":
        if cur.m and rng.random() < 0.35:
            i, j = rng.choice(sorted(cur.m))                     # update an existing bond
            if rng.random() < 0.5:
                i, j = j, i
        else:
            i, j = rng.randrange(n), rng.randrange(n)
        i, j = [x - n if rng.random() < 0.3 else x for x in (i, j)]
        if rng.random() < 0.15:
            return f"add2 {i} {j}" + _tok(rng, [i, j], 0.35)                 # default bond type
        return f"add {i} {j} {rng.randrange(10)}" + _tok(rng, [i, j], 0.35)
    if k == "remove":
        if cur.m and rng.random() < 0.7:
            i, j = rng.choice(sorted(cur.m))
            if rng.random() < 0.5:
                i, j = j, i
        else:
            i, j = rng.randrange(n), rng.randrange(n)
        i, j = [x - n if rng.random() < 0.3 else x for x in (i, j)]
        return f"remove {i} {j}" + _tok(rng, [i, j], 0.35)
    if k == "remove_to":
        i = rng.randrange(-n, n)
        return f"remove_to {i}" + _tok(rng, [i], 0.35)
    if k == "getitem":
        return _rand_index(rng, n)
    if k == "view":
        v = rng.choice(["get_bonds", "getitem_int", "all_bonds", "adj", "types", "graph", "contains", "eq", "count"])
        if v in ("get_bonds", "getitem_int", "contains") and n == 0:
            v = "count"
        if v == "get_bonds":
            i = rng.randrange(-n, n)
            return f"get_bonds {i}" + _tok(rng, [i])
        if v == "getitem_int":
            i = rng.randrange(-n, n)
            return f"getitem int {i}" + _tok(rng, [i], 0.7)
        if v == "contains":
            if cur.m and rng.random() < 0.5:
                i, j = rng.choice(sorted(cur.m))
                if rng.random() < 0.5:
                    i, j = j, i
                return f"contains {i} {j}" + _tok(rng, [i, j], 0.35)
            i, j = rng.randrange(n + 2), rng.randrange(n + 2)
            return f"contains {i} {j}" + _tok(rng, [i, j], 0.35)
        return v
    if k in ("new", "aux"):
        m = rng.randint(0, 8)
        rows = _rand_rows(rng, m)
        return f"{k} {m} {_rows_text(rows)}" + _ctor_tok(rng, rows)
    if k == "new2":
        m = rng.randint(0, 8)
        rows = _rand_rows(rng, m, 2)
        return f"new2 {m} {_rows_text(rows)}" + _ctor_tok(rng, rows)
    if k == "offset":
        return f"offset {rng.randint(0, 3)}"
    return k


def _history(rng, length):
    refs = {"cur": Ref(0), "aux": Ref(0)}
    n0 = rng.randint(0, 8)
    rows0 = _rand_rows(rng, n0)
    ops = [f"new {n0} {_rows_text(rows0)}" + _ctor_tok(rng, rows0, 0.4)]
    if rng.random() < 0.6:
        n1 = rng.randint(0, 8)
        rows1 = _rand_rows(rng, n1)
        ops.append(f"aux {n1} {_rows_text(rows1)}" + _ctor_tok(rng, rows1, 0.4))
    for op in ops:
        _ref_step(refs, op.split(), as_code=True)
    while len(ops) < length:
        op = _valid_op(rng, refs)
        _ref_step(refs, op.split(), as_code=True)
        ops.append(op)
    return ops, refs


def _malformed_op(rng, refs):
    """An input outside the accepted domain whose outcome the model still determines."""
    n = refs["cur"].n
    r = rng.random()
    big = rng.choice([2 ** 31, -2 ** 31 - 1, 2 ** 40])
    bad_hi = rng.choice([n, n + 1, n + 7, 2 ** 31 - 1])
    bad_lo = rng.choice([-n - 1, -n - 1, -n - 2, -n - 5, -2 ** 31])
    ok = rng.randrange(-n, n) if n else 0
    if r < 0.18:
        i = rng.choice([bad_hi, bad_lo, big])
        return f"get_bonds {i}" + _tok(rng, [i], 0.3)
    if r < 0.26:
        i = rng.choice([bad_hi, bad_lo])
        return f"getitem int {i}" + _tok(rng, [i], 0.5)
    if r < 0.38:
        i = rng.choice([bad_hi, bad_lo, big])
        return rng.choice([f"remove {i} {ok}", f"remove {ok} {i}"]) if n else f"remove {i} {i}"
    if r < 0.46:
        return f"remove_to {rng.choice([bad_hi, bad_lo, big])}"
    if r < 0.58:
        # add with an index >= n, outside int32, or exactly -n-1 (sentinel crash); indices < -n-1 are probes (ub)
        i = rng.choice([bad_hi, -n - 1, big])
        j = ok if n else rng.choice([bad_hi, -1])
        return rng.choice([f"add {i} {j} {rng.randrange(10)}", f"add {j} {i} {rng.randrange(12)}"]) if n else f"add {i} {j} 1"
    if r < 0.64:
        return f"add {ok} {ok} {rng.choice([10, 11, 200, -1, -3])}" if n else "add 0 0 10"
    if r < 0.72:
        m = rng.randint(0, 5)
        rows = _rand_rows(rng, m, k=rng.randint(1, 3)) if m else [[0, 0, 1]]
        w = rng.randrange(len(rows))
        c = rng.random()
        if c < 0.4:
            rows[w][rng.randrange(2)] = rng.choice([m, m + 3, -m - 1, -m - 4])
        elif c < 0.6:
            rows[w][2] = rng.choice([10, 12, 255])
        elif c < 0.8:
            rows[w][2] = rng.choice([-1, -7, -128])      # passes the `>= len(BondType)` test (known finding)
        else:
            rows[w][0] = m
            rows[w][2] = 10
        return f"new {m} {_rows_text(rows)}" + _ctor_tok(rng, rows, 0.4)
    if r < 0.8:
        sel = [rng.randrange(-n, n) for _ in range(rng.randint(1, 4))] if n else [0]
        c = rng.random()
        if c < 0.5:
            sel[rng.randrange(len(sel))] = rng.choice([n, n + 2, -n - 1, -n - 3])
        else:
            sel.append(rng.choice(sel))           # duplicate (maybe through the other sign)
            if n and rng.random() < 0.5:
                sel[-1] = sel[-1] - n if sel[-1] >= 0 else sel[-1] + n
        kind = rng.choice(['arr', 'list'])
        return f"getitem {kind} {_ints(sel)}" + (_tok(rng, sel, 0.5, ("ro", "sr", "be"), 0.3) if kind == "arr" else "")
    if r < 0.86:
        return f"getitem slice - - 0"
    if r < 0.9:
        bits = [rng.random() < 0.6 for _ in range(max(0, n + rng.choice([-1, 1, 2])))]
        return f"getitem blist {_bits(bits)}"
    if r < 0.95:
        bits = [rng.random() < 0.6 for _ in range(n + rng.choice([1, 2, 3]))]     # too long: accepted by the code
        return f"getitem mask {_bits(bits)}"
    if r < 0.98:
        return f"offset {rng.choice([-1, -5, 2 ** 31])}"
    return f"contains {rng.choice([-1, -n, 2 ** 32])} {ok if n else 0}"


def _ub_probe(rng, refs):
    """Inputs on which the code performs unchecked accesses (model: ub): oracle only."""
    n = refs["cur"].n
    ok = rng.randrange(-n, n) if n else -2
    lo = rng.choice([-n - 2, -n - 3, -n - 9])
    if rng.random() < 0.7 or n < 1:
        return rng.choice([f"add {lo} {ok} 1", f"add {ok} {lo} 2"])
    bits = [rng.random() < 0.7 for _ in range(rng.randrange(n))]
    return f"getitem mask {_bits(bits)}"


def _near(rng, n):
    """an atom index of an n-atom list, biased to both ends, either sign"""
    return rng.choice([0, 1, 2, 5, n - 1, n - 2, n // 2, -1, -2, -n, -n + 1, rng.randrange(n), rng.randrange(-n, 0)])


def _medium_case(rng):
    """Lists of 127 … 40000 atoms: the atom count meets the limits of narrow integer dtypes (int8/uint8/int16/uint16) of
    bond arrays and index arrays; views are sampled by the oracle."""
    n = rng.choice([127, 128, 129, 255, 256, 257, 300, 32767, 32768, 40000])
    refs = {"cur": Ref(0), "aux": Ref(0)}
    rows = [[_near(rng, n), _near(rng, n), rng.randrange(10)] for _ in range(rng.randint(0, 4))]
    ops = [f"new {n} {_rows_text(rows)}" + _ctor_tok(rng, rows, 0.7)]
    _ref_step(refs, ops[0].split(), as_code=True)
    for _ in range(rng.randint(2, 7)):
        m = refs["cur"].n
        if m <= SMALL_N:
            op = _valid_op(rng, refs)
        else:
            k = rng.choice(["get_bonds", "getitem_int", "add", "add", "remove", "remove_to", "contains", "count", "arr", "arr",
                            "slice", "offset", "concat", "rm_arom", "dup", "renew"])
            i, j = _near(rng, m), _near(rng, m)
            if k == "get_bonds":
                op = f"get_bonds {i}" + _tok(rng, [i])
            elif k == "getitem_int":
                op = f"getitem int {i}" + _tok(rng, [i], 0.7)
            elif k == "add":
                op = f"add {i} {j} {rng.randrange(10)}" + _tok(rng, [i, j], 0.4)
            elif k == "remove":
                pr = rng.choice(sorted(refs["cur"].m)) if refs["cur"].m and rng.random() < 0.6 else (i % m, j % m)
                op = f"remove {pr[0]} {pr[1]}" + _tok(rng, list(pr), 0.4)
            elif k == "remove_to":
                op = f"remove_to {i}" + _tok(rng, [i], 0.4)
            elif k == "contains":
                op = f"contains {i % m} {j % m}"
            elif k == "arr":
                bonded = sorted({a for pr in refs["cur"].m for a in pr})
                pool = list(dict.fromkeys(bonded + [0, 1, m - 1, m - 2, m // 2]))
                sel = rng.sample(pool, rng.randint(0, min(6, len(pool))))
                sel = [a - m if rng.random() < 0.3 else a for a in sel]
                op = f"getitem arr {_ints(sel)}" + _tok(rng, sel, 0.8, ("ro", "sr"), 0.15)
            elif k == "slice":
                op = rng.choice([f"getitem slice - - {max(1, m // 3)}", f"getitem slice -1 - -{max(1, m // 2)}",
                                 f"getitem slice {m - 3} - -", f"getitem slice - 4 -", f"getitem slice -5 {m + 9} 2"])
            elif k == "offset":
                op = f"offset {rng.choice([0, 1, 2, 126, 200])}"
            elif k == "concat":
                a = rng.randint(0, 5)
                ops.append(f"aux {a} {_rows_text(_rand_rows(rng, a))}")
                _ref_step(refs, ops[-1].split(), as_code=True)
                op = rng.choice(["concat", "concat3", "merge"])
            elif k == "renew":
                rows = [[_near(rng, m), _near(rng, m), rng.randrange(10)] for _ in range(rng.randint(1, 3))]
                op = f"new {m} {_rows_text(rows)}" + _ctor_tok(rng, rows, 0.8)
            else:
                op = k
        _ref_step(refs, op.split(), as_code=True)
        ops.append(op)
    return {"kind": "medium", "ops": ops}


def _huge_case(rng):
    """Atom counts around 2^31 and 2^32 (uint32 atom count, int32 index arguments, C int running count).  Only
    operations that do not allocate O(n) in the code under test are used: an empty constructor, offset_indices on a
    small list, scalar-index methods, membership, concatenate of bond-free lists, copy."""
    H = 2 ** 31
    refs = {"cur": Ref(0), "aux": Ref(0)}
    if rng.random() < 0.5:
        n = rng.choice([H - 1, H, H + 5, 2 ** 32 - 1, 2 ** 32 - 1, 2 ** 32, 2 ** 32 + 7])
        ops = [f"new {n} _" + rng.choice(["", " @none"])]
    else:
        ops = ["new 3 0,1,1;1,2,2", f"offset {rng.choice([H - 1, H - 1, H - 4])}"]
        if rng.random() < 0.5:
            ops.append(f"offset {rng.choice([H - 1, 7, H - 2])}")
    for op in ops:
        _ref_step(refs, op.split(), as_code=True)
    for _ in range(rng.randint(2, 6)):
        n = refs["cur"].n
        cand = [-1, 0, 1, n - 1, n - 2, n, -n, -n - 1, H - 1, H, H + 1, -H, -H - 1, 2 ** 32 - 1]
        i, j = rng.choice(cand), rng.choice(cand)
        k = rng.choice(["get_bonds", "get_bonds", "getitem_int", "remove", "remove_to", "contains", "count", "dup", "swap",
                        "rm_order", "remove_bonds", "concat", "offset", "eq"])
        if k == "get_bonds":
            op = f"get_bonds {i}"
        elif k == "getitem_int":
            op = f"getitem int {i}"
        elif k == "remove":
            op = f"remove {i} {j}"
        elif k == "remove_to":
            op = f"remove_to {i}"
        elif k == "contains":
            op = f"contains {abs(i)} {abs(j)}"
        elif k == "concat":
            a = rng.choice([0, 3, H - 1, H, 2 ** 30, 2 ** 32 - 1])
            ops.append(f"aux {a} _")
            _ref_step(refs, ops[-1].split(), as_code=True)
            op = rng.choice(["concat", "concat3"])
        elif k == "offset":
            kk = rng.choice([0, 1, 5])
            op = f"offset {kk}" if n + kk <= 2 ** 32 - 1 or refs["cur"].m else "count"
        else:
            op = k
        _ref_step(refs, op.split(), as_code=True)
        ops.append(op)
    return {"kind": "huge", "ops": ops}


def cases(rng, tier):
    n_valid, n_invalid = (560, 240) if tier == "quick" else (9000, 3000)
    for _ in range(n_valid):
        ops, _ = _history(rng, rng.choice([1, 2, 3, 5, 8, 12, 18, 25, 30]))
        yield {"kind": "history", "ops": ops}
    for _ in range(n_invalid):
        ops, refs = _history(rng, rng.choice([1, 2, 3, 5, 8]))
        for _ in range(rng.randint(1, 4)):
            op = _malformed_op(rng, refs)
            _ref_step(refs, op.split(), as_code=True)
            ops.append(op)
            if op.startswith("getitem mask") or (op.startswith("new ") and any(x.startswith("-") for x in
                                                     [r.split(",")[2] for r in op.split()[2].split(";") if r.count(",") == 2])):
                break                              # accepted by the code although the mapping refuses it: end of the history
            if rng.random() < 0.4:
                op = _valid_op(rng, refs)          # the history goes on after a rejected op
                _ref_step(refs, op.split(), as_code=True)
                ops.append(op)
        case = {"kind": "invalid", "ops": ops}
        if rng.random() < 0.5:
            case["probes"] = [_ub_probe(rng, refs)]
        yield case
    for _ in range(60 if tier == "quick" else 800):
        yield _medium_case(rng)
    for _ in range(40 if tier == "quick" else 400):
        yield _huge_case(rng)
    if tier == "thorough":
        yield from _exhaustive()


def _exhaustive():
    """All bond arrays with <= 3 rows over n <= 3 with indices in [-n, n) and 2 types, each followed by the views."""
    import itertools
    views = ["all_bonds", "adj", "types", "graph", "count"]
    for n in range(1, 4):
        idx = list(range(-n, n))
        rows1 = [(a, b, t) for a in idx for b in idx for t in (1, 6)]
        for k in range(0, 3 if n == 3 else 4):
            for combo in itertools.product(rows1, repeat=k):
                # thin the largest layers deterministically
                if k == 3 and (hash(combo) % 7) != 0:
                    continue
                if k == 2 and n == 3 and (hash(combo) % 3) != 0:
                    continue
                ops = [f"new {n} {_rows_text([list(r) for r in combo])}"] + views + [f"get_bonds {i}" for i in idx] + ["rm_arom"]
                yield {"kind": "exhaustive", "ops": ops}


def corpus():
    return [
        # the same values in other spellings / layouts; defaults; a refused call in the middle of a history
        {"kind": "history", "ops": ["new 4 0,1,1;1,2,2;3,0,5 @be", "aux 5 1,0,7;4,3,1 @sc", "add2 -1 1 @i8", "add 4 0 1", "all_bonds",
                                    "getitem arr 3,0,1 @ro", "new 3 0,1,5;1,2,6 @F", "getitem arr 2,0 @sr", "new 2 _ @none", "concat3",
                                    "new2 3 0,1;2,1 @ro", "getitem mask 110 @ro", "getitem arr 1,0 @be", "count"]},
        # every integer object denoting the same atom index behaves the same (NumPy scalars, index arrays of any integer dtype)
        {"kind": "history", "ops": ["new 6 0,1,1;2,1,2;1,5,6;3,4,5", "getitem int 2 @i64", "getitem int 0 @u8", "getitem int -5 @i8",
                                    "getitem int 1 @ip", "get_bonds 1 @u64", "contains 1 2 @u32", "add 1 3 2 @i32", "remove 1 0 @u16",
                                    "remove_to -1 @i16", "getitem arr 3,0,1,4 @u16", "getitem arr -1,0 @i8", "all_bonds"]},
        {"kind": "invalid", "ops": ["new 4 0,1,1;1,2,2;3,0,5", "getitem int 4 @u8", "getitem int -5 @i64", "get_bonds -6 @i16",
                                    "getitem arr 0,4 @u64", "getitem arr 1,1 @i32"]},
        # sentinel crash: -n-1 wraps to (uint32)-1 == the `except -1` error value
        {"kind": "invalid", "ops": ["new 4 0,1,1;1,2,2;3,0,5", "get_bonds -5", "get_bonds -6", "get_bonds 4", "get_bonds 2147483648",
                                    "remove -5 0", "remove_to -5", "remove -6 0", "remove_to -6", "add -5 0 1", "add 4 0 1", "all_bonds"]},
        # n = 0: the wrapped indices are stored (no bounds-dependent write follows): deterministic corruption
        {"kind": "invalid", "ops": ["new 0 _", "add -2 -3 1"]},
        {"kind": "history", "ops": ["new 3 1,1,2;1,2,1;0,1,3", "all_bonds", "get_bonds 1", "adj", "types", "graph", "getitem arr 1,0", "all_bonds"]},
        {"kind": "history", "ops": ["new 4 0,1,1;1,2,2;3,0,5", "aux 6 1,0,7;4,5,1", "merge", "swap", "concat3", "eq", "dup", "eq",
                                    "getitem slice 4 14 -", "rm_arom", "offset 2", "getitem mask 001111111101", "remove_bonds", "count", "all_bonds"]},
        {"kind": "invalid", "ops": ["new 4 0,1,1;1,2,2;3,0,5", "getitem mask 110111", "count", "getitem smask 1101", "contains -4 1"],
         "probes": ["add -6 0 1", "getitem mask 11"]},
    ]


# ---------------------------------------------------------------- bookkeeping
def nontrivial(case, impl_out):
    if not impl_out:
        return bool(case.get("probes"))
    for line in impl_out:
        if line == "CRASH" or line.startswith("ERR:"):
            return True
        w = line.split()
        if len(w) == 3 and w[0] == "ok" and w[2].count(";") >= 1:
            return True
    return False


def signature(case):
    return "|".join(case.get("ops") or []) + "#" + "|".join(case.get("probes") or [])


def distribution(cases, impl_outs):
    ops, outcomes, lengths, atoms = {}, {}, {}, {}
    for c, o in zip(cases, impl_outs):
        L = len(c.get("ops") or [])
        b = "1-3" if L <= 3 else "4-10" if L <= 10 else "11-20" if L <= 20 else "21+"
        lengths[b] = lengths.get(b, 0) + 1
        for line, res in zip(c.get("ops") or [], o or []):
            w = line.split()
            name = w[0] + ("." + w[1] if w[0] == "getitem" else "")
            ops[name] = ops.get(name, 0) + 1
            k = res.split(" ")[0]
            outcomes[k] = outcomes.get(k, 0) + 1
            if k == "ok" and len(res.split()) == 3 and res.split()[1].isdigit():
                a = int(res.split()[1])
                ab = "0" if a == 0 else "1-3" if a <= 3 else "4-8" if a <= 8 else "9+"
                atoms[ab] = atoms.get(ab, 0) + 1
    return {"ops": ops, "outcomes": outcomes, "history_lengths": lengths, "atom_counts_after_op": atoms}


def search(rng, problems, tier):
    """Failing-input search: more histories from a different stream (oracle only)."""
    for c in cases(rng, "quick"):
        yield c
    if tier == "thorough":
        for c in cases(rng, "quick"):
            yield c


def shrink(case, key):
    """Drop ops while the oracle still reports the same key."""
    from common import util

    def fails(ops):
        c = dict(case, ops=ops)
        try:
            return any(k == key for k, _ in oracle(c))
        except Exception:  # noqa: BLE001
            return False
    if not case.get("ops") or len(case["ops"]) > 40:
        return case
    ops = util.shrink_list(case["ops"], fails, max_steps=120)
    return dict(case, ops=ops) if fails(ops) else case

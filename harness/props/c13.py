"""C13 — Slicing annotations and annotated sequences matches a per-base model.

Anchors: sequence/annotation.py (Location, Feature, Annotation.__getitem__, AnnotatedSequence.__getitem__ /
__setitem__ / reverse_complement / __copy_create__), sequence/sequence.py, sequence/seqtypes.py.

Protocol (state: the current annotated sequence `cur`, optionally a copy `cp`):
  new <start> <letters|_> <annot|_>     annot = feature;feature…   feature = key/qual/loc,loc…   loc = first:last:(+|-):defectbits
  show | cp_show                         -> ok <start> <letters|_> <canonical annot|_>
  aslice a|- b|-                         cur.annotation[a:b]           -> ok <canonical annot>
  slice a|- b|-                          cur[a:b]                      -> ok <start> <letters> <annot> | ERR:IndexError
  int p                                  cur[p]                        -> ok <letter>
  getf <feature>                         cur[feature]                  -> ok <letters>
  setf <feature> <letters>               cur[feature] = letters        -> ok | ERR:ValueError   (mutates, also partially)
  revcomp k                              cur = cur.reverse_complement(k) -> ok <start> <letters> <annot>
  copy                                   cp = cur.copy()               -> ok True|False   (cp == cur)
  cp_setint p c | cp_addfeat <feature> | cp_setf <feature> <letters>   mutate the copy
  keepf <feature> | kept                 r = cur[feature] is kept by the caller; `kept` prints r again (after later writes)
  mkloc first last | mkfeat0             Location(first, last) / Feature(key, []) : ok | ERR:ValueError
  setslice a|- b|- letters | setint p c  cur[a:b] = letters / cur[p] = c
  addfeat f | iadd annot | delfeat f | has f | count | range      in-place edits / queries of cur.annotation
  mut_qual v | cp_mut_qual v             edit the dict handed out by feature.qual of every feature of cur / cp (no effect)
  mut_features | cp_mut_features         clear annotation.get_features() and try to clear feature.locs (no effect)
"""
import ast
import os

PROP = "C13"
PROPS_MODULE = "BiotiteModel.Props.C13"
DRIVER_MODULE = "BiotiteModel.Driver.C13"
EXT_MODULES = []
GEN_FILES = ["BiotiteModel/Gen/C13.lean"]
RULE = ("seeded annotated sequences (1-4 features x 1-4 locations, both strands, all 64 defect flag sets, positions "
        "down to -25, sequence starts 1-50, lengths 0-14) through Annotation[a:b], AnnotatedSequence[a:b]/[a:]/[:b]/[:], "
        "[int], [Feature] read and write, reverse_complement twice, copy-then-mutate; every op line is compared with the "
        "Lean model and checked by a per-base/string-slicing oracle. non-trivial = at least one location is cut, dropped, "
        "read or written, or an error branch is hit; distinct = different op lines. A history stream reuses ONE object through "
        "reads, in-place edits and refused calls (each read also compared with a fresh object of the same content, each refused "
        "call with a snapshot); every case spells its integer/array/container arguments in one of 420 ways (NumPy scalars of "
        "several widths, list/tuple/set, str/array values, defaults left out). thorough adds the exhaustive "
        "single/double-location enumeration over sequences of length <= 6.")
TRUSTED = ["numpy basic slicing / slice assignment (incl. length-1 broadcast) and Python's stable sorted() modelled by their documented semantics",
           "set/frozenset iteration order is unobservable: the canonical form sorts and de-duplicates"]
ASSUMPTIONS = ["writing through a feature with two different locations on the same span is not modelled (which chunk survives depends on set iteration)",
               "sequence symbols are NucleotideSequence codes; feature key and qualifiers are opaque tokens"]
LEVEL_TEXT = ("Lean proofs for all inputs: slice coverage/defects/pairing for all four slice forms, feature read (biological order), "
              "feature write-then-read, reverse-complement involution, copy equal+independent on a heap model tied to the "
              "regenerated __copy_create__ table; model tied to the repaired code by op-by-op correspondence.")
LEVEL_NOTE = "numpy slicing, Python sorted() stability and set iteration are modelled, not verified; hash-order ties are excluded."
TECHNIQUE = "Lean 4 proof (case analysis + omega on location clipping, induction over location lists, list index lemmas) + correspondence + ast-regenerated tables"

LETTERS = "ACGTRYWSMKHBVDN"
# IUPAC complement, written here independently of biotite (used by the oracle only)
COMP = {"A": "T", "C": "G", "G": "C", "T": "A", "R": "Y", "Y": "R", "W": "W", "S": "S", "M": "K", "K": "M",
        "H": "D", "D": "H", "B": "V", "V": "B", "N": "N"}
MISS_LEFT, MISS_RIGHT = 1, 2


# ---------------------------------------------------------------- translator (Gen)
def _src(rel):
    from common import paths
    return open(os.path.join(paths.SRC, "biotite", rel)).read()


def _class(tree, name):
    for n in ast.walk(tree):
        if isinstance(n, ast.ClassDef) and n.name == name:
            return n
    raise ValueError(f"class {name} not found")


def _func(cls, name):
    for n in cls.body:
        if isinstance(n, ast.FunctionDef) and n.name == name:
            return n
    raise ValueError(f"{cls.name}.{name} not found")


def _lean_lit(s):
    return '"' + s.replace("\\", "\\\\").replace('"', '\\"').replace("\n", "\\n") + '"'


def _nf_ident(k):
    return "nf_" + k.replace(".", "_").replace("__", "")


def _lean_str_list(xs):
    return "[" + ", ".join('"%s"' % x for x in xs) + "]"


def gen_lean():
    ann = ast.parse(_src("sequence/annotation.py"))
    loc = _class(ann, "Location")
    # --- Defect flag values and Strand members (auto() counts 1, 2, 4, … for Flag and 1, 2, … for Enum)
    defect = _class(loc, "Defect")
    flags = []
    nxt = 1
    for st in defect.body:
        if isinstance(st, ast.Assign) and isinstance(st.targets[0], ast.Name):
            nm = st.targets[0].id
            if isinstance(st.value, ast.Constant) and isinstance(st.value.value, int):
                val = st.value.value
            elif isinstance(st.value, ast.Call) and getattr(st.value.func, "id", None) == "auto":
                val = nxt
                nxt *= 2
            else:
                raise ValueError(f"Defect.{nm}: unexpected value expression")
            flags.append((nm, val))
    if not flags:
        raise ValueError("Location.Defect members not found")
    strands = [st.targets[0].id for st in _class(loc, "Strand").body
               if isinstance(st, ast.Assign) and isinstance(st.targets[0], ast.Name)]
    if not strands:
        raise ValueError("Location.Strand members not found")
    # --- reverse_complement: `if loc.defect & Location.Defect.X: rev_loc_defect |= Location.Defect.Y`
    aseq = _class(ann, "AnnotatedSequence")
    # --- structural normal forms of the anchored functions (c13_norm.py): every literal, operator, operand order, step order,
    #     exception class and public name stays significant; local names, private helper names, messages, annotations,
    #     if/else vs conditional expression, guard clause vs nested if do not
    from props import c13_norm
    feat_cls, annot_cls = _class(ann, "Feature"), _class(ann, "Annotation")
    seqmod = ast.parse(_src("sequence/sequence.py"))
    typmod = ast.parse(_src("sequence/seqtypes.py"))
    seq_cls, nuc_cls = _class(seqmod, "Sequence"), _class(typmod, "NucleotideSequence")
    wanted = [("Location", loc, ann, ["__init__", "__eq__", "__hash__"]),
              ("Feature", feat_cls, ann, ["__init__", "__copy_create__", "__eq__", "__hash__", "get_location_range"]),
              ("Annotation", annot_cls, ann, ["__init__", "__copy_create__", "add_feature", "del_feature", "__add__", "__iadd__", "__getitem__",
                                              "__delitem__", "__iter__", "__contains__", "__eq__", "__len__"]),
              ("AnnotatedSequence", aseq, ann, ["__init__", "__copy_create__", "reverse_complement", "__getitem__", "__setitem__", "__eq__"]),
              ("Sequence", seq_cls, seqmod, ["copy", "reverse", "__getitem__", "__len__", "__eq__", "__add__"]),
              ("NucleotideSequence", nuc_cls, typmod, ["__copy_create__", "complement"])]
    nf, mirror, defaults = [], [], []
    for cname, cls, mod, names in wanted:
        for fname in names:
            try:
                lines, mir = c13_norm.normal_form(_func(cls, fname), cls, mod)
            except ValueError as e:
                raise ValueError(f"{cname}.{fname}: {e}")
            nf.append((f"{cname}.{fname}", lines))
            if cname == "AnnotatedSequence" and fname == "reverse_complement":
                mirror = mir
        for fn in cls.body:
            if isinstance(fn, ast.FunctionDef) and (not fn.name.startswith("_") or fn.name == "__init__"):
                defaults += [(f"{cname}.{fn.name}", p, d) for p, d in c13_norm.defaults(fn)]
    if not mirror:
        raise ValueError("flag rewiring of reverse_complement not found (neither an `if d & F: m |= G` chain nor a table-driven helper)")
    # --- Annotation.get_location_range: the sentinels and the exclusive stop, whatever the way the extremes are computed
    glr = _func(annot_cls, "get_location_range")
    sent = sorted({ast.unparse(n) for n in ast.walk(glr)
                   if (isinstance(n, ast.Attribute) and ast.unparse(n) == "sys.maxsize")
                   or (isinstance(n, ast.UnaryOp) and isinstance(n.op, ast.USub) and ast.unparse(n.operand) == "sys.maxsize")})
    rets = [n for n in ast.walk(glr) if isinstance(n, ast.Return)]
    if len(rets) != 1 or not isinstance(rets[0].value, ast.Tuple) or len(rets[0].value.elts) != 2:
        raise ValueError("Annotation.get_location_range: expected a single `return first, last + 1`")
    second = rets[0].value.elts[1]
    plus = ast.unparse(second.right) if isinstance(second, ast.BinOp) and isinstance(second.op, ast.Add) else "?"
    range_facts = sent + ["stop = last + " + plus]
    # --- copy path: fields assigned in __init__ vs. constructor arguments of __copy_create__
    # (private attributes are identified by the constructor parameter they are built from: their own names may change)
    lab = {c: c13_norm.field_labels(k) for c, k in (("Location", loc), ("Feature", feat_cls), ("Annotation", annot_cls), ("AnnotatedSequence", aseq))}
    L = lambda cname, attr: lab[cname].get(attr, attr)
    init_fields = []
    for n in ast.walk(_func(aseq, "__init__")):
        if isinstance(n, ast.Assign):
            for t in n.targets:
                if isinstance(t, ast.Attribute) and isinstance(t.value, ast.Name) and t.value.id == "self":
                    src = n.value.id if isinstance(n.value, ast.Name) else "?"
                    init_fields.append((L("AnnotatedSequence", t.attr), src))
    init_params = [a.arg for a in _func(aseq, "__init__").args.args[1:]]
    cc = _func(aseq, "__copy_create__")
    ret = [n for n in ast.walk(cc) if isinstance(n, ast.Return)]
    if len(ret) != 1 or not isinstance(ret[0].value, ast.Call) or getattr(ret[0].value.func, "id", None) != "AnnotatedSequence":
        raise ValueError("AnnotatedSequence.__copy_create__: expected a single `return AnnotatedSequence(...)`")

    def kind(e):
        def is_self_attr(x):
            return isinstance(x, ast.Attribute) and isinstance(x.value, ast.Name) and x.value.id == "self"
        if is_self_attr(e):
            return L("AnnotatedSequence", e.attr), "plain"
        if isinstance(e, ast.Call) and not e.args and not e.keywords and isinstance(e.func, ast.Attribute) \
                and e.func.attr == "copy" and is_self_attr(e.func.value):
            return L("AnnotatedSequence", e.func.value.attr), "copyCall"
        if isinstance(e, ast.Attribute) and is_self_attr(e.value):
            return L("AnnotatedSequence", e.value.attr), "other"      # e.g. the bound method `self._x.copy`
        return "?", "other"
    call = ret[0].value
    args = [(init_params[i] if i < len(init_params) else "?",) + kind(a) for i, a in enumerate(call.args)]
    args += [(k.arg,) + kind(k.value) for k in call.keywords]
    # parameter -> field it is stored in
    param_field = {src: f for f, src in init_fields}
    copy_table = [(param_field.get(p, "?"), attr, k) for p, attr, k in args]
    # --- accessors: properties / get_* methods that hand out an attribute of self, and how each attribute is built
    def field_kind(v):
        """frozen: frozenset(...); mutable: set/dict/list (calls, literals, deepcopy of a parameter); param: a bare parameter."""
        if isinstance(v, ast.IfExp):
            ks = {field_kind(v.body), field_kind(v.orelse)}
            return "mutable" if "mutable" in ks else ks.pop() if len(ks) == 1 else "mutable"
        if isinstance(v, ast.Call):
            fn = v.func.id if isinstance(v.func, ast.Name) else v.func.attr if isinstance(v.func, ast.Attribute) else "?"
            if fn in ("frozenset", "tuple", "str", "int"):
                return "frozen"
            return "mutable"      # set(), dict(), list(), copy.deepcopy(), np.array(), anything unknown
        if isinstance(v, (ast.Dict, ast.List, ast.Set, ast.ListComp, ast.DictComp, ast.SetComp)):
            return "mutable"
        if isinstance(v, ast.Name):
            return "param"
        if isinstance(v, ast.Constant):
            return "frozen"
        return "mutable"

    def self_attr(x):
        return x.attr if isinstance(x, ast.Attribute) and isinstance(x.value, ast.Name) and x.value.id == "self" else None

    field_kinds, accessors = [], []
    for cname, cls in (("Location", loc), ("Feature", _class(ann, "Feature")), ("Annotation", _class(ann, "Annotation")),
                       ("AnnotatedSequence", aseq)):
        kinds = {}
        for n in ast.walk(_func(cls, "__init__")):
            if isinstance(n, ast.Assign):
                for t in n.targets:
                    if self_attr(t):
                        k = field_kind(n.value)
                        kinds[t.attr] = "mutable" if kinds.get(t.attr, k) != k else k
        if not kinds:
            raise ValueError(f"{cname}.__init__ assigns no attribute")
        field_kinds += [(cname, L(cname, a), k) for a, k in kinds.items()]
        for fn in cls.body:
            if not isinstance(fn, ast.FunctionDef) or fn.name.startswith("__"):
                continue
            is_prop = any(getattr(d, "id", None) == "property" for d in fn.decorator_list)
            if not (is_prop or fn.name.startswith("get_")):
                continue
            rets = [r for r in ast.walk(fn) if isinstance(r, ast.Return) and r.value is not None]
            if len(rets) != 1:
                continue
            v = rets[0].value
            if self_attr(v):
                accessors.append((cname, fn.name, L(cname, v.attr), "plain"))
            elif isinstance(v, ast.Call) and isinstance(v.func, ast.Attribute) and len(v.args) == 1 and not v.keywords \
                    and self_attr(v.args[0]) and getattr(v.func.value, "id", None) == "copy" and v.func.attr in ("copy", "deepcopy"):
                accessors.append((cname, fn.name, L(cname, v.args[0].attr), "copy"))
            elif isinstance(v, ast.Call) and isinstance(v.func, ast.Attribute) and v.func.attr == "copy" and not v.args \
                    and self_attr(v.func.value):
                accessors.append((cname, fn.name, L(cname, v.func.value.attr), "copy"))
            # anything else is a computed value (e.g. get_location_range): hands out no internal object
    for need in (("Feature", "qual"), ("Feature", "locs"), ("Annotation", "get_features")):
        if not any((c, a) == need for c, a, _, _ in accessors):
            raise ValueError(f"accessor {need[0]}.{need[1]} not found in the expected shape (return self._x | copy.copy(self._x))")
    # Annotation.copy() must build a new set: `Annotation(self._features)` relies on `set(features)` in __init__
    acc = _func(_class(ann, "Annotation"), "__copy_create__")
    aret = [n for n in ast.walk(acc) if isinstance(n, ast.Return)]
    if len(aret) != 1 or not isinstance(aret[0].value, ast.Call) or getattr(aret[0].value.func, "id", None) != "Annotation" \
            or len(aret[0].value.args) != 1 or L("Annotation", self_attr(aret[0].value.args[0]) or "?") != "F_features":
        raise ValueError("Annotation.__copy_create__: expected `return Annotation(<the attribute built from `features`>)`")
    # --- nucleotide alphabets and complement (seqtypes.py)
    st = ast.parse(_src("sequence/seqtypes.py"))
    nuc = _class(st, "NucleotideSequence")
    consts = {}
    for n in nuc.body:
        if isinstance(n, ast.Assign) and isinstance(n.targets[0], ast.Name):
            nm = n.targets[0].id
            if nm in ("alphabet_unamb", "alphabet_amb") and isinstance(n.value, ast.Call) and n.value.args:
                consts[nm] = ast.literal_eval(n.value.args[0])
            elif nm == "compl_symbol_dict":
                consts[nm] = ast.literal_eval(n.value)
    for k in ("alphabet_unamb", "alphabet_amb", "compl_symbol_dict"):
        if k not in consts:
            raise ValueError(f"NucleotideSequence.{k} not found")
    amb = list(consts["alphabet_amb"])
    try:
        compl_codes = [amb.index(consts["compl_symbol_dict"][s]) for s in amb]
    except (KeyError, ValueError) as e:
        raise ValueError(f"complement table does not close over alphabet_amb: {e}")
    body = [
        "/- REGENERATED on every run by harness/props/c13.py from sequence/annotation.py and sequence/seqtypes.py. Do not edit. -/",
        "namespace BiotiteModel.Gen.C13",
        "/-- `Location.Defect` members in declaration order with their `Flag` values. -/",
        "def defectFlags : List (String × Nat) := [" + ", ".join(f'("{n}", {v})' for n, v in flags) + "]",
        "/-- `Location.Strand` members in declaration order. -/",
        "def strands : List String := " + _lean_str_list(strands),
        "/-- `reverse_complement`: (flag tested on the location, flag set on the reversed location). -/",
        "def mirrorPairs : List (String × String) := [" + ", ".join(f'("{a}", "{b}")' for a, b in mirror) + "]",
        "/-- Structural normal form (harness/props/c13_norm.py) of every anchored function: (Class.function, steps). -/",
        "def nfNames : List String := " + _lean_str_list([k for k, _ in nf]),
        *["def %s : List String := [%s]" % (_nf_ident(k), ", ".join(_lean_lit(l) for l in ls)) for k, ls in nf],
        "/-- Default values of the public signatures: (Class.function, parameter, default). -/",
        "def defaults : List (String × String × String) := [" + ", ".join(f'("{a}", "{b}", {_lean_lit(c)})' for a, b, c in defaults) + "]",
        "/-- `Annotation.get_location_range`: sentinels and the exclusive stop. -/",
        "def rangeFacts : List String := [" + ", ".join(_lean_lit(x) for x in range_facts) + "]",
        "/-- Attributes assigned in `AnnotatedSequence.__init__`. -/",
        "def initFields : List String := " + _lean_str_list([f for f, _ in init_fields]),
        "/-- `__copy_create__`: (field the constructor argument is stored in, attribute of `self` it is built from, how). -/",
        "def copyCreate : List (String × String × String) := [" + ", ".join(f'("{a}", "{b}", "{c}")' for a, b, c in copy_table) + "]",
        "/-- How `__init__` builds each attribute: frozen (frozenset/str/…), mutable (set/dict/list/deepcopy/…), param (stored as given). -/",
        "def fieldKinds : List (String × String × String) := [" + ", ".join(f'("{a}", "{b}", "{c}")' for a, b, c in field_kinds) + "]",
        "/-- Properties and `get_*` methods that hand out an attribute: (class, accessor, attribute, plain | copy). -/",
        "def accessors : List (String × String × String × String) := [" + ", ".join(f'("{a}", "{b}", "{c}", "{d}")' for a, b, c, d in accessors) + "]",
        "/-- `NucleotideSequence.alphabet_unamb` / `alphabet_amb`. -/",
        'def alphabetUnamb : String := "' + "".join(consts["alphabet_unamb"]) + '"',
        'def alphabetAmb : String := "' + "".join(amb) + '"',
        "/-- `compl_symbol_dict` as a map on codes of `alphabet_amb`. -/",
        "def complCodes : List Nat := [" + ", ".join(str(c) for c in compl_codes) + "]",
        "end BiotiteModel.Gen.C13", ""]
    return {"BiotiteModel/Gen/C13.lean": "\n".join(body)}


# ---------------------------------------------------------------- text forms
def _loc_s(l):
    return f"{l[0]}:{l[1]}:{l[2]}:{l[3]}"


def _feat_s(f):
    return f"{f[0]}/{f[1]}/" + ",".join(_loc_s(l) for l in f[2])


def _annot_s(a):
    return ";".join(_feat_s(f) for f in a) if a else "_"


def _o(x):
    return "-" if x is None else str(x)


def _parse_feat(s):
    k, q, ls = s.split("/")
    locs = []
    for l in ls.split(","):
        f, la, st, d = l.split(":")
        locs.append((int(f), int(la), st, int(d)))
    return (int(k), int(q), locs)


def _parse_annot(s):
    return [] if s == "_" else [_parse_feat(f) for f in s.split(";")]


def _has_ties(locs):
    """Two different locations spanning the same bases: the only case in which the order of a WRITE through the
    feature still depends on set iteration (reads are unaffected: both chunks are the same bases)."""
    ls = list(dict.fromkeys(locs))
    return any(a[0] == b[0] and a[1] == b[1] for i, a in enumerate(ls) for b in ls[i + 1:])


# ---------------------------------------------------------------- implementation adapter
def _mk_loc(l):
    from biotite.sequence import Location
    return Location(l[0], l[1], Location.Strand.FORWARD if l[2] == "+" else Location.Strand.REVERSE, Location.Defect(l[3]))


def _quals(q, order=0):
    """Two qualifiers; `order` is the insertion order of the dictionary (equal dictionaries either way)."""
    items = [("q", str(q)), ("r", "x")]
    return dict(items if not order else items[::-1])


def _mk_feat(f, order=0):
    from biotite.sequence import Feature
    return Feature("k%d" % f[0], [_mk_loc(l) for l in f[2]], _quals(f[1], order))


def _mk_aseq(start, letters, annot):
    from biotite.sequence import AnnotatedSequence, Annotation, NucleotideSequence
    return AnnotatedSequence(Annotation([_mk_feat(f) for f in annot]), NucleotideSequence("" if letters == "_" else letters), start)


def _loc_t(l):
    from biotite.sequence import Location
    return (int(l.first), int(l.last), "+" if l.strand == Location.Strand.FORWARD else "-", int(l.defect.value))


def _feat_t(f):
    """Observable content of a real Feature: (key, qual, frozenset of location tuples)."""
    return (int(f.key[1:]), int(f.qual["q"]), frozenset(_loc_t(l) for l in f.locs))


def _annot_t(a):
    return frozenset(_feat_t(f) for f in a)


def _canon_annot(a):
    fs = sorted({f"{k}/{q}/" + ",".join(sorted(_loc_s(l) for l in ls)) for k, q, ls in _annot_t(a)})
    return ";".join(fs) if fs else "_"


def _canon_seq(s):
    t = str(s)
    return t if t else "_"


def _canon_aseq(x):
    return f"{int(x.sequence_start)} {_canon_seq(x.sequence)} {_canon_annot(x.annotation)}"


def _err(e):
    return "ERR:" + type(e).__name__


def _spell_int(x, spell, index=False):
    """The same integer in another spelling (Python int / NumPy scalars of several widths).  Unsigned widths only for
    slice and index arguments >= 1 (an unsigned position minus a larger one wraps by NumPy's own rules)."""
    import numpy as np
    k = spell % 7
    if k == 0:
        return int(x)
    if k == 1:
        return np.int64(x)
    if k == 2:
        return np.int32(x)
    if k == 3:
        return np.int16(x)
    if k == 4:
        return np.int8(x) if -100 <= x <= 100 else np.int16(x)
    if k == 5:
        return np.uint8(x) if index and 1 <= x <= 200 else np.int64(x)
    return np.uint32(x) if index and x >= 1 else np.int32(x)     # (uint64 with a signed start promotes to float64 in NumPy)


def _spell_value(letters, spell):
    """A sequence value for `aseq[...] = value` in the spellings Sequence.__setitem__ accepts."""
    import numpy as np
    from biotite.sequence import NucleotideSequence
    k = spell % 7
    if k == 0:
        return NucleotideSequence(letters, ambiguous=True)
    if k == 1:
        return NucleotideSequence(letters)
    if k == 2:
        return letters
    if k == 3:
        return list(letters)
    codes = [LETTERS.index(c) for c in letters]
    if k == 4:
        return np.array(codes, dtype=np.uint8)
    if k == 5:
        arr = np.zeros(2 * len(codes), dtype=np.int64)      # strided, read-only, another width
        arr[::2] = codes
        arr = arr[::2]
        arr.setflags(write=False)
        return arr
    return np.array(codes, dtype=">i2") if codes else np.array([], dtype=np.uint8)   # byte-swapped


class World:
    """Executes protocol lines on the real objects.  `spell` selects how the same arguments are spelled (Python / NumPy
    scalars, list / tuple / set containers, defaults left out where the value is the default); the model never sees it."""

    def __init__(self, spell=0):
        self.cur = None
        self.cp = None
        self.kept = None
        self.spell = spell

    def I(self, x, index=False):
        return None if x is None else _spell_int(x, self.spell, index)

    def loc(self, l):
        from biotite.sequence import Location
        st = Location.Strand.FORWARD if l[2] == "+" else Location.Strand.REVERSE
        if self.spell % 2 and l[2] == "+" and l[3] == 0:
            return Location(self.I(l[0]), self.I(l[1]))                       # defaults
        if self.spell % 3 == 1:
            return Location(first=self.I(l[0]), last=self.I(l[1]), defect=Location.Defect(l[3]), strand=st)
        return Location(self.I(l[0]), self.I(l[1]), st, Location.Defect(l[3]))

    def feat(self, f, flip=False):
        """`flip`: build an EQUAL feature whose qualifiers are inserted in the other order (look-ups, deletions)."""
        from biotite.sequence import Feature
        locs = [self.loc(l) for l in f[2]]
        if flip:
            locs = locs[::-1]
        cont = (list, tuple, set, frozenset)[self.spell % 4](locs)
        qual = _quals(f[1], (self.spell % 2) ^ (1 if flip else 0))
        ft = Feature("k%d" % f[0], cont, qual)
        qual["q"] = "77"                    # the arguments stay the caller's: editing them afterwards changes nothing
        if isinstance(cont, (list, set)):
            cont.clear()
        return ft

    def aseq(self, start, letters, annot):
        from biotite.sequence import AnnotatedSequence, Annotation, NucleotideSequence
        feats = [self.feat(f) for f in annot]
        k = self.spell % 5
        cont = (list, tuple, set, frozenset, iter)[k](feats)
        ann = Annotation(cont) if (feats or k) else Annotation()
        if isinstance(cont, (list, set)):
            cont.clear()
        letters = "" if letters == "_" else letters
        if self.spell % 3 == 1 and set(letters) <= set("ACGT"):
            seq = NucleotideSequence(letters, ambiguous=True)
        elif self.spell % 3 == 2:
            seq = NucleotideSequence(list(letters.lower()))
        else:
            seq = NucleotideSequence(letters)
        if start == 1 and self.spell % 2:
            x = AnnotatedSequence(ann, seq)                                    # default sequence_start
        else:
            x = AnnotatedSequence(ann, seq, self.I(start))
        # provenance: the same object after a trip through pickle (multiprocessing) or copy.deepcopy carries equal but
        # not identical alphabets, enum members, sets …
        k = self.spell % 11
        if k == 3:
            import pickle
            x = pickle.loads(pickle.dumps(x))
        elif k == 7:
            import copy
            x = copy.deepcopy(x)
        elif k == 9:
            import pickle
            x = AnnotatedSequence(pickle.loads(pickle.dumps(x.annotation)), pickle.loads(pickle.dumps(x.sequence)), x.sequence_start)
        return x

    def step(self, op):
        w = op.split()
        try:
            if w[0] == "new":
                self.cur = self.aseq(int(w[1]), w[2], _parse_annot(w[3]))
                self.cp = None
                return "ok"
            if w[0] == "show":
                return "ok " + _canon_aseq(self.cur)
            if w[0] == "cp_show":
                return "ok " + _canon_aseq(self.cp)
            if w[0] == "aslice":
                a, b = (None if x == "-" else int(x) for x in w[1:3])
                return "ok " + _canon_annot(self.cur.annotation[self.I(a, True):self.I(b, True)])
            if w[0] == "slice":
                a, b = (None if x == "-" else int(x) for x in w[1:3])
                return "ok " + _canon_aseq(self.cur[self.I(a, True):self.I(b, True)])
            if w[0] == "int":
                return "ok " + str(self.cur[self.I(int(w[1]), True)])
            if w[0] == "getf":
                f = _parse_feat(w[1])
                return "ok " + _canon_seq(self.cur[self.feat(f)])
            if w[0] == "keepf":
                f = _parse_feat(w[1])
                self.kept = self.cur[self.feat(f)]          # the caller keeps the result …
                return "ok " + _canon_seq(self.kept)
            if w[0] == "kept":
                return "ok " + _canon_seq(self.kept)        # … and looks at it again after later writes
            if w[0] in ("setf", "cp_setf"):
                f = _parse_feat(w[1])
                if _has_ties(f[2]):
                    return "unmodelled"
                tgt = self.cur if w[0] == "setf" else self.cp
                tgt[self.feat(f)] = _spell_value("" if w[2] == "_" else w[2], self.spell)
                return "ok"
            if w[0] == "setslice":
                a, b = (None if x == "-" else int(x) for x in w[1:3])
                self.cur[self.I(a, True):self.I(b, True)] = _spell_value("" if w[3] == "_" else w[3], self.spell)
                return "ok"
            if w[0] == "revcomp":
                if w[1] == "-":
                    self.cur = self.cur.reverse_complement()
                elif self.spell % 2:
                    self.cur = self.cur.reverse_complement(sequence_start=self.I(int(w[1])))
                else:
                    self.cur = self.cur.reverse_complement(self.I(int(w[1])))
                return "ok " + _canon_aseq(self.cur)
            if w[0] == "copy":
                self.cp = self.cur.copy()
                try:
                    _canon_aseq(self.cp)
                except Exception:
                    return "ERR:unusable-copy"
                return "ok " + ("true" if self.cp == self.cur else "false")
            if w[0] in ("setint", "cp_setint"):
                import numpy as np
                tgt = self.cur if w[0] == "setint" else self.cp
                tgt[self.I(int(w[1]), True)] = np.str_(w[2]) if self.spell % 2 else w[2]
                return "ok"
            if w[0] in ("mut_qual", "cp_mut_qual"):
                # edit the dictionaries handed out by Feature.qual (an accessor result, never the feature itself)
                for f in list((self.cur if w[0] == "mut_qual" else self.cp).annotation):
                    d = f.qual
                    d["q"] = w[1]
                    d["extra"] = "1"
                return "ok"
            if w[0] in ("mut_features", "cp_mut_features"):
                tgt = self.cur if w[0] == "mut_features" else self.cp
                tgt.annotation.get_features().clear()
                for f in list(tgt.annotation):
                    _try(lambda: f.locs.clear())
                return "ok"
            if w[0] == "cp_addfeat":
                self.cp.annotation.add_feature(self.feat(_parse_feat(w[1])))
                return "ok"
            if w[0] == "mkloc":
                from biotite.sequence import Location
                Location(self.I(int(w[1])), self.I(int(w[2])))
                return "ok"
            if w[0] == "mkfeat0":
                from biotite.sequence import Feature
                Feature("k0", (list, tuple, set, frozenset)[self.spell % 4]())
                return "ok"
            if w[0] == "addfeat":
                ann = self.cur.annotation
                k = self.spell % 3
                if k == 0:
                    ann.add_feature(self.feat(_parse_feat(w[1])))
                elif k == 1:
                    ann += self.feat(_parse_feat(w[1]))
                else:
                    # `a + f` builds a new annotation and must leave `a` alone; the result then replaces the content
                    before = _deep(ann)
                    new = ann + self.feat(_parse_feat(w[1]))
                    if _deep(ann) != before:
                        return "ERR:add-mutated-operand"
                    ann += new
                return "ok"
            if w[0] == "iadd":
                from biotite.sequence import Annotation
                other = Annotation([self.feat(f) for f in _parse_annot(w[1])])
                snap = _deep(other)
                ann = self.cur.annotation
                ann += other
                if _deep(other) != snap:
                    return "ERR:iadd-mutated-operand"
                other.add_feature(self.feat((96, 96, [(1, 1, "+", 0)])))      # the operand stays independent
                return "ok"
            if w[0] == "delfeat":
                f = self.feat(_parse_feat(w[1]), flip=True)
                if self.spell % 2:
                    del self.cur.annotation[f]
                else:
                    self.cur.annotation.del_feature(f)
                return "ok"
            if w[0] == "has":
                return "ok " + ("true" if self.feat(_parse_feat(w[1]), flip=True) in self.cur.annotation else "false")
            if w[0] == "count":
                n = len(self.cur.annotation)
                if n != len(list(self.cur.annotation)) or n != len(self.cur.annotation.get_features()):
                    return "ERR:len-iter-mismatch"
                return f"ok {n}"
            if w[0] == "range":
                lo, hi = self.cur.annotation.get_location_range()
                return f"ok {int(lo)} {int(hi)}"
        except Exception as e:  # noqa: BLE001
            return _err(e)
        return "bad-op"


def run_impl(case):
    w = World(case.get("spell", 0))
    return [w.step(op) for op in case["ops"]]


# ---------------------------------------------------------------- property oracle (independent of the model)
def _clip_expected(annot, lo, hi):
    """Per-base statement: every location keeps exactly its bases p with lo <= p < hi (None = unbounded);
    a location without bases left disappears, a feature without locations disappears; MISS_LEFT / MISS_RIGHT are
    added iff bases were removed on that side; every other flag, the strand, key and qualifiers stay."""
    out = set()
    for k, q, locs in annot:
        new = set()
        for f, l, st, d in locs:
            if l - f > 100000:          # too long to enumerate: the same statement on the interval
                b0, b1 = (f if lo is None else max(f, lo)), (l if hi is None else min(l, hi - 1))
                bases = [b0, b1] if b0 <= b1 else []
            else:
                bases = [p for p in range(f, l + 1) if (lo is None or p >= lo) and (hi is None or p < hi)]
            if not bases:
                continue
            nd = d
            if f < bases[0]:            # a base of the location lies left of the first kept one
                nd |= MISS_LEFT
            if l > bases[-1]:
                nd |= MISS_RIGHT
            new.add((bases[0], bases[-1], st, nd))
        if new:
            out.add((k, q, frozenset(new)))
    return frozenset(out)


def _annot_fs(annot):
    return frozenset((k, q, frozenset(ls)) for k, q, ls in annot)


def _coverage(annot_t):
    """Per-base coverage; a span too long to enumerate is kept as the interval itself."""
    return {(k, q): {p for f, l, _, _ in ls for p in (range(f, l + 1) if l - f <= 100000 else [("span", f, l)])} for k, q, ls in annot_t}


def _explain(got, exp):
    cg, ce = _coverage(got), _coverage(exp)
    if cg != ce:
        return "per-base coverage differs: got %s expected %s" % (sorted((k, sorted(v)) for k, v in cg.items())[:3],
                                                                sorted((k, sorted(v)) for k, v in ce.items())[:3])
    return "coverage equal but flags/strands differ: got %s expected %s" % (sorted(map(str, got))[:3], sorted(map(str, exp))[:3])


def _revcomp_str(s):
    return "".join(COMP[c] for c in reversed(s))


def _deep(x):
    """Everything observable of an annotated sequence / annotation / feature through the public API, as plain data."""
    def feat(f):
        return (str(f.key), tuple(sorted((str(k), str(val)) for k, val in f.qual.items())), tuple(sorted(_loc_t(l) for l in f.locs)))
    if hasattr(x, "sequence_start"):
        return (int(x.sequence_start), str(x.sequence), tuple(int(c) for c in x.sequence.code), _deep(x.annotation))
    if hasattr(x, "get_features"):
        return tuple(sorted(feat(f) for f in x))
    return feat(x)


def _try(fn):
    """An attempted mutation: being refused (immutable object) is fine."""
    try:
        fn()
    except (AttributeError, TypeError, KeyError, ValueError):
        pass


def _accessor_probes(start, letters):
    """Mutations through EVERY accessor that hands out an object, applied to an annotated sequence `x`."""
    other = "A" if (letters[:1] != "A") else "C"

    def qual(x):
        for f in list(x.annotation):
            d = f.qual
            _try(lambda: d.__setitem__("q", "9"))
            _try(lambda: d.__setitem__("extra", "1"))
            _try(lambda: d.clear())

    def locs(x):
        for f in list(x.annotation):
            ls = f.locs
            _try(lambda: ls.clear())
            _try(lambda: ls.add(_mk_loc((start, start, "+", 0))))
            _try(lambda: setattr(next(iter(f.locs)), "first", 0))

    def get_features(x):
        g = x.annotation.get_features()
        _try(lambda: g.add(_mk_feat((98, 98, [(start, start, "+", 0)]))))
        _try(lambda: g.clear())

    probes = [("feature-qual", qual), ("feature-locs", locs), ("annotation-get_features", get_features),
              ("annotation", lambda x: x.annotation.add_feature(_mk_feat((99, 99, [(start, start, "+", 0)]))))]
    if letters:
        probes += [("sequence", lambda x: x.sequence.__setitem__(0, other)),
                   ("sequence-via-setitem", lambda x: x.__setitem__(start, other)),
                   ("sequence-code", lambda x: x.sequence.code.__setitem__(0, LETTERS.index(other)))]
    return probes


def _copy_independence(start, letters, annot):
    """copy() of AnnotatedSequence / Annotation / Feature: equal to the original, and a mutation through any accessor on
    one side leaves the other side equal to the snapshot taken before; accessors that hand out copies leave BOTH sides
    unchanged; afterwards `feature in annotation` and `del_feature` still work."""
    v = []
    legit = ("annotation", "sequence", "sequence-via-setitem", "sequence-code")   # documented in-place edits of ONE object
    for name, mut in _accessor_probes(start, letters):
        for side in ("copy", "original"):
            o = _mk_aseq(start, letters or "_", annot)
            snap = _deep(o)
            c = o.copy()
            if _deep(c) != snap or not (c == o):
                return [("C13/copy/unequal", f"copy of {snap} is {_deep(c)}")]
            target, other = (c, o) if side == "copy" else (o, c)
            try:
                mut(target)
            except Exception as e:  # noqa: BLE001
                v.append((f"C13/copy/probe-{name}-raises", f"{type(e).__name__}: {e}"))
                continue
            if _deep(other) != snap:
                v.append((f"C13/copy/shared-{name}", f"mutating the {side}'s {name} changed the other object: {snap} -> {_deep(other)}"))
            elif name not in legit and _deep(target) != snap:
                v.append((f"C13/accessor/{name}-exposes-internal", f"editing the object handed out by {name} changed the {side} itself: {snap} -> {_deep(target)}"))
            for x, nm in ((o, "original"), (c, "copy")):
                try:
                    fs = list(x.annotation)
                    if not all(f in x.annotation for f in fs):
                        v.append((f"C13/copy/membership-after-{name}", f"a feature of the {nm} is no longer `in` its annotation"))
                    tmp = x.annotation.copy()
                    for f in fs:
                        tmp.del_feature(f)
                    if len(tmp) != 0:
                        v.append((f"C13/copy/del_feature-after-{name}", f"del_feature left {len(tmp)} features"))
                except Exception as e:  # noqa: BLE001
                    v.append((f"C13/copy/del_feature-after-{name}", f"{nm}: {type(e).__name__}: {e}"))
            if not (_mk_aseq(start, letters or "_", annot) == (other)):
                v.append((f"C13/copy/shared-{name}", f"the untouched {('original' if side == 'copy' else 'copy')} differs from an identically built object"))
    # Annotation.copy() and Feature.copy() on their own
    o = _mk_aseq(start, letters or "_", annot)
    snap = _deep(o.annotation)
    a2 = o.annotation.copy()
    if _deep(a2) != snap or not (a2 == o.annotation):
        v.append(("C13/copy/annotation-unequal", f"Annotation.copy() of {snap} is {_deep(a2)}"))
    a2.add_feature(_mk_feat((97, 97, [(start, start, "-", 0)])))
    for f in list(a2):
        d = f.qual
        _try(lambda: d.__setitem__("q", "8"))
    if _deep(o.annotation) != snap:
        v.append(("C13/copy/annotation-shared", f"mutating Annotation.copy() changed the original: {snap} -> {_deep(o.annotation)}"))
    for f in list(o.annotation):
        fs = _deep(f)
        try:
            fc = f.copy()
        except Exception as e:  # noqa: BLE001
            v.append(("C13/copy/feature-copy-raises", f"Feature.copy() raised {type(e).__name__}: {e}"))
            break
        if _deep(fc) != fs or not (fc == f) or hash(fc) != hash(f):
            v.append(("C13/copy/feature-unequal", f"Feature.copy() of {fs} is {_deep(fc)}"))
        d = fc.qual
        _try(lambda: d.__setitem__("q", "7"))
        _try(lambda: fc.locs.clear())
        if _deep(f) != fs or _deep(fc) != fs:
            v.append(("C13/copy/feature-shared", f"editing accessor results of Feature.copy() changed a feature: {fs} -> {_deep(f)} / {_deep(fc)}"))
    return v


def _result_independent(w, feat_s, exp, strand, nloc):
    """The sequence handed out by aseq[feature] is the caller's: writing to the annotated sequence afterwards does not
    change it, and editing it does not change the annotated sequence."""
    import numpy as np
    v = []
    f = w.feat(_parse_feat(feat_s))
    x = w.cur
    before = str(x.sequence)
    r = x[f]
    key = f"C13/getf/result-shares-memory/{strand}/{'single' if nloc == 1 else 'multi'}-location"
    if len(r) and np.shares_memory(r.code, x.sequence.code):
        return [(key, f"aseq[{feat_s}] returns a view of the sequence of the annotated sequence ({before})")]
    if len(r):
        saved = x.sequence.code.copy()
        x.sequence.code[:] = (saved + 1) % 4            # every base changes
        if str(r) != exp:
            v.append((key, f"r = aseq[{feat_s}] read {exp}; after writing to aseq r reads {r}"))
        x.sequence.code[:] = saved
        r.code[:] = (r.code + 1) % 4
        if str(x.sequence) != before:
            v.append((key, f"editing r = aseq[{feat_s}] changed aseq: {before} -> {x.sequence}"))
            x.sequence.code[:] = saved
    return v


def _annot_obj(fs):
    """An Annotation built independently (fixed qualifier order, sorted locations) from expected plain data."""
    from biotite.sequence import Annotation
    return Annotation([_mk_feat((k, q, sorted(ls))) for k, q, ls in sorted(fs, key=str)])


def _eq_builtin(got_obj, exp_fs, what):
    """Equal content must also be `==` (and found in sets) — the comparison users write."""
    exp = _annot_obj(exp_fs)
    if _annot_t(got_obj) == exp_fs and not (got_obj == exp and all(f in got_obj for f in exp) and all(f in exp for f in got_obj)):
        return [("C13/eq/result-unequal-to-equal-annotation", f"{what}: content {_canon_annot(got_obj)} but != an independently built equal annotation")]
    return []


def _construction_checks(x, start, letters, annot):
    """What was built is what was asked for (whatever the spelling of the arguments), `==` is an equivalence that
    separates objects differing in one place, and the location ranges are min first / max last."""
    from biotite.sequence import Location
    v = []
    want = (start, letters, _annot_fs(annot))
    got = (int(x.sequence_start), str(x.sequence), _annot_t(x.annotation))
    if got != want:
        v.append(("C13/construct/content", f"built {got}, asked for {want}"))
        return v
    same = _mk_aseq(start, letters or "_", annot)
    if x.annotation != same.annotation or not (x.annotation == same.annotation) or int(x.sequence_start) != start:
        v.append(("C13/eq/equal-content-unequal", f"{_annot_s(annot)}"))
    for f in x.annotation:
        k, q, ls = _feat_t(f)
        lo, hi = f.get_location_range()
        if (int(lo), int(hi)) != (min(l[0] for l in ls), max(l[1] for l in ls)):
            v.append(("C13/feature/location-range", f"{sorted(ls)}: ({lo}, {hi})"))
        if not (f == f) or f != _mk_feat((k, q, sorted(ls))) or hash(f) != hash(_mk_feat((k, q, sorted(ls)))):
            v.append(("C13/eq/feature", f"{sorted(ls)}"))
        for l in f.locs:
            a, b, st, d = _loc_t(l)
            for other in ((a - 1, b, st, d), (a, b + 1, st, d), (a, b, "-" if st == "+" else "+", d), (a, b, st, d ^ 1), (a, b, st, d ^ 32)):
                if l == _mk_loc(other):
                    v.append(("C13/eq/location-distinct-equal", f"{(a, b, st, d)} == {other}"))
            if l != _mk_loc((a, b, st, d)) or hash(l) != hash(_mk_loc((a, b, st, d))):
                v.append(("C13/eq/location", f"{(a, b, st, d)}"))
            # a feature that differs in one location only must be a different feature
            alt = [t for t in ls if t != (a, b, st, d)] + [(a - 1, b, st, d)]
            if (a - 1, b, st, d) not in ls and f == _mk_feat((k, q, alt)):
                v.append(("C13/eq/feature-distinct-equal", f"{sorted(ls)} == {sorted(alt)}"))
    if annot:
        k, q, ls = annot[0]
        alt = [(k, q + 1, ls)] + list(annot[1:])
        if _annot_fs(alt) != _annot_fs(annot) and x.annotation == _mk_aseq(start, letters or "_", alt).annotation:
            v.append(("C13/eq/annotation-distinct-equal", f"{_annot_s(annot)} == {_annot_s(alt)}"))
    if x == _mk_aseq(start + 1, letters or "_", annot):
        v.append(("C13/eq/start-ignored", f"start {start} == start {start + 1}"))
    if letters and set(letters) <= set("ACGT"):
        other = ("A" if letters[0] != "A" else "C") + letters[1:]
        y = _rebuild(x)
        if not (y == x):
            v.append(("C13/eq/equal-content-unequal", f"rebuilt object != original ({_canon_aseq(x)})"))
        y.sequence[0] = other[0]
        if y == x:
            v.append(("C13/eq/sequence-ignored", f"{letters} == {other}"))
    return v


def _rebuild(x):
    """A fresh object with the same content, built through the public constructors only."""
    from biotite.sequence import AnnotatedSequence, Annotation, Feature, Location, NucleotideSequence
    amb = x.sequence.get_alphabet() == NucleotideSequence.alphabet_amb
    feats = [Feature(f.key, [Location(int(l.first), int(l.last), l.strand, l.defect) for l in f.locs], dict(f.qual))
             for f in x.annotation]
    return AnnotatedSequence(Annotation(feats), NucleotideSequence(str(x.sequence), ambiguous=amb), int(x.sequence_start))


_READS = ("show", "aslice", "slice", "int", "getf", "has", "count", "range")


def _generic_checks(case):
    try:
        yield from _generic_checks_inner(case)
    except Exception as e:  # noqa: BLE001
        yield (f"C13/state/object-unusable/{type(e).__name__}", f"observing the object after {case['ops'][:4]}… raised {type(e).__name__}: {e}")


def _generic_checks_inner(case):
    """Two statements that hold for every operation of the API, whatever it computes:
    (1) a read on the long-lived object (after any history of reads, in-place edits, refused calls) gives what the same
        read gives on a fresh object built from the same content, and changes nothing;
    (2) a refused call changes nothing (receiver and copy equal their snapshots).  `aseq[feature] = x` is the one
        exception the property does not cover: it may have written the locations before the one it refuses; there only
        'annotation, start, length and every base outside the feature unchanged' is asserted."""
    w = World(case.get("spell", 0))
    fresh, fresh_snap, fresh_uses = World(0), None, 0
    for op in case["ops"]:
        name = op.split()[0]
        if name == "new" or w.cur is None:
            w.step(op)
            continue
        snap = _deep(w.cur)
        snap_cp = _deep(w.cp) if w.cp is not None else None
        if name in _READS:
            if snap != fresh_snap or fresh_uses >= 6:       # a new reference object after every change of content
                fresh.cur, fresh_snap, fresh_uses = _rebuild(w.cur), snap, 0
            fresh_uses += 1
            exp = fresh.step(op)
            got = w.step(op)
            if got != exp:
                yield (f"C13/state/{name}-differs-from-fresh-object", f"{op} after {case['ops'][:6]}…: {got} but a fresh object with the same content gives {exp}")
            if _deep(w.cur) != snap:
                yield (f"C13/state/{name}-changed-the-object", f"{op}: {snap} -> {_deep(w.cur)}")
            continue
        got = w.step(op)
        if got.startswith("ERR"):
            now = _deep(w.cur)
            if name == "setf":
                k, q, locs = _parse_feat(op.split()[1])
                start = snap[0]
                covered = {p for f, l, _, _ in locs for p in range(f, l + 1)}
                if not all(start <= f and l < start + len(snap[1]) for f, l, _, _ in locs):
                    covered = set(range(start, start + len(snap[1])))       # locations leaving the sequence wrap around (numpy)
                ok = now[0] == snap[0] and now[3] == snap[3] and len(now[1]) == len(snap[1]) and \
                    all(now[1][i] == snap[1][i] for i in range(len(snap[1])) if start + i not in covered)
                if not ok:
                    yield ("C13/refused/setf-changed-outside-the-feature", f"{op} -> {got}: {snap} -> {now}")
            elif name != "cp_setf" and now != snap:
                yield (f"C13/refused/{name}-changed-the-object", f"{op} -> {got}: {snap} -> {now}")
            if name != "cp_setf" and w.cp is not None and _deep(w.cp) != snap_cp:
                yield (f"C13/refused/{name}-changed-the-copy", f"{op} -> {got}")


def oracle(case):
    if not case.get("ops") or case["ops"][0].split()[0] != "new":
        return []
    v = list(_generic_checks(case))
    w = World(case.get("spell", 0))
    # the oracle keeps its own plain-data picture of `cur` (start, letters, annotation), updated from the property
    start = letters = annot = None
    kept_exp = None
    for op in case["ops"]:
        t = op.split()
        if t[0] == "new":
            start, letters, annot = int(t[1]), ("" if t[2] == "_" else t[2]), _parse_annot(t[3])
            got = w.step(op)
            if w.cur is None:
                return v + [("C13/construct/raises", f"{op}: {got}")]
            v += _construction_checks(w.cur, start, letters, annot)
            continue
        n = len(letters)
        end = start + n
        if t[0] == "aslice":
            a, b = (None if x == "-" else int(x) for x in t[1:3])
            exp = _clip_expected(annot, a, b)          # a > b: no base lies inside, the result is empty
            try:
                got = _annot_t(w.cur.annotation[a:b])
            except Exception as e:  # noqa: BLE001
                key = "C13/aslice/empty-slice-raises" if a is not None and b is not None and a >= b else "C13/aslice/raises"
                v.append((key, f"annotation[{_o(a)}:{_o(b)}] of {_annot_s(annot)} raised {type(e).__name__}: {e}"))
                continue
            if got != exp:
                huge = any(abs(x) >= 2 ** 63 - 1 for _, _, ls in annot for f, l, _, _ in ls for x in (f, l))
                v.append(("C13/aslice/open-bound-sentinel" if huge and (a is None or b is None) else
                          "C13/aslice/" + ("coverage" if _coverage(got) != _coverage(exp) else "defect-flags"),
                          f"annotation[{_o(a)}:{_o(b)}] of {_annot_s(annot)}: " +
                          (f"got {sorted(map(str, got))}, expected {sorted(map(str, exp))}" if huge else _explain(got, exp))))
            else:
                v += _eq_builtin(w.cur.annotation[a:b], exp, f"annotation[{_o(a)}:{_o(b)}]")
        elif t[0] == "slice":
            a, b = (None if x == "-" else int(x) for x in t[1:3])
            lo = start if a is None else a
            hi = end if b is None else b
            form = ("a" if a is not None else "") + ":" + ("b" if b is not None else "")
            if lo < start or hi < start:
                # documented: "the index must be in range of the sequence … Negative indices do not mean indexing from
                # the end": a bound left of the sequence start must be refused, never wrapped around
                got = w.step(op)
                if got != "ERR:IndexError":
                    v.append((f"C13/slice[{form}]/left-of-start-not-refused", f"aseq[{_o(a)}:{_o(b)}] with start {start}, {n} bases: {got}, expected IndexError"))
                continue
            try:
                r = w.cur[a:b]
                got_seq, got_start, got_annot = str(r.sequence), int(r.sequence_start), _annot_t(r.annotation)
            except Exception as e:  # noqa: BLE001
                key = "C13/slice/empty-slice-raises" if lo >= hi else f"C13/slice[{form}]/raises"
                v.append((key, f"aseq[{_o(a)}:{_o(b)}] (start {start}, {n} bases, {_annot_s(annot)}) raised {type(e).__name__}: {e}"))
                continue
            if got_seq != letters[lo - start:max(hi - start, 0)] or got_start != lo:
                v.append((f"C13/slice[{form}]/sequence-pairing",
                          f"aseq[{_o(a)}:{_o(b)}] start {start} seq {letters}: got start {got_start} seq {got_seq!r}, "
                          f"expected start {lo} seq {letters[lo - start:hi - start]!r}"))
            # an open bound removes nothing on that side; locations reaching beyond the end of the sequence may
            # either be kept or be cut at the end of the sequence by an open stop (both satisfy the statement)
            # (a stop beyond the end keeps what overhanging locations cover up to the stop; lo > hi keeps nothing)
            exps = [_clip_expected(annot, a, hi)] + ([_clip_expected(annot, a, None)] if b is None else [])
            if got_annot in exps:
                v += _eq_builtin(r.annotation, got_annot, f"aseq[{_o(a)}:{_o(b)}]")
            if got_annot not in exps:
                key = f"C13/slice[{form}]/" + ("coverage" if _coverage(got_annot) != _coverage(exps[0]) else "defect-flags")
                v.append((key, f"aseq[{_o(a)}:{_o(b)}] (start {start}, {n} bases) of {_annot_s(annot)}: " + _explain(got_annot, exps[0])))
        elif t[0] == "int":
            p = int(t[1])
            got = w.step(op)
            if start <= p < end:
                if got != "ok " + letters[p - start]:
                    v.append(("C13/int/value", f"aseq[{p}] start {start} seq {letters}: {got}"))
            elif got != "ERR:IndexError":
                v.append(("C13/int/out-of-range-not-refused", f"aseq[{p}] with start {start}, {n} bases: {got}, expected IndexError"))
        elif t[0] == "kept":
            got = w.step(op)
            if kept_exp is not None and got != "ok " + (kept_exp or "_"):
                v.append(("C13/getf/result-follows-later-writes", f"r = aseq[f] read {kept_exp!r}; after later writes to aseq the kept r reads {got}"))
        elif t[0] in ("getf", "setf", "keepf"):
            keep = t[0] == "keepf"
            if keep:
                t = ["getf"] + t[1:]
                kept_exp = None
            k, q, locs = _parse_feat(t[1])
            locs = list(dict.fromkeys(locs))
            strands = {l[2] for l in locs}
            in_range = all(start <= f and l < end for f, l, _, _ in locs)
            disjoint = all(a[1] < b[0] or b[1] < a[0] for i, a in enumerate(locs) for b in locs[i + 1:])
            left = any(f < start for f, l, _, _ in locs)
            if t[0] == "getf" and len(strands) != 1:
                got = w.step(op)            # documented refusal: all locations must be on one strand
                if got != "ERR:ValueError":
                    v.append(("C13/getf/mixed-strands-not-refused", f"aseq[{t[1]}]: {got}, expected ValueError"))
                continue
            if left and (t[0] == "getf" or len(strands) == 1):
                before = _deep(w.cur)
                got = w.step(op)            # a location starting left of the sequence start: refused, nothing written
                if got != "ERR:IndexError" or _deep(w.cur) != before:
                    v.append((f"C13/{t[0]}/left-of-start-not-refused", f"{op} with start {start}, {n} bases: {got}, expected IndexError and an untouched sequence"))
                letters = str(w.cur.sequence)
                continue
            if len(strands) != 1 or (t[0] == "setf" and (not in_range or _has_ties(locs))):
                w.step(op)                  # write with mixed strands / beyond the end / two locations on the same span:
                letters = str(w.cur.sequence)   # numpy clipping and write order are modelled (correspondence), the property is silent
                continue
            fwd = strands == {"+"}
            # biological order; equal first (forward) / last (reverse) are ordered by the other end, so that the result does
            # not depend on the iteration order of the location set
            order = sorted(locs, key=lambda l: (l[0], l[1])) if fwd else sorted(locs, key=lambda l: (-l[1], -l[0]))
            if t[0] == "getf":
                # Python string slicing clips at the end exactly like the sequence does for a location reaching beyond it
                exp = "".join(letters[f - start:l - start + 1] if fwd else _revcomp_str(letters[f - start:l - start + 1])
                              for f, l, _, _ in order)
                got = w.step(op)
                if keep:
                    kept_exp = exp
                tie = any(a[0] == b[0] or a[1] == b[1] for i, a in enumerate(locs) for b in locs[i + 1:])
                if got != "ok " + (exp or "_"):
                    v.append(("C13/getf/" + ("forward" if fwd else "reverse") + ("/multi-location" if len(locs) > 1 else "") +
                              ("/tie-order-depends-on-set-iteration" if tie and sorted(got[3:]) == sorted(exp) else ""),
                              f"aseq[{t[1]}] start {start} seq {letters}: {got}, expected {exp}"))
                else:
                    v += _result_independent(w, t[1], exp, "forward" if fwd else "reverse", len(locs))
            else:
                x = "" if t[2] == "_" else t[2]
                total = sum(l - f + 1 for f, l, _, _ in locs)
                if not disjoint or len(x) != total:
                    w.step(op)
                    letters = str(w.cur.sequence)
                    continue
                got = w.step(op)
                new = list(letters)
                off = 0
                for f, l, _, _ in order:
                    new[f - start:l - start + 1] = x[off:off + l - f + 1]
                    off += l - f + 1
                new = "".join(new)
                now = str(w.cur.sequence)
                if got != "ok" or now != new:
                    covered = {p for f, l, _, _ in locs for p in range(f, l + 1)}
                    outside = any(now[i] != letters[i] for i in range(n) if start + i not in covered) if len(now) == n else True
                    key = "C13/setf/outside-changed" if outside else \
                        "C13/setf/location-order" if len(locs) > 1 and sorted(now) == sorted(new) else "C13/setf/bases"
                    v.append((key, f"aseq[{t[1]}] = {x} on start {start} seq {letters}: {got}, sequence now {now}, expected {new}"))
                elif fwd:
                    back = w.step("getf " + t[1])
                    if back != "ok " + x:
                        v.append(("C13/setf/readback", f"aseq[{t[1]}] = {x} then aseq[f] gives {back}"))
                letters = now
        elif t[0] in ("addfeat", "iadd", "delfeat", "has", "count", "range"):
            canon = lambda f: (f[0], f[1], frozenset(f[2]))
            have = {canon(f) for f in annot}
            got = w.step(op)
            if t[0] in ("addfeat", "iadd"):
                for f in ([_parse_feat(t[1])] if t[0] == "addfeat" else _parse_annot(t[1])):
                    if canon(f) not in {canon(g) for g in annot}:
                        annot = annot + [f]
                if got != "ok":
                    v.append((f"C13/annotation/{t[0]}", f"{op}: {got}"))
            elif t[0] == "delfeat":
                f = _parse_feat(t[1])
                if canon(f) in have:
                    annot = [g for g in annot if canon(g) != canon(f)]
                    if got != "ok":
                        v.append(("C13/annotation/del_feature-present", f"{op} on {_annot_s(annot)}: {got}"))
                elif got != "ERR:KeyError":
                    v.append(("C13/annotation/del_feature-absent", f"{op}: {got}, expected KeyError"))
            elif t[0] == "has":
                exp = "ok " + ("true" if canon(_parse_feat(t[1])) in have else "false")
                if got != exp:
                    v.append(("C13/annotation/contains", f"{op} on {_annot_s(annot)}: {got}, expected {exp}"))
            elif t[0] == "count":
                if got != f"ok {len(have)}":
                    v.append(("C13/annotation/len", f"len of {_annot_s(annot)}: {got}, expected {len(have)}"))
            elif annot:
                exp = f"ok {min(l[0] for f in annot for l in f[2])} {max(l[1] for f in annot for l in f[2]) + 1}"
                if got != exp:
                    v.append(("C13/annotation/location-range", f"get_location_range of {_annot_s(annot)}: {got}, expected {exp}"))
            if _annot_t(w.cur.annotation) != _annot_fs(annot):
                v.append((f"C13/annotation/{t[0]}-content", f"after {op}: {_canon_annot(w.cur.annotation)}, expected {_annot_s(annot)}"))
        elif t[0] in ("setslice", "setint"):
            if t[0] == "setint":
                p, x = int(t[1]), t[2]
                valid = start <= p < end
                lo, hi = p, p + 1
            else:
                a, b = (None if z == "-" else int(z) for z in t[1:3])
                lo, hi = (start if a is None else a), (end if b is None else b)
                x = "" if t[3] == "_" else t[3]
                valid = start <= lo <= hi <= end and len(x) == hi - lo
            before = _deep(w.cur)
            got = w.step(op)
            if t[0] == "setint" and not valid:
                if got != "ERR:IndexError" or _deep(w.cur) != before:
                    v.append(("C13/setint/out-of-range-not-refused", f"{op} with start {start}, {n} bases: {got}, sequence now {w.cur.sequence}"))
            elif t[0] == "setslice" and (lo < start or hi < start):
                if got != "ERR:IndexError" or _deep(w.cur) != before:
                    v.append(("C13/setslice/left-of-start-not-refused", f"{op} with start {start}, {n} bases: {got}, sequence now {w.cur.sequence}"))
            elif t[0] == "setslice" and start <= lo <= hi <= end and len(x) not in (hi - lo, 1):
                if got != "ERR:ValueError" or _deep(w.cur) != before:
                    v.append(("C13/setslice/wrong-length-not-refused", f"{op} (window of {hi - lo} bases): {got}, sequence now {w.cur.sequence}"))
            elif t[0] == "setslice" and start <= lo <= hi <= end and len(x) == 1 and hi - lo != 1:
                new = letters[:lo - start] + x * (hi - lo) + letters[hi - start:]       # one symbol fills the window (numpy broadcast)
                if got != "ok" or str(w.cur.sequence) != new:
                    v.append(("C13/setslice/fill", f"{op} on {letters}: {got}, sequence now {w.cur.sequence}, expected {new}"))
            if valid:
                new = letters[:lo - start] + x + letters[hi - start:]
                if got != "ok" or str(w.cur.sequence) != new:
                    v.append((f"C13/{t[0]}/bases", f"{op} on start {start} seq {letters}: {got}, sequence now {w.cur.sequence}, expected {new}"))
                elif _canon_seq(w.cur[lo:hi].sequence) != (x or "_"):
                    v.append((f"C13/{t[0]}/readback", f"{op} then aseq[{lo}:{hi}] gives {w.cur[lo:hi].sequence}"))
                if _annot_t(w.cur.annotation) != _annot_fs(annot) or int(w.cur.sequence_start) != start:
                    v.append((f"C13/{t[0]}/annotation-or-start-changed", f"{op}"))
            letters = str(w.cur.sequence)
        elif t[0] == "mkloc":
            got = w.step(op)
            exp = "ERR:ValueError" if int(t[1]) > int(t[2]) else "ok"
            if got != exp:
                v.append(("C13/construct/location-first-after-last", f"Location({t[1]}, {t[2]}): {got}, expected {exp}"))
        elif t[0] == "mkfeat0":
            got = w.step(op)
            if got != "ERR:ValueError":
                v.append(("C13/construct/feature-without-locations", f"Feature(key, []): {got}, expected ValueError"))
        elif t[0] == "revcomp":
            k = 1 if t[1] == "-" else int(t[1])
            before = _canon_aseq(w.cur)
            orig = w.cur
            got = w.step(op)
            if got.startswith("ERR"):
                v.append(("C13/revcomp/raises", f"reverse_complement({k}) of {before}: {got}"))
                continue
            exp_annot = frozenset(
                (kk, q, frozenset((end - 1 - l + k, end - 1 - f + k, "-" if st == "+" else "+",
                                   (d & ~15) | ((d & 1) << 1) | ((d & 2) >> 1) | ((d & 4) << 1) | ((d & 8) >> 1))
                                  for f, l, st, d in ls)) for kk, q, ls in annot)
            r = w.cur
            if str(r.sequence) != _revcomp_str(letters) or int(r.sequence_start) != k or _annot_t(r.annotation) != exp_annot:
                v.append(("C13/revcomp/value", f"reverse_complement({k}) of {before}: {got}"))
            else:
                v += _eq_builtin(r.annotation, exp_annot, f"reverse_complement({k})")
            try:
                back = r.reverse_complement(start)
                if _canon_aseq(back) != before or not (back == orig):
                    v.append(("C13/revcomp/involution", f"{before} -> {got} -> {_canon_aseq(back)}"))
            except Exception as e:  # noqa: BLE001
                v.append(("C13/revcomp/involution", f"second reverse_complement raised {type(e).__name__}: {e}"))
            letters, start = str(r.sequence), k
            annot = [(kk, q, sorted(ls)) for kk, q, ls in sorted(_annot_t(r.annotation), key=str)]
        elif t[0] == "copy":
            before = _canon_aseq(w.cur)
            try:
                c = w.cur.copy()
                same = (_canon_aseq(c) == before) and (c == w.cur)
            except Exception as e:  # noqa: BLE001
                c, same = None, False
                why = f"{type(e).__name__}: {e}"
            else:
                why = "copy != original"
            if not same:
                try:
                    not_seq = not hasattr(c.sequence, "code")
                except Exception:
                    not_seq = False
                v.append(("C13/copy/sequence-not-copied" if not_seq else "C13/copy/unequal", f"copy of {before}: {why}"))
            else:
                v += _copy_independence(start, letters, annot)
            w.step(op)
        else:
            w.step(op)      # show / cp_* : correspondence only
    return v


# ---------------------------------------------------------------- generator
def _rand_seq(rng, n):
    alpha = "ACGT" if rng.random() < 0.8 else LETTERS
    return "".join(rng.choice(alpha) for _ in range(n))


def _rand_loc(rng, lo, hi, strand=None, defect=None):
    """A location with lo <= first <= last <= hi."""
    f = rng.randint(lo, hi)
    l = min(hi, f + rng.choice([0, 0, 1, 2, 3, 5, 8, hi - lo]))
    st = strand or rng.choice("+-")
    d = defect if defect is not None else rng.choice([0, 0, 0, 1, 2, 3, 4, 8, 16, 32, rng.randint(0, 63)])
    return (f, l, st, d)


def _rand_annot(rng, lo, hi, nf=None):
    """Features with unsorted, sometimes duplicated, touching, nested locations; sometimes the same feature twice; pairs of
    locations that differ only in -1 / -2 (equal Python hashes) when the range allows."""
    out = []
    for _ in range(nf if nf is not None else rng.randint(1, 4)):
        locs = [_rand_loc(rng, lo, hi) for _ in range(rng.randint(1, 4))]
        r = rng.random()
        if r < 0.12:
            locs.append(rng.choice(locs))                                   # duplicate (frozenset removes it)
        elif r < 0.24 and locs[0][1] < hi:
            locs.append((locs[0][1] + 1, min(hi, locs[0][1] + 2), locs[0][2], locs[0][3]))    # touching
        elif r < 0.34 and lo <= -2 and hi >= 0:
            l = rng.randint(0, hi)
            locs += [(-1, l, "+", 0), (-2, l, "+", 0)] if rng.random() < 0.5 else [(lo, -1, "-", 1), (lo, -2, "-", 1)]
        elif r < 0.42:
            f, l, st, d = locs[0]
            locs.append((f, l, "-" if st == "+" else "+", d))                 # same span, other strand
        if rng.random() < 0.9:
            locs = list(dict.fromkeys(locs))
        out.append((rng.randint(0, 3), rng.randint(0, 2), locs))
    if out and rng.random() < 0.1:
        out.append(out[0])                                                   # the same feature twice
    return out


def _bounds(rng, annot, lo, hi, extra=()):
    """Slice bounds biased to the places where an off-by-one shows: location ends +-1, 0, -1, 1, the given limits."""
    pool = [x for x in extra if lo <= x <= hi] + [x for x in (0, -1, 1) if lo <= x <= hi]
    for _, _, locs in annot:
        for f, l, _, _ in locs:
            pool += [x for x in (f - 1, f, f + 1, l - 1, l, l + 1) if lo <= x <= hi]
    if pool and rng.random() < 0.7:
        return rng.choice(pool)
    return rng.randint(lo, hi)


def _disjoint_locs(rng, lo, hi, strand, kmax=4):
    """1..kmax pairwise disjoint locations inside [lo, hi], uniform strand, arbitrary defects, shuffled."""
    n = hi - lo + 1
    k = rng.randint(1, min(kmax, max(1, n // 2)))
    cuts = sorted(rng.sample(range(lo, hi + 2), min(2 * k, n + 1)))
    locs = []
    for i in range(0, len(cuts) - 1, 2):
        f, l = cuts[i], cuts[i + 1] - 1
        if f <= l:
            locs.append((f, l, strand, rng.choice([0, 0, 1, 2, 3, rng.randint(0, 63)])))
    rng.shuffle(locs)
    return locs or [(lo, lo, strand, 0)]


def _new(start, letters, annot):
    return f"new {start} {letters or '_'} {_annot_s(annot)}"


def _case(kind, start, letters, annot, ops):
    return {"kind": kind, "ops": [_new(start, letters, annot)] + ops}


def _gen_aslice(rng):
    annot = _rand_annot(rng, -25, 40)
    ops = []
    for _ in range(5):
        r = rng.random()
        a = _bounds(rng, annot, -28, 44)
        b = _bounds(rng, annot, a, 46) if rng.random() < 0.85 else a + rng.choice([0, 1])
        if r < 0.15:
            a = None
        elif r < 0.3:
            b = None
        elif r < 0.35:
            a = b = None
        ops.append(f"aslice {_o(a)} {_o(b)}")
    return _case("aslice", 1, "ACGT", annot, ops)


def _gen_slice(rng, overhang=False):
    start = rng.choice([1, 1, 2, 5, rng.randint(1, 50)])
    n = rng.choice([0, 1, 2, 4, 6, 8, 10, 12, 14])
    letters = _rand_seq(rng, n)
    end = start + n
    if n == 0:
        annot = _rand_annot(rng, start - 3, start + 3) if overhang else []
    elif overhang:
        annot = _rand_annot(rng, start - 6, end + 5)
    else:
        annot = _rand_annot(rng, start, end - 1)
    ops = []
    for form in rng.sample(["ab", "a", "b", "", "ab", "ab"], 5):
        a = _bounds(rng, annot, start, end, (start, end))
        b = _bounds(rng, annot, a, end, (end,))
        if rng.random() < 0.2:
            b = end
        if rng.random() < 0.1:
            b = a
        ops.append(f"slice {_o(a if 'a' in form else None)} {_o(b if 'b' in form else None)}")
    if n:
        ops.append(f"int {rng.randint(start, end - 1)}")
    return _case("slice-overhang" if overhang else "slice", start, letters, annot, ops)


def _gen_feature(rng):
    start = rng.choice([1, 1, 3, rng.randint(1, 50)])
    n = rng.choice([2, 4, 6, 9, 12, 14])
    letters = _rand_seq(rng, n)
    annot = _rand_annot(rng, start, start + n - 1, nf=rng.randint(0, 2))
    ops = []
    alpha = "ACGT" if set(letters) <= set("ACGT") else LETTERS
    for _ in range(2):
        strand = rng.choice("+-")
        locs = _disjoint_locs(rng, start, start + n - 1, strand)
        f = (rng.randint(0, 3), 0, locs)
        total = sum(l - a + 1 for a, l, _, _ in locs)
        x = "".join(rng.choice(alpha) for _ in range(total))
        ops += [f"keepf {_feat_s(f)}", f"setf {_feat_s(f)} {x}", "kept", f"getf {_feat_s(f)}"]
    # an overlapping (but tie-free) feature is read only
    ost = rng.choice("+-")
    l1 = _rand_loc(rng, start, start + n - 1, ost, 0)
    l2 = _rand_loc(rng, start, start + n - 1, ost, 1)
    if l1 != l2:
        ops.append(f"getf {_feat_s((0, 0, [l1, l2]))}")
    # equal first (forward) / equal last (reverse): ordered by the other end, whatever the set iteration order
    a0 = rng.randint(start, start + n - 2)
    tie = [(a0, rng.randint(a0, start + n - 1), "+", d) for d in rng.sample(range(64), 3)]
    if len({l[1] for l in tie}) > 1:
        ops.append(f"getf {_feat_s((1, 0, list(dict.fromkeys(tie))))}")
    b0 = rng.randint(start + 1, start + n - 1)
    tie = [(rng.randint(start, b0), b0, "-", d) for d in rng.sample(range(64), 3)]
    if len({l[0] for l in tie}) > 1:
        ops.append(f"getf {_feat_s((1, 0, list(dict.fromkeys(tie))))}")
    ops.append("show")
    return _case("feature", start, letters, annot, ops)


def _gen_revcomp(rng):
    start = rng.choice([1, 1, 4, rng.randint(1, 50)])
    n = rng.choice([0, 1, 3, 6, 10, 14])
    letters = _rand_seq(rng, n)
    annot = _rand_annot(rng, start - 4, start + n + 3) if rng.random() < 0.4 else (_rand_annot(rng, start, start + n - 1) if n else [])
    k = rng.choice([1, "-", start, rng.randint(1, 50)])
    ops = [f"revcomp {k}", f"revcomp {start}", "show"]
    k = 1 if k == "-" else k
    if n and annot and rng.random() < 0.5:
        ops.insert(1, f"slice {k + rng.randint(0, n // 2)} -")
    return _case("revcomp", start, letters, annot, ops)


def _gen_copy(rng):
    start = rng.choice([1, 2, rng.randint(1, 50)])
    n = rng.choice([1, 3, 6, 10])
    letters = _rand_seq(rng, n)
    annot = _rand_annot(rng, start, start + n - 1, nf=rng.randint(0, 3))
    alpha = "ACGT" if set(letters) <= set("ACGT") else LETTERS
    p = rng.randint(start, start + n - 1)
    c = rng.choice([x for x in alpha if x != letters[p - start]])
    f = (rng.randint(0, 3), rng.randint(3, 5), [_rand_loc(rng, start, start + n - 1)])
    locs = _disjoint_locs(rng, start, start + n - 1, "+", 2)
    total = sum(l - a + 1 for a, l, _, _ in locs)
    ops = ["copy", f"cp_mut_qual {rng.randint(6, 9)}", "show", "cp_show", "mut_features", f"mut_qual {rng.randint(6, 9)}", "cp_mut_features",
           "show", "cp_show", f"cp_setint {p} {c}", "show", "cp_show", f"cp_addfeat {_feat_s(f)}",
           f"cp_setf {_feat_s((0, 0, locs))} {''.join(rng.choice(alpha) for _ in range(total))}", "show", "cp_show"]
    return _case("copy", start, letters, annot, ops)


def _gen_history(rng):
    """ONE object through a history: reads, in-place edits of the annotation and of the sequence, refused calls, reads
    again.  Every read is also compared with a fresh object of the same content (oracle, `_generic_checks`)."""
    start = rng.choice([1, 1, 2, 7, rng.randint(1, 50)])
    n = rng.choice([3, 5, 8, 12])
    letters = _rand_seq(rng, n)
    end = start + n
    alpha = "ACGT" if set(letters) <= set("ACGT") else LETTERS
    annot = _rand_annot(rng, start, end - 1, nf=rng.randint(1, 3))
    pool = list(annot)
    start0, annot0 = start, list(annot)

    def reads():
        a = _bounds(rng, annot, start, end, (start, end))
        b = _bounds(rng, annot, a, end, (end,))
        form = rng.choice(["ab", "ab", "a", "b", ""])
        locs = _disjoint_locs(rng, start, end - 1, rng.choice("+-"), 3)
        return [f"slice {_o(a if 'a' in form else None)} {_o(b if 'b' in form else None)}",
                f"aslice {_o(a if rng.random() < 0.8 else None)} {_o(b)}", f"getf {_feat_s((0, 0, locs))}",
                rng.choice(["count", "range", f"int {rng.randint(start, end - 1)}", f"has {_feat_s(rng.choice(pool))}"])]

    ops = reads()
    for _ in range(rng.randint(3, 5)):
        r = rng.random()
        if r < 0.2:
            f = (rng.randint(0, 3), rng.randint(0, 2), list(dict.fromkeys(_rand_loc(rng, start, end - 1) for _ in range(rng.randint(1, 3)))))
            pool.append(f)
            ops.append(f"addfeat {_feat_s(f)}")
        elif r < 0.3:
            fs = [(rng.randint(0, 3), 2, [_rand_loc(rng, start, end - 1)]) for _ in range(rng.randint(1, 2))]
            pool += fs
            ops.append(f"iadd {_annot_s(fs)}")
        elif r < 0.45:
            ops.append(f"delfeat {_feat_s(rng.choice(pool))}")           # present, or already deleted -> KeyError
        elif r < 0.55:
            a = rng.randint(start, end)
            b = rng.randint(a, end)
            form = rng.choice(["ab", "ab", "a", "b"])
            lo, hi = (a if "a" in form else start), (b if "b" in form else end)
            x = "".join(rng.choice(alpha) for _ in range(hi - lo + (rng.choice([0, 0, 0, 1, 2]))))
            ops.append(f"setslice {_o(a if 'a' in form else None)} {_o(b if 'b' in form else None)} {x or '_'}")
        elif r < 0.65:
            ops.append(f"setint {rng.randint(start - 1, end)} {rng.choice(alpha)}")   # the two ends are refused / wrap
        elif r < 0.85:
            locs = _disjoint_locs(rng, start, end - 1, rng.choice("+-"), 3)
            total = sum(l - a + 1 for a, l, _, _ in locs)
            x = "".join(rng.choice(alpha) for _ in range(total + rng.choice([0, 0, 0, -1, 2])))
            ops.append(f"setf {_feat_s((0, 0, locs))} {x or '_'}")
        elif r < 0.93:
            ops.append(f"slice {start - rng.randint(1, 3)} {end}")          # refused: IndexError
            l1, l2 = (start, start, "+", 0), (end - 1, end - 1, "-", 0)
            ops.append(f"getf {_feat_s((0, 0, [l1, l2]))}")                 # refused: mixed strands
        else:
            k = rng.choice(["-", "-", str(start), str(rng.randint(1, 50))])
            ops.append(f"revcomp {k}")
            start = 1 if k == "-" else int(k)
            end = start + n
            annot, pool = [], [(0, 0, [(start, start, "+", 0)])]
        ops += reads()
    ops.append("show")
    return _case("history", start0, letters, annot0, ops)


def _gen_refusals(rng):
    """The regions the theorems exclude by hypothesis, one by one: what the code must refuse (bounds and locations left
    of the sequence start, positions outside the sequence, both strands in one read, a value of the wrong width,
    Location(first > last), Feature without locations) and what it accepts beyond the comfortable range (stop beyond the
    end, reversed and empty slices, a location reaching beyond the end, one symbol filling a window)."""
    start = rng.choice([1, 2, 5, rng.randint(1, 50)])
    n = rng.choice([1, 3, 6, 10])
    letters = _rand_seq(rng, n)
    end = start + n
    alpha = "ACGT" if set(letters) <= set("ACGT") else LETTERS
    annot = _rand_annot(rng, start - 3, end + 3, nf=rng.randint(1, 3))
    below = start - rng.randint(1, n + 2)
    inside = rng.randint(start, end)
    word = lambda k: "".join(rng.choice(alpha) for _ in range(k)) or "_"
    menu = [
        f"slice {below} {inside}", f"slice {below} -", f"slice - {below}", f"slice {inside} {below}", f"slice {below} {below - 1}",
        f"slice {inside} {end + rng.randint(1, 4)}", f"slice - {end + rng.randint(1, 4)}", f"slice {end} {end + 2}",
        f"slice {end + 1} -", f"slice {inside} {rng.randint(start, inside)}",
        f"aslice {inside} {inside - rng.randint(1, 5)}", f"aslice {end + 2} {start - 2}",
        f"int {below}", f"int {start - 1}", f"int {start - n}", f"int {start - n - 1}", f"int {end}", f"int {end + 2}", f"int {start}", f"int {end - 1}",
        f"setint {start - 1} {rng.choice(alpha)}", f"setint {start - n} {rng.choice(alpha)}", f"setint {end} {rng.choice(alpha)}", f"setint {end - 1} {rng.choice(alpha)}",
        f"setslice {below} {inside} {word(inside - below)}", f"setslice - {below} {word(1)}", f"setslice {below} - {word(1)}",
        f"setslice {start} {end} {word(n + 1)}", f"setslice {start} {end} {word(max(0, n - 1)) if n != 2 else word(3)}", f"setslice {start} {end} {word(1)}",
        f"setslice {inside} {inside} _", f"setslice {inside} {end + 2} {word(end - inside)}", f"setslice - - {word(n)}",
        f"mkloc {inside} {inside - 1}", f"mkloc {inside} {inside}", f"mkloc {below} {inside}", f"mkloc {inside} {below}", "mkfeat0",
        f"getf {_feat_s((0, 0, [(start, start, '+', 0), (end - 1, end - 1, '-', 0)]))}",
        f"getf {_feat_s((0, 0, [(start - 1, start, '+', 0)]))}", f"getf {_feat_s((0, 0, [(below, below, '-', 1), (start, end - 1, '-', 0)]))}",
        f"getf {_feat_s((0, 0, [(end - 1, end + 2, '+', 0)]))}", f"getf {_feat_s((0, 0, [(end - 1, end + 1, '-', 3), (start, start, '-', 0)]))}",
        f"getf {_feat_s((0, 0, [(end + 1, end + 3, '+', 0)]))}",
        f"setf {_feat_s((0, 0, [(start - 1, start, '+', 0)]))} {word(2)}", f"setf {_feat_s((0, 0, [(start, start, '+', 0), (below, below, '+', 0)]))} {word(2)}",
        f"setf {_feat_s((0, 0, [(end - 1, end, '+', 0)]))} {word(2)}",
    ]
    ops = []
    for o in rng.sample(menu, 9):
        ops += [o, rng.choice(["show", f"slice {start} {end}", f"int {start}", "count"])]
    return _case("refusals", start, letters, annot, ops)


def _gen_huge(rng):
    """Positions are unbounded Python ints: locations at and beyond +-(2**63-1) (where a sentinel such as sys.maxsize would
    sit), sliced with an omitted start, an omitted stop, both, and explicit bounds of the same size."""
    M = 2 ** 63 - 1
    pts = [M - 2, M - 1, M, M + 1, M + 5, 2 ** 70, -M + 1, -M, -M - 1, -M - 2, -M - 6, -2 ** 70, 0, 3, -7, 40]
    annot = []
    for _ in range(rng.randint(1, 3)):
        locs = []
        for _ in range(rng.randint(1, 3)):
            a, b = sorted((rng.choice(pts), rng.choice(pts)))
            if rng.random() < 0.3:
                b = a + rng.randint(0, 3)
            locs.append((a, b, rng.choice("+-"), rng.choice([0, 0, 1, 2, 3, 16])))
        annot.append((rng.randint(0, 3), rng.randint(0, 2), list(dict.fromkeys(locs))))
    ops = ["aslice - -", f"aslice {rng.choice(pts)} -", f"aslice - {rng.choice(pts)}", f"aslice {rng.choice([0, -M - 1, M - 1, M, M + 1])} -",
           f"aslice - {rng.choice([5, M - 1, M, M + 1, M + 6])}"]
    a, b = sorted((rng.choice(pts), rng.choice(pts)))
    ops += [f"aslice {a} {b}", f"aslice {a} {a + 1}", "count", "range"]
    return _case("huge", 1, "ACGT", annot, ops)


def _gen_malformed(rng):
    """Outside the theorem hypotheses: slices leaving the sequence or reversed, features outside the sequence,
    mixed strands, wrong-length values.  Only the correspondence (and 'never an unexpected exception class') applies."""
    start = rng.choice([1, 3, rng.randint(1, 30)])
    n = rng.choice([0, 2, 5, 8])
    letters = _rand_seq(rng, n)
    end = start + n
    annot = _rand_annot(rng, start - 6, end + 6, nf=rng.randint(0, 3))
    alpha = "ACGT" if set(letters) <= set("ACGT") else LETTERS
    ops = []
    for _ in range(3):
        a = rng.randint(start - 4, end + 4)
        b = rng.randint(start - 4, end + 4)
        form = rng.choice(["ab", "ab", "a", "b"])
        ops.append(f"slice {_o(a if 'a' in form else None)} {_o(b if 'b' in form else None)}")
    ops.append(f"aslice {rng.randint(-5, 20)} {rng.randint(-5, 20)}")
    ops.append(f"int {rng.randint(start - n - 2, end + 2)}")
    locs = list(dict.fromkeys(_rand_loc(rng, start - 3, end + 3, rng.choice(["+", "-", None]), 0) for _ in range(rng.randint(1, 3))))
    f = (1, 1, locs)
    total = sum(l - a + 1 for a, l, _, _ in locs)
    x = "".join(rng.choice(alpha) for _ in range(max(0, total + rng.choice([0, 0, -1, 1, -total + 1, 3]))))
    ops += [f"getf {_feat_s(f)}", f"setf {_feat_s(f)} {x or '_'}", "show"]
    return _case("malformed", start, letters, annot, ops)


def _exhaustive(max_len):
    """Every sequence length <= max_len, starts 1 and 4, every single location and a grid of location pairs in
    [start-1, end], every slice of all four forms inside the sequence."""
    for start in (1, 4):
        for n in range(0, max_len + 1):
            letters = ("ACGTGA" * 3)[:n]
            end = start + n
            slices = [(a, b) for a in range(start, end + 1) for b in range(a, end + 1)]
            ops = [f"slice {a} {b}" for a, b in slices]
            ops += [f"slice {a} -" for a in range(start, end + 1)] + [f"slice - {b}" for b in range(start, end + 1)] + ["slice - -"]
            locs = [(f, l) for f in range(start - 1, end + 1) for l in range(f, end + 1)]
            for i, (f, l) in enumerate(locs):
                d = (0, 1, 2, 3, 21, 42)[i % 6]
                st = "+-"[i % 2]
                f2, l2 = locs[(i * 7 + 3) % len(locs)]
                annot = [(0, 0, [(f, l, st, d)]), (1, 0, list(dict.fromkeys([(f, l, st, 0), (f2, l2, "+", d)])))]
                kind = "slice" if start <= f and l < end else "slice-overhang"
                yield _case(kind, start, letters, annot, ops)
                if start <= f and l < end:
                    x = ("TGCA" * 3)[:l - f + 1]
                    feat = _feat_s((0, 0, [(f, l, st, d)]))
                    yield _case("feature", start, letters, [], [f"keepf {feat}", f"setf {feat} {x}", "kept", f"getf {feat}", "show",
                                                              "revcomp 1", f"revcomp {start}", "copy", f"cp_setint {f} {'A' if x[0] != 'A' else 'C'}", "show", "cp_show"])


def cases(rng, tier):
    quick = tier == "quick"
    plan = [("aslice", 260), ("slice", 300), ("slice-overhang", 120), ("feature", 260), ("revcomp", 120), ("copy", 100), ("malformed", 140),
            ("history", 200), ("refusals", 150), ("huge", 80)]
    mult = 2 if quick else 40
    gens = {"aslice": _gen_aslice, "slice": _gen_slice, "slice-overhang": lambda r: _gen_slice(r, overhang=True), "feature": _gen_feature,
            "revcomp": _gen_revcomp, "copy": _gen_copy, "malformed": _gen_malformed, "history": _gen_history, "refusals": _gen_refusals, "huge": _gen_huge}
    for kind, cnt in plan:
        for _ in range(cnt * mult):
            c = gens[kind](rng)
            c["spell"] = rng.randrange(4620)       # how the same arguments are spelled on the implementation side
            if kind == "huge":
                c["spell"] -= c["spell"] % 7       # positions beyond int64 exist as Python ints only
            yield c
    for i, c in enumerate(_exhaustive(3 if quick else 6)):
        c["spell"] = (i * 7) % 4620
        yield c


def corpus():
    """Witnesses of the four repaired defects (also stored under known_findings.d/C13.json 'fixed') and edge cases."""
    return [
        # copy: `self._sequence.copy` was passed uncalled
        _case("copy", 1, "ACGTACGTAC", [(0, 0, [(1, 4, "+", 0), (7, 10, "+", 0)])], ["copy", "cp_setint 1 C", "show", "cp_show"]),
        # accessor results are copies: editing them changes neither the copy nor the original
        _case("copy", 1, "ACGT", [(0, 1, [(1, 2, "+", 0)]), (2, 0, [(3, 4, "-", 3)])],
              ["copy", "cp_mut_qual 9", "show", "cp_show", "mut_features", "mut_qual 8", "show", "cp_show"]),
        # open stop with sequence start 1 (cut last base) and 5 (features dropped)
        _case("slice", 1, "ACGTACGTAC", [(0, 0, [(1, 4, "+", 0), (7, 10, "+", 0)])], ["slice 2 -", "slice - -"]),
        _case("slice", 5, "ACGTACGTAC", [(0, 0, [(5, 8, "+", 0), (11, 14, "+", 0)])], ["slice 6 -", "slice - -", "slice - 8"]),
        # feature assignment order (four locations, different flag sets => different hashes)
        _case("feature", 1, "AAAAAAAAAAAA", [], ["setf 0/0/1:2:+:0,4:5:+:1,7:8:+:2,10:11:+:3 ACGTACGG", "getf 0/0/1:2:+:0,4:5:+:1,7:8:+:2,10:11:+:3", "show"]),
        _case("feature", 3, "AAAAAAAAAAAA", [], ["setf 0/0/3:4:-:0,6:7:-:1,9:10:-:2,12:13:-:3 ACGTACGG", "getf 0/0/3:4:-:0,6:7:-:1,9:10:-:2,12:13:-:3", "show"]),
        # empty slice inside a location
        _case("aslice", 1, "ACGT", [(0, 0, [(1, 10, "+", 0)])], ["aslice 3 3", "aslice 1 1", "aslice 11 11", "aslice 3 4"]),
        _case("slice", 1, "ACGTAC", [(0, 0, [(1, 6, "-", 0)])], ["slice 3 3", "slice 1 1", "slice 7 7"]),
        # positions left of the sequence start used to wrap around to the end of the sequence
        _case("refusals", 5, "ACGTACGTAC", [(0, 0, [(5, 8, "+", 0)])],
              ["int 4", "int 0", "slice - 3", "slice 6 3", "setint 4 T", "show", "setslice 3 14 T", "show", "getf 0/0/3:6:+:0", "setf 0/0/4:5:+:0 TT", "show"]),
        # equal first / equal last: ordered by the other end, not by set iteration
        _case("feature", 1, "ACGTACGTAC", [], ["getf 0/0/2:3:+:0,2:6:+:1,2:9:+:2,2:4:+:3", "getf 0/0/2:9:-:0,5:9:-:1,7:9:-:2,3:9:-:4"]),
        # open bound with a position beyond -sys.maxsize (known finding: the sentinel cuts the location)
        _case("aslice", 1, "ACGT", [(0, 0, [(-9223372036854775812, 3, "+", 0)])], ["aslice - 10", "aslice -9223372036854775812 10"]),
        # … and the same on the right: a location ending at / beyond sys.maxsize with an omitted stop
        _case("aslice", 1, "ACGT", [(0, 0, [(5, 9223372036854775807, "+", 0), (9223372036854775810, 9223372036854775815, "-", 1)]), (1, 0, [(-3, 9223372036854775806, "+", 0)])],
              ["aslice 2 -", "aslice - -", "aslice 9223372036854775807 -", "aslice 2 9223372036854775900"]),
        # the upstream unit test's data
        _case("slice", 1, "ATGGCGTACGATTAGAAAAAAA", [(0, 0, [(1, 2, "+", 0), (11, 12, "+", 0)]), (0, 1, [(16, 22, "+", 0)])],
              ["int 2", "slice - 16", "slice 16 -", "slice 1 17", "getf 0/0/1:2:+:0,11:12:+:0", "getf 1/1/1:4:-:0,8:12:-:0"]),
    ]


# ---------------------------------------------------------------- bookkeeping
def nontrivial(case, impl_out):
    if not impl_out:
        return False
    if any(o.startswith("ERR") for o in impl_out):
        return True
    new = case["ops"][0].split()
    return any(op.split()[0] in ("getf", "setf", "revcomp", "copy") for op in case["ops"]) or \
        any(o != "ok " + " ".join(new[1:]) and o != "ok " + new[3] for op, o in zip(case["ops"][1:], impl_out[1:])
            if op.split()[0] in ("slice", "aslice"))


def signature(case):
    return "|".join(case["ops"])


def distribution(cases, impl_outs):
    outcomes, forms, nloc = {}, {}, {}
    for c, o in zip(cases, impl_outs):
        for op, line in zip(c.get("ops", []), o or []):
            k = op.split()[0] + ":" + line.split(" ")[0]
            outcomes[k] = outcomes.get(k, 0) + 1
            w = op.split()
            if w[0] in ("slice", "aslice"):
                f = w[0] + "[" + ("a" if w[1] != "-" else "") + ":" + ("b" if w[2] != "-" else "") + "]"
                forms[f] = forms.get(f, 0) + 1
            if w[0] in ("getf", "setf"):
                k2 = str(w[1].count(",") + 1) + ("-" if ":-:" in w[1] else "+")
                nloc[k2] = nloc.get(k2, 0) + 1
    return {"outcomes": outcomes, "slice_forms": forms, "feature_locations_strand": nloc}


def search(rng, problems, tier):
    """Failing-input search: the corpus witnesses, the exhaustive small enumeration and a fresh random stream."""
    yield from corpus()
    yield from _exhaustive(4)
    yield from cases(rng, "quick")


def shrink(case, key):
    """Drop ops (never the leading `new`) while the oracle still reports the same key."""
    from common import util

    def fails(ops):
        try:
            return any(k == key for k, _ in oracle(dict(case, ops=[case["ops"][0]] + ops)))
        except Exception:
            return False
    ops = util.shrink_list(case["ops"][1:], fails, max_steps=60)
    return dict(case, ops=[case["ops"][0]] + ops)


def write_expected():
    """Maintenance helper (run by hand after REVIEWING a deliberate change of the anchored source):
    `cd harness && /venv/bin/python -c "from props import c13; c13.write_expected()"` rewrites the reviewed snapshot
    lean/BiotiteModel/Proofs/C13Expected.lean from the current source.  Never called by the check."""
    from common import paths
    import re
    g = gen_lean()["BiotiteModel/Gen/C13.lean"]
    keep = []
    for m in re.finditer(r"^def (nf\w*|defaults|rangeFacts) : .*?(?=^/--|^def |^end )", g, re.S | re.M):
        keep.append(m.group(0).rstrip())
    body = ["/-! Reviewed snapshot of the structural normal forms of the anchored functions (see `harness/props/c13_norm.py`).",
            "The hand-written model `Model/C13.lean` was written against exactly these steps; `Props/C13.lean` proves that what is",
            "regenerated from the source on every run equals them.  Rewritten only by `c13.write_expected()` after review. -/",
            "namespace BiotiteModel.C13.Expected"] + keep + ["end BiotiteModel.C13.Expected", ""]
    with open(os.path.join(paths.LEAN, "BiotiteModel/Proofs/C13Expected.lean"), "w") as f:
        f.write("\n".join(body))

"""Structural normal form of small Python functions (used by the C13 Gen translator).

A function is executed *symbolically*, statement by statement, and reduced to the list of its observable steps

    raise <ExceptionClass>            if <path condition>
    return <expr>                     if <path condition>
    call <expr>                       if <path condition>     (expression statements: helper calls, appends, …)
    store <target> = <expr>           if <path condition>     (assignments to attributes / subscripts)

where every expression is written over the function's *inputs only*:
  * parameters are named positionally (`self`, `p1`, `p2`, …), loop variables as `el(<iterable>)`, comprehension and
    lambda variables `c0…` / `a0…`;
  * local variables are replaced by their definitions (`x = a` … `f(x)` becomes `f(a)`; an `if/else` that assigns `x` in
    both arms and a conditional expression both become `a if c else b`; `x |= y` becomes `x | y`);
  * attributes of `self` that `__init__` stores from a parameter are written `self.<parameter name>` (public), so that a
    renamed private attribute does not matter;
  * a call of a private method of the same class whose body is `if <test>: raise <Exc>` is replaced by
    `guard(<test>, <Exc>)`, so that a renamed helper does not matter;
  * docstrings, comments, annotations and the arguments of `raise` (messages) are dropped; `if c: continue` followed by
    statements and `if not c: <statements>` give the same path conditions.
Literals, operators, operand order, the order of steps, exception classes, public names and default values all stay
significant.  Unsupported statements (while / try / with / nested defs) raise ValueError: the tie is then reported broken.
"""
import ast
import copy


def _neg(t):
    if isinstance(t, ast.UnaryOp) and isinstance(t.op, ast.Not):
        return t.operand
    return ast.UnaryOp(op=ast.Not(), operand=t)


class _Simp(ast.NodeTransformer):
    """Meaning-preserving clean-up after substitution: `A if not c else B` -> `B if c else A`, `X if c else X` -> X,
    `(A if c else B).attr` -> `A.attr if c else B.attr`, `slice(a, b, c).start|stop|step` -> a|b|c."""

    def visit_IfExp(self, node):
        node = self.generic_visit(node)
        if isinstance(node.test, ast.UnaryOp) and isinstance(node.test.op, ast.Not):
            node = ast.IfExp(test=node.test.operand, body=node.orelse, orelse=node.body)
        if ast.dump(node.body) == ast.dump(node.orelse):
            return node.body
        return node

    @staticmethod
    def _is_len(e):
        return isinstance(e, ast.Call) and isinstance(e.func, ast.Name) and e.func.id == "len" and len(e.args) == 1 and not e.keywords

    def visit_Compare(self, node):
        node = self.generic_visit(node)
        # `len(x) > 0` is `len(x) != 0` (a length is a non-negative integer)
        if len(node.ops) == 1 and isinstance(node.ops[0], ast.Gt) and self._is_len(node.left) \
                and isinstance(node.comparators[0], ast.Constant) and node.comparators[0].value == 0:
            return ast.Compare(left=node.left, ops=[ast.NotEq()], comparators=node.comparators)
        return node

    def visit_UnaryOp(self, node):
        node = self.generic_visit(node)
        if isinstance(node.op, ast.Not) and isinstance(node.operand, ast.Compare) and len(node.operand.ops) == 1:
            c = node.operand
            flip = {ast.Is: ast.IsNot, ast.IsNot: ast.Is, ast.In: ast.NotIn, ast.NotIn: ast.In}
            if type(c.ops[0]) in flip:        # exact for every operand
                return ast.Compare(left=c.left, ops=[flip[type(c.ops[0])]()], comparators=c.comparators)
            if isinstance(c.ops[0], (ast.Eq, ast.NotEq)) and self._is_len(c.left) and isinstance(c.comparators[0], ast.Constant):
                return ast.Compare(left=c.left, ops=[ast.NotEq() if isinstance(c.ops[0], ast.Eq) else ast.Eq()], comparators=c.comparators)
        if isinstance(node.op, ast.Not) and isinstance(node.operand, ast.UnaryOp) and isinstance(node.operand.op, ast.Not):
            return node.operand.operand
        return node

    def visit_Call(self, node):
        node = self.generic_visit(node)
        # `set([a, b])` is `{a, b}`
        if isinstance(node.func, ast.Name) and node.func.id == "set" and len(node.args) == 1 and not node.keywords \
                and isinstance(node.args[0], (ast.List, ast.Tuple)) and node.args[0].elts:
            return ast.Set(elts=node.args[0].elts)
        return node

    def visit_Attribute(self, node):
        node = self.generic_visit(node)
        v = node.value
        if isinstance(v, ast.IfExp):
            return self.visit(ast.IfExp(test=v.test, body=ast.Attribute(value=v.body, attr=node.attr, ctx=ast.Load()),
                                        orelse=ast.Attribute(value=v.orelse, attr=node.attr, ctx=ast.Load())))
        if isinstance(v, ast.Call) and isinstance(v.func, ast.Name) and v.func.id == "slice" and len(v.args) == 3 \
                and not v.keywords and node.attr in ("start", "stop", "step"):
            return v.args[("start", "stop", "step").index(node.attr)]
        return node


class _Subst(ast.NodeTransformer):
    def __init__(self, norm):
        self.n = norm
        self.bound = []        # stack of {name: replacement name} for lambda / comprehension variables

    def visit_Name(self, node):
        for scope in reversed(self.bound):
            if node.id in scope:
                return ast.Name(id=scope[node.id], ctx=ast.Load())
        if node.id in self.n.defs:
            return copy.deepcopy(self.n.defs[node.id])
        if node.id in self.n.pmap:
            return copy.deepcopy(self.n.pmap[node.id])
        return ast.Name(id=node.id, ctx=ast.Load())

    def visit_Attribute(self, node):
        # a private attribute of this class (on `self` or on another object of the class) is named after the constructor
        # parameter it is built from, so that renaming the attribute does not matter
        if node.attr in self.n.fields:
            return ast.Attribute(value=self.visit(node.value), attr=self.n.fields[node.attr], ctx=ast.Load())
        return ast.Attribute(value=self.visit(node.value), attr=node.attr, ctx=ast.Load())

    def bound_has(self, name):
        return any(name in s for s in self.bound)

    def visit_Lambda(self, node):
        scope = {a.arg: f"a{i}" for i, a in enumerate(node.args.args)}
        self.bound.append(scope)
        body = self.visit(node.body)
        self.bound.pop()
        return ast.Lambda(args=ast.arguments(posonlyargs=[], args=[ast.arg(arg=v) for v in scope.values()], kwonlyargs=[],
                                             kw_defaults=[], defaults=[]), body=body)

    def _comp(self, node, build):
        scope = {}
        self.bound.append(scope)
        gens = []
        for g in node.generators:
            it = self.visit(g.iter)
            names = [n.id for n in ast.walk(g.target) if isinstance(n, ast.Name)]
            for nm in names:
                scope[nm] = f"c{len(scope)}"
            gens.append(ast.comprehension(target=self.visit(g.target), iter=it, ifs=[self.visit(i) for i in g.ifs], is_async=0))
        out = build(gens)
        self.bound.pop()
        return out

    def visit_GeneratorExp(self, node):
        return self._comp(node, lambda g: ast.GeneratorExp(elt=self.visit(node.elt), generators=g))

    def visit_ListComp(self, node):
        return self._comp(node, lambda g: ast.ListComp(elt=self.visit(node.elt), generators=g))

    def visit_SetComp(self, node):
        return self._comp(node, lambda g: ast.SetComp(elt=self.visit(node.elt), generators=g))

    def visit_JoinedStr(self, node):        # f-strings only occur in messages / reprs
        return ast.Constant(value="<text>")

    def visit_Call(self, node):
        f = node.func
        # private method of the same class that is a pure guard -> guard(test, Exc)
        if isinstance(f, ast.Attribute) and isinstance(f.value, ast.Name) and f.value.id == "self" and f.attr.startswith("_") \
                and not f.attr.startswith("__") and f.attr in self.n.helpers and not node.keywords:
            g = self.n.helpers[f.attr]
            args = [self.visit(a) for a in node.args]
            if len(args) == len(g["params"]):
                sub = Norm(g["fn"], self.n.cls, params={p: a for p, a in zip(g["params"], args)}, module=self.n.module)
                sub.run()
                if len(sub.steps) == 1 and sub.steps[0][0] == "raise" and len(sub.steps[0][1]) == 1:
                    return ast.Call(func=ast.Name(id="guard", ctx=ast.Load()),
                                    args=[sub.steps[0][1][0], ast.Name(id=sub.steps[0][2], ctx=ast.Load())], keywords=[])
        # module-private function that maps a flag set through a (flag, mirrored flag) table -> MIRROR(arg)
        if isinstance(f, ast.Name) and f.id.startswith("_") and self.n.module is not None and len(node.args) == 1 and not node.keywords:
            pairs = _table_helper(self.n.module, f.id)
            if pairs:
                if not self.n.mirror:
                    self.n.mirror = pairs
                return ast.Call(func=ast.Name(id="MIRROR", ctx=ast.Load()), args=[self.visit(node.args[0])], keywords=[])
        return self.generic_visit(node)


def _table_helper(module, name):
    """`def name(d): m = NONE; for a, b in TABLE: if d & a: m |= b; return m` with a module-level TABLE of attribute pairs."""
    fn = next((n for n in module.body if isinstance(n, ast.FunctionDef) and n.name == name), None)
    if fn is None:
        return []
    for st in ast.walk(fn):
        if isinstance(st, ast.For) and isinstance(st.target, ast.Tuple) and len(st.target.elts) == 2 and isinstance(st.iter, ast.Name) \
                and len(st.body) == 1 and isinstance(st.body[0], ast.If) and not st.body[0].orelse:
            a, b = (t.id for t in st.target.elts)
            i = st.body[0]
            if isinstance(i.test, ast.BinOp) and isinstance(i.test.op, ast.BitAnd) and isinstance(i.test.right, ast.Name) and i.test.right.id == a \
                    and len(i.body) == 1 and isinstance(i.body[0], ast.AugAssign) and isinstance(i.body[0].op, ast.BitOr) \
                    and isinstance(i.body[0].value, ast.Name) and i.body[0].value.id == b:
                for top in module.body:
                    if isinstance(top, ast.Assign) and any(isinstance(t, ast.Name) and t.id == st.iter.id for t in top.targets) \
                            and isinstance(top.value, (ast.Tuple, ast.List)):
                        out = []
                        for e in top.value.elts:
                            if isinstance(e, (ast.Tuple, ast.List)) and len(e.elts) == 2 and all(isinstance(x, ast.Attribute) for x in e.elts):
                                out.append((e.elts[0].attr, e.elts[1].attr))
                            else:
                                return []
                        return out
    return []


class Norm:
    def __init__(self, fn, cls=None, params=None, module=None):
        self.fn, self.cls, self.module = fn, cls, module
        names = [a.arg for a in fn.args.args] + [a.arg for a in fn.args.kwonlyargs]
        self.pmap = {}
        for i, p in enumerate(names):
            if params and p in params:
                self.pmap[p] = params[p]
            elif p != "self":
                self.pmap[p] = ast.Name(id=f"p{i}", ctx=ast.Load())
        self.defs = {}
        self.loops = []          # per enclosing loop: the (path, defs) snapshots taken at `continue`
        self.ncarry = 0
        self.nacc = 0
        self.steps = []          # (kind, [path condition ASTs], payload)
        self.mirror = []         # (tested flag, set flag) pairs recognised in `if x & F: y |= G` chains
        self.fields, self.helpers = {}, {}
        if cls is not None:
            self.fields = field_labels(cls)
            for m in cls.body:
                if isinstance(m, ast.FunctionDef) and m.name.startswith("_") and not m.name.startswith("__"):
                    self.helpers[m.name] = {"fn": m, "params": [a.arg for a in m.args.args[1:]]}

    # ---- expressions
    def N(self, e):
        return _Simp().visit(_Subst(self).visit(copy.deepcopy(e)))

    @staticmethod
    def s(node):
        return ast.unparse(ast.fix_missing_locations(node))

    # ---- statements
    def run(self):
        body = self.fn.body
        if body and isinstance(body[0], ast.Expr) and isinstance(body[0].value, ast.Constant) and isinstance(body[0].value.value, str):
            body = body[1:]
        self.block(body, [])
        return self

    def _mirror_if(self, st):
        return isinstance(st, ast.If) and not st.orelse and isinstance(st.test, ast.BinOp) and isinstance(st.test.op, ast.BitAnd) \
            and isinstance(st.test.right, ast.Attribute) and len(st.body) == 1 and isinstance(st.body[0], ast.AugAssign) \
            and isinstance(st.body[0].op, ast.BitOr) and isinstance(st.body[0].value, ast.Attribute) \
            and isinstance(st.body[0].target, ast.Name)

    def block(self, stmts, path):
        """Returns the path for the statements that follow, or None if control never falls through."""
        path = list(path)
        i = 0
        while i < len(stmts):
            st = stmts[i]
            i += 1
            if isinstance(st, ast.Assign) and len(st.targets) == 1 and isinstance(st.targets[0], ast.Name):
                v = st.value
                fresh = (isinstance(v, (ast.List, ast.Set)) and not v.elts) or (isinstance(v, ast.Dict) and not v.keys) or \
                    (isinstance(v, ast.Call) and isinstance(v.func, ast.Name) and v.func.id[:1].isupper() and not v.args and not v.keywords)
                if fresh:     # an accumulator that is filled afterwards keeps an identity: acc<k>[:Constructor]
                    self.nacc += 1
                    self.defs[st.targets[0].id] = ast.Name(id=f"acc{self.nacc}" + (f"_{v.func.id}" if isinstance(v, ast.Call) else ""), ctx=ast.Load())
                else:
                    self.defs[st.targets[0].id] = self.N(v)
            elif isinstance(st, ast.Assign) and len(st.targets) == 1 and isinstance(st.targets[0], ast.Tuple) \
                    and all(isinstance(t, ast.Name) for t in st.targets[0].elts):
                v = self.N(st.value)
                for k, t in enumerate(st.targets[0].elts):
                    self.defs[t.id] = ast.Subscript(value=v, slice=ast.Constant(value=k), ctx=ast.Load())
            elif isinstance(st, ast.Assign) and len(st.targets) == 1:
                self.steps.append(("store", path, self.s(self.N(st.targets[0])) + " = " + self.s(self.N(st.value))))
            elif isinstance(st, ast.AugAssign) and isinstance(st.target, ast.Name):
                cur = self.N(ast.Name(id=st.target.id, ctx=ast.Load()))
                self.defs[st.target.id] = ast.BinOp(left=cur, op=st.op, right=self.N(st.value))
            elif isinstance(st, ast.AugAssign):
                self.steps.append(("store", path, self.s(self.N(st.target)) + " " + type(st.op).__name__ + "= " + self.s(self.N(st.value))))
            elif self._mirror_if(st):
                # a chain `if d & F: m |= G` … : the table goes to `mirror`, the accumulated value becomes MIRROR(d)
                j = i - 1
                tgt = st.body[0].target.id
                src = self.N(st.test.left)
                while j < len(stmts) and self._mirror_if(stmts[j]) and stmts[j].body[0].target.id == tgt \
                        and self.s(self.N(stmts[j].test.left)) == self.s(src):
                    self.mirror.append((stmts[j].test.right.attr, stmts[j].body[0].value.attr))
                    j += 1
                i = j
                self.defs[tgt] = ast.Call(func=ast.Name(id="MIRROR", ctx=ast.Load()), args=[src], keywords=[])
            elif isinstance(st, ast.If):
                t = self.N(st.test)
                d0 = self.defs
                self.defs = dict(d0)
                p1 = self.block(st.body, path + [t])
                d1 = self.defs
                self.defs = dict(d0)
                p2 = self.block(st.orelse, path + [_Simp().visit(_neg(copy.deepcopy(t)))])
                d2 = self.defs
                if p1 is not None and p2 is not None:
                    merged = {}
                    for k in list(d1) + [k for k in d2 if k not in d1]:
                        a, b = d1.get(k), d2.get(k)
                        if a is not None and b is not None and ast.dump(a) == ast.dump(b):
                            merged[k] = a
                        else:
                            und = copy.deepcopy(self.pmap[k]) if k in self.pmap else ast.Name(id="UNDEF", ctx=ast.Load())
                            merged[k] = _Simp().visit(ast.IfExp(test=t, body=a if a is not None else und, orelse=b if b is not None else und))
                    self.defs = merged
                elif p1 is not None:
                    self.defs, path = d1, p1
                elif p2 is not None:
                    self.defs, path = d2, p2
                else:
                    return None
            elif isinstance(st, ast.For):
                it = self.N(st.iter)
                el = ast.Call(func=ast.Name(id="el", ctx=ast.Load()), args=[it], keywords=[])
                if isinstance(st.target, ast.Name):
                    self.defs[st.target.id] = el
                elif isinstance(st.target, ast.Tuple) and all(isinstance(t, ast.Name) for t in st.target.elts):
                    for k, tg in enumerate(st.target.elts):
                        self.defs[tg.id] = ast.Subscript(value=el, slice=ast.Constant(value=k), ctx=ast.Load())
                else:
                    raise ValueError("unsupported loop target")
                self.steps.append(("loop", path, self.s(it)))
                # loop-carried variables: defined before the loop and assigned in its body
                assigned = []
                for n in ast.walk(ast.Module(body=st.body, type_ignores=[])):
                    tg = n.targets[0] if isinstance(n, ast.Assign) and len(n.targets) == 1 else n.target if isinstance(n, ast.AugAssign) else None
                    if isinstance(tg, ast.Name) and tg.id not in assigned and (tg.id in self.defs or tg.id in self.pmap):
                        assigned.append(tg.id)
                carry = {}
                for nm in assigned:
                    self.ncarry += 1
                    carry[nm] = f"carry{self.ncarry}"
                    self.steps.append(("carry", path, f"{carry[nm]} := " + self.s(self.N(ast.Name(id=nm, ctx=ast.Load())))))
                    self.defs[nm] = ast.Name(id=carry[nm], ctx=ast.Load())
                self.loops.append([])
                fall = self.block(st.body, path)
                exits = self.loops.pop() + ([(fall, dict(self.defs))] if fall is not None else [])
                for nm in assigned:
                    val = None
                    for ep, ed in reversed(exits):
                        v = ed.get(nm, ast.Name(id=carry[nm], ctx=ast.Load()))
                        if val is None:
                            val = v
                        else:
                            conds = ep[len(path):]
                            test = conds[0] if len(conds) == 1 else ast.BoolOp(op=ast.And(), values=list(conds)) if conds else ast.Constant(value=True)
                            val = _Simp().visit(ast.IfExp(test=copy.deepcopy(test), body=v, orelse=val))
                    if val is not None and self.s(val) != carry[nm]:
                        self.steps.append(("update", path, f"{carry[nm]} <- " + self.s(val)))
                    self.defs[nm] = ast.Name(id=carry[nm], ctx=ast.Load())
                self.steps.append(("endloop", path, ""))
            elif isinstance(st, ast.Return):
                self.steps.append(("return", path, self.s(self.N(st.value)) if st.value is not None else "None"))
                return None
            elif isinstance(st, ast.Raise):
                exc = st.exc.func if isinstance(st.exc, ast.Call) else st.exc
                self.steps.append(("raise", path, ast.unparse(exc) if exc is not None else "reraise"))
                return None
            elif isinstance(st, ast.Continue):
                if self.loops:
                    self.loops[-1].append((path, dict(self.defs)))
                return None
            elif isinstance(st, ast.Break):
                raise ValueError(f"unsupported statement break in {self.fn.name}")
            elif isinstance(st, ast.Pass):
                pass
            elif isinstance(st, ast.Expr):
                if not isinstance(st.value, ast.Constant):
                    self.steps.append(("call", path, self.s(self.N(st.value))))
            elif isinstance(st, ast.Assert):
                self.steps.append(("assert", path, self.s(self.N(st.test))))
            else:
                raise ValueError(f"unsupported statement {type(st).__name__} in {self.fn.name}")
        return path

    def canonical_steps(self):
        """A `raise` whose path condition contradicts the path of the step before it commutes with that step: move it up
        (so `if not ok: raise` first and `else: raise` last give the same form)."""
        steps = [(k, [self.s(x) for x in p], pl) for k, p, pl in self.steps]

        def contradicts(p, q):
            neg = lambda c: c[4:] if c.startswith("not ") else "not " + c
            return any(neg(c) in q for c in p)
        i = 0
        while i < len(steps):
            j = i
            while steps[j][0] == "raise" and j > 0 and contradicts(steps[j][1], steps[j - 1][1]):
                steps[j - 1], steps[j] = steps[j], steps[j - 1]
                j -= 1
            i += 1
        return steps

    def lines(self):
        out = []
        for kind, path, payload in self.canonical_steps():
            cond = " and ".join("(" + p + ")" for p in path)
            out.append(f"{kind} {payload}".rstrip() + (f"  IF {cond}" if cond else ""))
        return out

    def lines_old(self):
        out = []
        for kind, path, payload in self.steps:
            cond = " and ".join("(" + self.s(p) + ")" for p in path)
            out.append(f"{kind} {payload}".rstrip() + (f"  IF {cond}" if cond else ""))
        return out


def field_labels(cls):
    """{private attribute assigned in __init__: label}.  The label is the constructor parameter the value is built from
    (`self._locs = frozenset(locs)` -> `locs`; a bare parameter likewise), `f<k>` if no parameter occurs in it."""
    out = {}
    init = next((m for m in cls.body if isinstance(m, ast.FunctionDef) and m.name == "__init__"), None)
    if init is None:
        return out
    params = [a.arg for a in init.args.args[1:]] + [a.arg for a in init.args.kwonlyargs]
    k = 0
    for st in ast.walk(init):
        if isinstance(st, ast.Assign) and len(st.targets) == 1 and isinstance(st.targets[0], ast.Attribute) \
                and isinstance(st.targets[0].value, ast.Name) and st.targets[0].value.id == "self" and st.targets[0].attr.startswith("_"):
            attr = st.targets[0].attr
            used = [n.id for n in ast.walk(st.value) if isinstance(n, ast.Name) and n.id in params]
            if used:
                out[attr] = "F_" + used[0]      # `F_`: not to be confused with a public property of that name
            elif attr not in out:
                k += 1
                out[attr] = f"F_{k}"
    # an attribute that got a fallback label in one branch and a parameter in another keeps the parameter
    return out


def normal_form(fn, cls=None, module=None):
    n = Norm(fn, cls, module=module).run()
    return n.lines(), n.mirror


def defaults(fn):
    """[(parameter, default expression)] of a function signature."""
    a = fn.args
    pos = a.args[len(a.args) - len(a.defaults):]
    out = [(p.arg, ast.unparse(d)) for p, d in zip(pos, a.defaults)]
    out += [(p.arg, ast.unparse(d)) for p, d in zip(a.kwonlyargs, a.kw_defaults) if d is not None]
    return out

"""C17 — Residue, chain and molecule segmentation equals per-atom recomputation.

Plugin (see harness/README.md).  Three case families:
  seg       annotation pattern + index arrays + data: every view of residues.py / chains.py / segments.py,
            op by op against the Lean model, and against a per-atom loop oracle written from the property.
  graph     small bond graphs: find_connected / get_molecule_indices / get_molecule_masks against the Lean DFS
            model, and against a union-find oracle (also molecule_iter on an AtomArray).
  biggraph  oracle only, in a forked child: graphs of 10^4..2*10^6 atoms (chains, rings, stars, combs, forests);
            the recursion depth of `_find_connected` is runtime behaviour the model cannot exhibit.
"""
import ast
import os

PROP = "C17"
PROPS_MODULE = "BiotiteModel.Props.C17"
DRIVER_MODULE = "BiotiteModel.Driver.C17"
EXT_MODULES = ["biotite.structure.bonds"]
GEN_FILES = ["BiotiteModel/Gen/C17.lean"]
RULE = ("seg: atom arrays built residue by residue (repeated ids in different chains, insertion codes, same id with "
        "another name, res_id decrements, single-atom residues, empty arrays, plus per-atom noise), valid and "
        "malformed index arrays, five reducing functions (scalar and array results); graph: forests, rings, "
        "cliques, isolated atoms, duplicate/self bonds, all roots incl. invalid ones; biggraph: long chains etc. "
        "in a forked child. non-trivial = at least 2 segments and 2 atoms (seg) / at least one bond (graph); "
        "distinct = different (atoms, indices, data) resp. (n, bonds, roots)")
TRUSTED = ["numpy slicing/where/concatenate/searchsorted(side=right)/repeat modelled by documented semantics",
           "BondList constructor (index validation, de-duplication) is outside the model: the model takes the bond pairs"]
ASSUMPTIONS = ["C stack depth is not modelled: the model's fuel is the recursion depth, the forked big-graph runs observe the real limit"]
LEVEL_TEXT = ("Lean theorems for all inputs: starts = exactly the per-atom boundaries; segments partition the array "
              "(concat = array, non-empty, no boundary inside, boundary between); starts_for/positions/masks/"
              "spread∘apply = direct per-atom recomputation; negative/out-of-range indices rejected; the recursive DFS "
              "with fuel n returns exactly the reachable set and get_molecule_indices exactly the connected components. "
              "Partial: stack exhaustion of the recursive Cython DFS on long paths is observed (known finding), not modelled.")
LEVEL_NOTE = ("numpy primitives and the BondList constructor are modelled, not verified; the .pyx is tied through the "
              "generated C / binary hash and the correspondence stream")
TECHNIQUE = "Lean 4 proof (induction over lists / fuel-indexed DFS invariant) + correspondence + per-atom / union-find oracle"

# token tables (append only: corpus / witnesses refer to indices).  Strings of every length up to the annotation
# dtype widths (chain_id U4, ins_code U1, res_name U5), incl. values that differ only in the last characters.
CHAINS = ["A", "B", "C", "AA", "", "AAAA", "AAAB", "AAA", "AB", " ", "a", " A", "A "]
INS = ["", "A", "B", "a"]
NAMES = ["ALA", "GLY", "HOH", "LIG", "A1LU6", "A1LU7", "A1LU", "A1L", "DA", "A", "GLYX", "GLYY", "U", "AU", "\u00e9", " ", "ala", "AL A"]
FNS = ["sum", "max", "len", "first", "minmax"]
XFNS = ["mean0", "sum0", "half", "anypos", "minmaxmean",     # result dtype differs from the data dtype
        "sumall", "maxall", "minall",                          # np.sum/np.max/np.min without axis: scalar per segment
        "sumax0", "maxax0", "minax0"]                          # the same with axis=0: one value per column
N_BOND_TYPES = 10                                            # BondType.ANY .. BondType.AROMATIC (incl. COORDINATION = 8)

KEY_CRASH_DEEP = "C17/find_connected/recursion-depth-crash"


def _ints(xs):
    xs = list(xs)
    return ",".join(str(int(x)) for x in xs) if len(xs) else "_"


def _parse(s):
    return [] if s == "_" else [int(x) for x in s.split(",")]


# ---------------------------------------------------------------- translator (Gen)
def _func(tree, name):
    for node in tree.body:
        if isinstance(node, ast.FunctionDef) and node.name == name:
            return node
    raise ValueError(f"function {name} not found")


def _change_fields(fn):
    """annotations X used as `array.X[1:] != array.X[:-1]` in assignments, keyed by the assigned name."""
    out = {}
    for node in ast.walk(fn):
        if isinstance(node, ast.Assign) and isinstance(node.value, ast.Compare) and len(node.value.ops) == 1 \
                and isinstance(node.value.ops[0], ast.NotEq):
            l, r = node.value.left, node.value.comparators[0]
            if all(isinstance(x, ast.Subscript) and isinstance(x.value, ast.Attribute) for x in (l, r)) \
                    and l.value.attr == r.value.attr:
                sl = sorted(ast.unparse(x.slice) for x in (l, r))
                if sl != sorted(["1:", ":-1"]):
                    raise ValueError(f"unexpected shifted comparison {ast.unparse(node)}")
                out[node.targets[0].id] = l.value.attr
    return out


def _or_names(expr):
    if isinstance(expr, ast.BinOp) and isinstance(expr.op, ast.BitOr):
        return _or_names(expr.left) + _or_names(expr.right)
    if isinstance(expr, ast.Name):
        return [expr.id]
    raise ValueError(f"unexpected operand in mask union: {ast.unparse(expr)}")


# ---------------------------------------------------------------- normalised function bodies (tie pass 7)
_KEEP = {"np", "range", "len", "isinstance", "type", "int", "enumerate", "ValueError", "TypeError", "IndexError",
         "BondList", "AtomArray", "AtomArrayStack", "find_connected", "True", "False", "None"}


class _Norm(ast.NodeTransformer):
    """expression-level normalisation under a renaming environment"""

    def __init__(self, env, fresh, helpers):
        self.env, self.fresh, self.helpers = env, fresh, helpers

    def visit_Name(self, node):
        nid = self.env.get(node.id, self.helpers.get(node.id, node.id))
        return ast.copy_location(ast.Name(id=nid, ctx=node.ctx), node)

    def _comp(self, node):
        saved = dict(self.env)
        for g in node.generators:
            for n in ast.walk(g.target):
                if isinstance(n, ast.Name):
                    self.env[n.id] = self.fresh()
        out = self.generic_visit(node)
        self.env.clear()
        self.env.update(saved)
        return out

    visit_ListComp = visit_SetComp = visit_GeneratorExp = visit_DictComp = _comp

    def visit_Call(self, node):
        self.generic_visit(node)
        if isinstance(node.func, ast.Attribute) and node.func.attr in ("any", "all") and not node.args and not node.keywords:
            return ast.Call(func=ast.Attribute(value=ast.Name(id="np", ctx=ast.Load()), attr=node.func.attr, ctx=ast.Load()),
                            args=[node.func.value], keywords=[])
        return node

    def visit_BinOp(self, node):
        self.generic_visit(node)
        if isinstance(node.op, ast.BitOr):       # `a | b | c` of masks: operand order is irrelevant
            ops = []

            def flat(x):
                if isinstance(x, ast.BinOp) and isinstance(x.op, ast.BitOr):
                    flat(x.left)
                    flat(x.right)
                else:
                    ops.append(x)
            flat(node)
            ops.sort(key=ast.unparse)
            out = ops[0]
            for o in ops[1:]:
                out = ast.BinOp(left=out, op=ast.BitOr(), right=o)
            return out
        return node


def _norm_body(fn, helpers=None):
    """Normal form of a function body, invariant under harmless maintenance (pass 8):
    docstrings, comments, annotations, `assert`s and the message arguments of `raise` are dropped; every binding at the
    top level of the function (also a re-binding of a parameter) introduces a fresh name `v0, v1, ...` (SSA-like), names
    bound inside loops / branches are renamed positionally; parameters of private helpers are renamed `p0, p1, ...`
    (public parameter names are API); private helpers are referred to as `_h0, _h1, ...` by order of first use;
    `x.any()` is written `np.any(x)`; operands of `|` are sorted.  Literals, operators, call targets, keyword names,
    statement order, exception classes and defaults stay.  One string per line of the normal form."""
    import copy
    fn = copy.deepcopy(fn)            # NodeTransformer works in place: never touch the tree the other extractions read
    helpers = helpers or {}
    params = [a.arg for a in fn.args.posonlyargs + fn.args.args + fn.args.kwonlyargs]
    private = fn.name.startswith("_")
    env = {p: (f"p{k}" if private else p) for k, p in enumerate(params)}
    counter = [0]

    def fresh():
        counter[0] += 1
        return f"v{counter[0] - 1}"

    def expr(e):
        return ast.fix_missing_locations(_Norm(env, fresh, helpers).visit(e)) if e is not None else None

    def bind(target, top):
        if isinstance(target, ast.Name):
            if top or target.id not in env:
                env[target.id] = fresh()
            return ast.Name(id=env[target.id], ctx=ast.Store())
        if isinstance(target, (ast.Tuple, ast.List)):
            return type(target)(elts=[bind(t, top) for t in target.elts], ctx=ast.Store())
        return expr(target)

    def block(stmts, top):
        out = []
        for st in stmts:
            if isinstance(st, ast.Global):
                raise ValueError("global statement in a modelled function: " + ", ".join(st.names))
            if isinstance(st, ast.Assert):
                continue
            if isinstance(st, ast.Expr) and isinstance(st.value, ast.Constant) and isinstance(st.value.value, str):
                continue
            if isinstance(st, ast.AnnAssign):
                st = ast.Assign(targets=[st.target], value=st.value) if st.value is not None else None
                if st is None:
                    continue
            if isinstance(st, ast.Assign):
                val = expr(st.value)
                out.append(ast.Assign(targets=[bind(t, top) for t in st.targets], value=val))
            elif isinstance(st, ast.For):
                it = expr(st.iter)
                tg = bind(st.target, True)
                out.append(ast.For(target=tg, iter=it, body=block(st.body, False) or [ast.Pass()], orelse=block(st.orelse, False)))
            elif isinstance(st, ast.While):
                out.append(ast.While(test=expr(st.test), body=block(st.body, False) or [ast.Pass()], orelse=block(st.orelse, False)))
            elif isinstance(st, ast.If):
                out.append(ast.If(test=expr(st.test), body=block(st.body, False) or [ast.Pass()], orelse=block(st.orelse, False)))
            elif isinstance(st, ast.Raise):
                exc = st.exc
                cls = exc.func if isinstance(exc, ast.Call) else exc
                out.append(ast.Raise(exc=expr(cls), cause=None))
            elif isinstance(st, (ast.Return, ast.Expr, ast.AugAssign, ast.Pass, ast.Break, ast.Continue, ast.Delete)):
                out.append(expr(st))
            elif isinstance(st, ast.With):
                items = [ast.withitem(context_expr=expr(i.context_expr),
                                      optional_vars=bind(i.optional_vars, top) if i.optional_vars else None) for i in st.items]
                out.append(ast.With(items=items, body=block(st.body, False) or [ast.Pass()]))
            elif isinstance(st, ast.Try):
                out.append(ast.Try(body=block(st.body, False), handlers=[ast.ExceptHandler(type=expr(h.type), name=None, body=block(h.body, False) or [ast.Pass()]) for h in st.handlers],
                                   orelse=block(st.orelse, False), finalbody=block(st.finalbody, False)))
            else:
                raise ValueError(f"{fn.name}: statement kind {type(st).__name__} is not handled by the normaliser")
        return out

    lines = []
    for st in block(list(fn.body), True):
        lines += ast.unparse(ast.fix_missing_locations(st)).split("\n")
    return lines


def _private_helpers(tree, roots):
    """module-private functions reachable from the modelled functions, named `_h0, _h1, ...` by order of first use"""
    defs = {n.name: n for n in tree.body if isinstance(n, ast.FunctionDef)}
    order = []

    def scan(fn):
        for node in ast.walk(fn):
            if isinstance(node, ast.Name) and node.id in defs and node.id.startswith("_") and node.id not in order:
                order.append(node.id)
                scan(defs[node.id])
    for r in roots:
        scan(defs[r])
    return {name: f"_h{k}" for k, name in enumerate(order)}, defs


def _signature(fn, alias=None):
    """name, parameter names (positional `p0..` for private helpers) and default values; annotations are dropped"""
    a = fn.args
    pos = a.posonlyargs + a.args
    private = fn.name.startswith("_")
    names = [(f"p{k}" if private else x.arg) for k, x in enumerate(pos)]
    defaults = [None] * (len(pos) - len(a.defaults)) + [ast.unparse(d) for d in a.defaults]
    parts = [n if d is None else f"{n}={d}" for n, d in zip(names, defaults)]
    if a.vararg:
        parts.append("*" + a.vararg.arg)
    for x, d in zip(a.kwonlyargs, a.kw_defaults):
        parts.append(x.arg if d is None else f"{x.arg}={ast.unparse(d)}")
    if a.kwarg:
        parts.append("**" + a.kwarg.arg)
    return (alias or fn.name) + "(" + ", ".join(parts) + ")"


def _lean_str(x):
    return '"' + x.replace("\\", "\\\\").replace('"', '\\"') + '"'


def _lean_strs(xs):
    return "[" + ", ".join(_lean_str(x) for x in xs) + "]"


def _pyx_function(text, name):
    """code lines of a top-level def/cdef of a .pyx: docstring, comments, blank lines removed, whitespace collapsed"""
    import re
    m = re.search(r"^(?:def|cdef)\s+" + re.escape(name) + r"\(.*?(?=^(?:def|cdef|class|@|cpdef)\s|\Z)", text, re.S | re.M)
    if not m:
        raise ValueError(f"bonds.pyx: {name} not found")
    code = re.sub(r'"""(.*?)"""', "", m.group(0), flags=re.S)
    out = []
    for line in code.splitlines():
        line = line.split("#")[0].rstrip()
        if line.strip():
            out.append(re.sub(r"\s+", " ", line.strip()))
    return out


def _pyx_method(text, cls, name):
    import re
    m = re.search(r"^class\s+" + cls + r"\b.*?(?=^class\s|\Z)", text, re.S | re.M)
    if not m:
        raise ValueError(f"bonds.pyx: class {cls} not found")
    c = m.group(0)
    m2 = re.search(r"^    def\s+" + re.escape(name) + r"\(.*?(?=^    (?:def|cdef|@)\s|\Z)", c, re.S | re.M)
    if not m2:
        raise ValueError(f"bonds.pyx: {cls}.{name} not found")
    code = re.sub(r'"""(.*?)"""', "", m2.group(0), flags=re.S)
    out = []
    for line in code.splitlines():
        line = line.split("#")[0].rstrip()
        if line.strip():
            out.append(re.sub(r"\s+", " ", line.strip()))
    return out


def gen_lean():
    from common import paths
    base = os.path.join(paths.SRC, "biotite/structure")
    res = ast.parse(open(os.path.join(base, "residues.py")).read())
    cha = ast.parse(open(os.path.join(base, "chains.py")).read())
    seg = ast.parse(open(os.path.join(base, "segments.py")).read())
    mol = ast.parse(open(os.path.join(base, "molecules.py")).read())
    pyx = open(os.path.join(base, "bonds.pyx")).read()
    import re as _re
    import numpy as _np

    problems = []          # sub-extractions that did not recognise the source: reported through a failing NAMED obligation
    try:
        # residues: the mask that is turned into indices is a union of change masks
        f = _func(res, "get_residue_starts")
        fields = _change_fields(f)
        union = None
        for node in ast.walk(f):
            if isinstance(node, ast.Assign) and isinstance(node.value, ast.BinOp) and isinstance(node.value.op, ast.BitOr):
                union = [fields[n] for n in _or_names(node.value)]
        if not union:
            raise ValueError("get_residue_starts: union of change masks not found")
    except Exception as e:  # noqa: BLE001  (shape not recognised -> sentinel -> the Lean obligation on this table fails)
        problems.append("res: " + type(e).__name__ + ": " + str(e)[:120])
        union = ["<unrecognised>"]
    try:
        # chains: np.where(<decrement> | <chain change>)
        f = _func(cha, "get_chain_starts")
        cfields = _change_fields(f)
        # the residue ID test: `array.X[1:] < array.X[:-1]` (or the mirrored `>`) -> "decrease:X"; a test on np.diff(X)
        # is reported as "diff:X:<op>:<bound>" (int64 differences wrap: obligation fails)
        dec = {}
        diff_of = {}
        for node in ast.walk(f):
            if not (isinstance(node, ast.Assign) and isinstance(node.targets[0], ast.Name)):
                continue
            val = node.value
            if isinstance(val, ast.Call) and ast.unparse(val.func) == "np.diff" and isinstance(val.args[0], ast.Attribute):
                diff_of[node.targets[0].id] = val.args[0].attr
            if isinstance(val, ast.Compare) and len(val.ops) == 1:
                l, r = val.left, val.comparators[0]
                op = type(val.ops[0]).__name__
                if isinstance(l, ast.Name) and l.id in diff_of:
                    dec[node.targets[0].id] = "diff:" + diff_of[l.id] + ":" + op + ":" + ast.unparse(r)
                elif op in ("Lt", "Gt") and all(isinstance(x, ast.Subscript) and isinstance(x.value, ast.Attribute) for x in (l, r)) \
                        and l.value.attr == r.value.attr:
                    sl = (ast.unparse(l.slice), ast.unparse(r.slice))
                    if (op, sl) in (("Lt", ("1:", ":-1")), ("Gt", (":-1", "1:"))):
                        dec[node.targets[0].id] = "decrease:" + l.value.attr
                    elif (op, sl) in (("Gt", ("1:", ":-1")), ("Lt", (":-1", "1:"))):
                        dec[node.targets[0].id] = "increase:" + l.value.attr
                    else:
                        raise ValueError(f"get_chain_starts: unexpected shifted comparison {ast.unparse(node)}")
        if not dec:
            raise ValueError("get_chain_starts: res_id decrement test not found")
        cunion = None
        for node in ast.walk(f):
            if isinstance(node, ast.BinOp) and isinstance(node.op, ast.BitOr):
                names = _or_names(node)
                cunion = [dec[n] if n in dec else cfields[n] for n in names]
        if not cunion:
            raise ValueError("get_chain_starts: union of masks not found")
    except Exception as e:  # noqa: BLE001  (shape not recognised -> sentinel -> the Lean obligation on this table fails)
        problems.append("cha: " + type(e).__name__ + ": " + str(e)[:120])
        cunion = ["<unrecognised>"]
    try:
        # both: the empty-array early return, evaluated for add_exclusive_stop = False / True
        import numpy as _np
        empties = []
        for tree, name in ((res, "get_residue_starts"), (cha, "get_chain_starts")):
            f = _func(tree, name)
            got = None
            for node in f.body:
                if isinstance(node, ast.If) and "array_length() == 0" in ast.unparse(node.test):
                    # the guarded block is run as a tiny function of the flag (structural: whatever statements it has)
                    flag = f.args.args[1].arg
                    fdef = ast.FunctionDef(name="_empty_case", args=ast.arguments(posonlyargs=[], args=[ast.arg(arg=flag), ast.arg(arg="np"), ast.arg(arg="array")],
                                           kwonlyargs=[], kw_defaults=[], defaults=[]), body=node.body, decorator_list=[], type_params=[])
                    ns = {}
                    exec(compile(ast.fix_missing_locations(ast.Module(body=[fdef], type_ignores=[])), name, "exec"), ns)  # noqa: S102

                    class _Empty:
                        def array_length(self):
                            return 0
                    got = tuple(tuple(int(x) for x in ns["_empty_case"](v, _np, _Empty())) for v in (False, True))
            if got is None:
                raise ValueError(f"{name}: empty-array early return not found")
            empties.append(got)
    except Exception as e:  # noqa: BLE001  (shape not recognised -> sentinel -> the Lean obligation on this table fails)
        problems.append("emp: " + type(e).__name__ + ": " + str(e)[:120])
        empties = [((999,), (999,)), ((999,), (999,))]
    try:
        # segments: searchsorted sides, the "- 1", and the two guards of each index function
        sides = []
        guards = []
        for name in ("get_segment_masks", "get_segment_starts_for", "get_segment_positions"):
            f = _func(seg, name)
            n_calls = 0
            for node in ast.walk(f):
                if isinstance(node, ast.BinOp) and isinstance(node.op, ast.Sub) and isinstance(node.left, ast.Call) \
                        and ast.unparse(node.left.func) == "np.searchsorted":
                    kw = {k.arg: ast.unparse(k.value).strip("'\"") for k in node.left.keywords}
                    sides.append((name, kw.get("side", "left"), ast.unparse(node.right)))
                    n_calls += 1
            if n_calls != 1:
                raise ValueError(f"{name}: expected exactly one `np.searchsorted(...) - k`")
            g = []
            segdefs = {n.name: n for n in seg.body if isinstance(n, ast.FunctionDef)}

            def collect(body, subst, assigned_outer):
                """guards of a statement list; a call of a module-private helper as a statement is followed once, its
                parameters standing for the caller's arguments (structural: the helper is found by what the caller calls)"""
                assigned = dict(assigned_outer)
                cmp_of = {}
                for n in body:
                    if isinstance(n, ast.Assign) and isinstance(n.targets[0], ast.Name):
                        assigned[n.targets[0].id] = ast.unparse(n.value)
                        if isinstance(n.value, ast.Compare):
                            cmp_of[n.targets[0].id] = n.value
                flat = []
                for node in body:            # `if a: raise .. elif b: raise ..` is the same sequence of guards as two ifs
                    flat.append(node)
                    cur = node
                    while isinstance(cur, ast.If) and any(isinstance(x, ast.Raise) for x in cur.body) and len(cur.orelse) == 1 \
                            and isinstance(cur.orelse[0], ast.If):
                        cur = cur.orelse[0]
                        flat.append(cur)
                for node in flat:
                    if isinstance(node, ast.Expr) and isinstance(node.value, ast.Call) and isinstance(node.value.func, ast.Name) \
                            and node.value.func.id.startswith("_") and node.value.func.id in segdefs:
                        h = segdefs[node.value.func.id]
                        hp = [a.arg for a in h.args.args]
                        sub = {}
                        for pn, arg in zip(hp, node.value.args):
                            u = ast.unparse(arg)
                            sub[pn] = assigned.get(u, subst.get(u, u))
                        collect(h.body, sub, {})
                    if isinstance(node, ast.If) and any(isinstance(x, ast.Raise) for x in node.body):
                        exc = next(x for x in node.body if isinstance(x, ast.Raise)).exc
                        cmp = next((x for x in ast.walk(node.test) if isinstance(x, ast.Compare)), None)
                        if cmp is None:
                            cmp = next((cmp_of[x.id] for x in ast.walk(node.test) if isinstance(x, ast.Name) and x.id in cmp_of), None)
                        if cmp is None or len(cmp.ops) != 1:
                            raise ValueError(f"{name}: unexpected guard {ast.unparse(node.test)}")
                        rhs = ast.unparse(cmp.comparators[0])
                        rhs = assigned.get(rhs, subst.get(rhs, rhs))
                        g.append((type(cmp.ops[0]).__name__ + " " + rhs, exc.func.id if isinstance(exc, ast.Call) else ast.unparse(exc)))

            collect(f.body, {}, {})
            guards.append((name, g))
    except Exception as e:  # noqa: BLE001  (shape not recognised -> sentinel -> the Lean obligation on this table fails)
        problems.append("seg: " + type(e).__name__ + ": " + str(e)[:120])
        sides, guards = [("<unrecognised>", "", "")], []
    try:
        # molecules: does anything on the path molecules.py -> find_connected look at bond types?
        for name in ("get_molecule_indices", "get_molecule_masks", "molecule_iter"):
            _func(mol, name)
        type_refs = []
        for node in ast.walk(mol):
            if isinstance(node, ast.Attribute) and isinstance(node.value, ast.Name) and node.value.id == "BondType":
                type_refs.append("BondType." + node.attr)
            if isinstance(node, ast.Subscript) and ast.unparse(node.slice).replace(" ", "") in (":,2", "...,2"):
                type_refs.append("column:" + ast.unparse(node).replace('"', "'"))
            if isinstance(node, ast.Call) and ast.unparse(node.func).endswith(("remove_bonds", "remove_bonds_to", "remove_bond")):
                type_refs.append("call:" + ast.unparse(node.func))
        pyx_refs = []
        for fname in ("find_connected", "_find_connected"):
            m = _re.search(r"^(?:def|cdef)\s+" + fname + r"\(.*?(?=^(?:def|cdef|class|@)\s)", pyx, _re.S | _re.M)
            if not m:
                raise ValueError(f"bonds.pyx: {fname} not found")
            code = _re.sub(r'"""(.*?)"""', "", m.group(0), flags=_re.S)
            code = "\n".join(line.split("#")[0] for line in code.splitlines())
            pyx_refs += [fname + ":" + x for x in _re.findall(r"BondType\.\w+|bond_types?\w*", code)]
            if fname == "find_connected":
                g = _re.search(r"^\s*(\w+)\s*,\s*(\w+)\s*=\s*bond_list\.get_all_bonds\(\)", code, _re.M)
                if not g:
                    raise ValueError("find_connected: `<table>, <types> = bond_list.get_all_bonds()` not found")
                if g.group(2) != "_" and _re.search(r"\b" + g.group(2) + r"\b", code[g.end():]):
                    pyx_refs.append("find_connected:uses-type-table:" + g.group(2))
    except Exception as e:  # noqa: BLE001  (shape not recognised -> sentinel -> the Lean obligation on this table fails)
        problems.append("mol: " + type(e).__name__ + ": " + str(e)[:120])
        type_refs, pyx_refs = ["<unrecognised>"], ["<unrecognised>"]
    try:
        # ---- tie pass 7: signatures (defaults), normalised bodies, constants of the starts construction
        sigs, bodies = [], []
        module_state = []
        PUB = {"residues.py": (res, ["get_residue_starts", "apply_residue_wise", "spread_residue_wise", "get_residue_masks",
                                      "get_residue_starts_for", "get_residue_positions", "get_residues", "get_residue_count", "residue_iter"]),
               "chains.py": (cha, ["get_chain_starts", "apply_chain_wise", "spread_chain_wise", "get_chain_masks",
                                    "get_chain_starts_for", "get_chain_positions", "get_chains", "get_chain_count", "chain_iter"]),
               "segments.py": (seg, ["apply_segment_wise", "spread_segment_wise", "get_segment_masks", "get_segment_starts_for",
                                     "get_segment_positions", "segment_iter"]),
               "molecules.py": (mol, ["get_molecule_indices", "get_molecule_masks", "molecule_iter"])}
        for fn_file, (tree, names) in PUB.items():
            for name in names:
                _func(tree, name)
            hmap, defs = _private_helpers(tree, names)
            def nb(fd):
                try:
                    return _norm_body(fd, hmap)
                except Exception as e:  # noqa: BLE001
                    return [f"<unrecognised: {type(e).__name__}: {str(e)[:80]}>"]
            for name in names:
                sigs.append(_signature(defs[name]))
                bodies.append((name, nb(defs[name])))
            for hname, alias in hmap.items():       # private helpers: part of the modelled code, under positional names
                sigs.append(fn_file + ":" + _signature(defs[hname], alias))
                bodies.append((fn_file + ":" + alias, nb(defs[hname])))
            for node in tree.body:        # module-level state (caches, tables) next to the modelled functions
                if isinstance(node, (ast.Assign, ast.AnnAssign)):
                    tg = node.targets[0] if isinstance(node, ast.Assign) else node.target
                    if isinstance(tg, ast.Name) and tg.id.startswith("__"):
                        continue
                    val = node.value
                    if isinstance(tg, ast.Name) and isinstance(val, ast.Constant) and isinstance(val.value, str):
                        # a text constant that only feeds error messages is not behaviour
                        uses = [n for n in ast.walk(tree) if isinstance(n, ast.Name) and n.id == tg.id and isinstance(n.ctx, ast.Load)]
                        in_raise = {id(n) for r in ast.walk(tree) if isinstance(r, ast.Raise) for n in ast.walk(r)}
                        if all(id(u) in in_raise for u in uses):
                            continue
                    module_state.append(fn_file + ": " + ast.unparse(node)[:80])
        m = _re.search(r"^def find_connected\((.*?)\):", pyx, _re.M)
        if not m:
            raise ValueError("bonds.pyx: signature of find_connected not found")
        sigs.append("find_connected(" + _re.sub(r"\s+", " ", m.group(1)) + ")")
        pyx_bodies = [("find_connected", _pyx_function(pyx, "find_connected")), ("_find_connected", _pyx_function(pyx, "_find_connected")),
                      ("BondList.get_all_bonds", _pyx_method(pyx, "BondList", "get_all_bonds"))]
    except Exception as e:  # noqa: BLE001  (shape not recognised -> sentinel -> the Lean obligation on this table fails)
        problems.append("p7: " + type(e).__name__ + ": " + str(e)[:120])
        sigs, bodies, pyx_bodies, module_state = ["<unrecognised>"], [], [], ["<unrecognised>"]
    try:
        # constants of `np.concatenate(([0], np.where(mask)[0] + 1, [array.array_length()]))`
        builds = []
        for tree, name in ((res, "get_residue_starts"), (cha, "get_chain_starts")):
            fdef = _func(tree, name)
            off = idx0 = None
            for node in ast.walk(fdef):
                if isinstance(node, ast.Assign) and isinstance(node.value, ast.BinOp) and isinstance(node.value.op, ast.Add) \
                        and isinstance(node.value.left, ast.Subscript) and ast.unparse(node.value.left.value).startswith("np.where("):
                    off = ast.literal_eval(node.value.right)
                    idx0 = ast.literal_eval(node.value.left.slice)
                    svar = node.targets[0].id
            if off is None:
                raise ValueError(f"{name}: `np.where(mask)[k] + c` not found")
            cats = []
            for node in ast.walk(fdef):
                if isinstance(node, ast.Return) and isinstance(node.value, ast.Call) and ast.unparse(node.value.func) == "np.concatenate":
                    tup = node.value.args[0]
                    cats.append([("S" if ast.unparse(e) == svar else ast.unparse(e)) for e in tup.elts])
            if sorted(map(len, cats)) != [2, 3]:
                raise ValueError(f"{name}: the two np.concatenate returns not found")
            with_stop = next(c for c in cats if len(c) == 3)
            without = next(c for c in cats if len(c) == 2)
            if with_stop[:2] != without or without[1] != "S":
                raise ValueError(f"{name}: unexpected concatenation {cats}")
            first = ast.literal_eval(without[0])
            if not (isinstance(first, list) and len(first) == 1):
                raise ValueError(f"{name}: unexpected first element {without[0]}")
            builds.append((name, first[0], idx0, off, with_stop[2]))
    except Exception as e:  # noqa: BLE001  (shape not recognised -> sentinel -> the Lean obligation on this table fails)
        problems.append("build: " + type(e).__name__ + ": " + str(e)[:120])
        builds = []
    body = [
        "/- REGENERATED on every run by harness/props/c17.py from structure/residues.py, chains.py, segments.py. Do not edit. -/",
        "namespace BiotiteModel.Gen.C17",
        "/-- annotations whose change masks are OR-ed in `get_residue_starts`. -/",
        f"def residueFields : List String := {_lean_strs(union)}",
        "/-- operands of the mask union in `get_chain_starts` (`decrease:<annotation>` for `X[1:] < X[:-1]`, `diff:<annotation>:<op>:<bound>` for a test on np.diff). -/",
        f"def chainTerms : List String := {_lean_strs(cunion)}",
        "/-- (without, with exclusive stop) returned for an empty array by get_residue_starts / get_chain_starts. -/",
        "def emptyReturns : List (List Nat × List Nat) := [" + ", ".join(f"({list(a)}, {list(b)})" for a, b in empties) + "]",
        "/-- (function, side of np.searchsorted, subtracted constant). -/",
        "def searchSides : List (String × String × String) := ["
        + ", ".join(f'("{a}", "{b}", "{c}")' for a, b, c in sides) + "]",
        "/-- index guards: (function, [(condition, exception)]). -/",
        "def guards : List (String × List (String × String)) := ["
        + ", ".join('("' + n + '", [' + ", ".join(f'("{t}", "{e}")' for t, e in g) + "])" for n, g in guards) + "]",
        "/-- every place in molecules.py that looks at a bond type (BondType members, the type column, bond removal). -/",
        f"def moleculeBondTypeRefs : List String := {_lean_strs(type_refs)}",
        "/-- every mention of bond types in bonds.pyx find_connected / _find_connected. -/",
        f"def connectedBondTypeRefs : List String := {_lean_strs(pyx_refs)}",
        "/-- sub-extractions that did not recognise the shape of the source (their tables hold sentinels). -/",
        f"def extractProblems : List String := {_lean_strs(problems)}",
        "/-- module-level assignments next to the modelled functions, other than dunders and message-only texts. -/",
        f"def moduleState : List String := {_lean_strs(module_state)}",
        "/-- signatures (parameter order and default values) of the anchored public functions. -/",
        f"def signatures : List String := {_lean_strs(sigs)}",
        "/-- (function, first start, index into np.where(..), offset added, expression of the exclusive stop). -/",
        "def startsBuild : List (String × Nat × Nat × Nat × String) := ["
        + ", ".join(f"({_lean_str(a)}, {b}, {c}, {d}, {_lean_str(e)})" for a, b, c, d, e in builds) + "]",
        "/-- normalised bodies of the modelled .py functions (locals alpha-renamed, messages dropped). -/",
        "def pyBodies : List (String × List String) := [\n  "
        + ",\n  ".join(f"({_lean_str(n)}, {_lean_strs(b)})" for n, b in bodies) + "]",
        "/-- code lines of the modelled bonds.pyx functions (comments / docstrings dropped). -/",
        "def pyxBodies : List (String × List String) := [\n  "
        + ",\n  ".join(f"({_lean_str(n)}, {_lean_strs(b)})" for n, b in pyx_bodies) + "]",
        "end BiotiteModel.Gen.C17", ""]
    return {"BiotiteModel/Gen/C17.lean": "\n".join(body)}


# ---------------------------------------------------------------- generators
def _gen_atoms(rng):
    """List of [chain, res_id, ins, name, hetero] tokens, built residue by residue."""
    r = rng.random()
    if r < 0.06:
        return []
    atoms = []
    n_chains = rng.choice([1, 1, 2, 2, 3, 4])
    chain_tok = rng.randrange(len(CHAINS))
    similar = [(4, 5), (6, 4), (7, 6), (10, 11), (1, 10), (0, 9)]     # names differing only in a late character
    for _ in range(n_chains):
        if rng.random() < 0.75:
            # may repeat the previous chain id; sometimes an id differing only in the last character
            chain_tok = rng.choice([5, 6, 7, 3]) if rng.random() < 0.25 else rng.randrange(len(CHAINS))
        res_id = rng.choice([1, 1, -3, 10, 0])
        ins = 0
        name = rng.randrange(len(NAMES))
        hetero = 1 if rng.random() < 0.15 else 0
        for _ in range(rng.choice([1, 1, 2, 3, 4, 6])):
            for _ in range(rng.choice([1, 1, 1, 2, 3, 4])):
                atoms.append([chain_tok, res_id, ins, name, hetero])
            step = rng.random()
            if step < 0.40:
                res_id += 1
                ins = 0
            elif step < 0.50:
                res_id += rng.choice([2, 5, 100])
            elif step < 0.60:
                ins = (ins + 1) % len(INS)               # same id, new insertion code
            elif step < 0.68:
                name = (name + 1 + rng.randrange(len(NAMES) - 1)) % len(NAMES)   # same id, other name
            elif step < 0.75:
                a, b = rng.choice(similar)               # same id, name differing only in the 4th/5th character
                name = b if name == a else a
            elif step < 0.79:
                # same res_id, different (chain, ins, name) whose concatenation chain+ins+name is the SAME string:
                # ins 'A' + name 'U' -> ins '' + name 'AU';  chain 'A' + ins 'A' -> chain 'AA' + ins ''
                if rng.random() < 0.5:
                    ins, name = rng.choice([((1, 12), (0, 13)), ((0, 13), (1, 12))])[0 if (ins, name) != (1, 12) else 1]
                    if atoms and (atoms[-1][2], atoms[-1][3]) not in ((1, 12), (0, 13)):
                        for a in atoms[::-1]:
                            if a[0] != chain_tok or a[1] != res_id:
                                break
                            a[2], a[3] = (0, 13) if (ins, name) == (1, 12) else (1, 12)
                else:
                    for a in atoms[::-1]:
                        if a[0] != chain_tok or a[1] != res_id:
                            break
                        a[0], a[2] = 0, 1                 # chain 'A', ins 'A'
                    chain_tok, ins = 3, 0                 # chain 'AA', ins ''
            elif step < 0.85:
                res_id -= rng.choice([1, 2, 7])          # decrement: a chain start without chain id change
                hetero = rng.choice([0, 1, hetero])
            elif step < 0.92:
                pass                                     # identical key: the two residues merge
            else:
                res_id += 1
                name = rng.randrange(len(NAMES))
        if rng.random() < 0.35:
            # waters / ligands under the same chain id whose numbering restarts (lower res_id): per the property a
            # res_id decrease starts a new chain whatever the hetero flag says
            hres = rng.choice([1, res_id - 1, res_id - 5, 0])
            hname = rng.choice([2, 3, 4, 5])
            for _ in range(rng.choice([1, 2, 3])):
                for _ in range(rng.choice([1, 1, 3])):
                    atoms.append([chain_tok, hres, 0, hname, 1])
                hres += rng.choice([1, 1, 2, -1])
    if rng.random() < 0.12:
        # res_ids at the ends of the int64 range (audit 6: the generator used to keep |res_id| small): a step from the
        # top to the bottom of the range is a decrease, a step back an increase, although their differences wrap
        hi = rng.random() < 0.5
        prev = None
        for a in atoms:
            if prev is not None and (a[0], a[1], a[2], a[3]) != prev and rng.random() < 0.35:
                hi = not hi
            prev = (a[0], a[1], a[2], a[3])
            a[1] = min(2 ** 63 - 1, 2 ** 63 - 1 - 1500 + a[1]) if hi else max(-2 ** 63, -2 ** 63 + 1500 + a[1])
    if rng.random() < 0.25:                              # per-atom noise
        for _ in range(rng.randint(1, 3)):
            a = rng.choice(atoms)
            a[rng.randrange(5)] = rng.choice([0, 1, 2] if rng.random() < 0.7 else [0, 1])
            a[4] = 1 if a[4] else 0
    return [list(a) for a in atoms]


def _n_segments(atoms, which):
    st = _expected_is_start(atoms, which)
    return sum(st)


def _seg_case(rng, atoms=None):
    atoms = _gen_atoms(rng) if atoms is None else atoms
    n = len(atoms)
    idx = [rng.randrange(n) for _ in range(rng.choice([0, 1, 2, 3, 5, 8]))] if n else []
    if n and rng.random() < 0.3:
        idx += [0, n - 1]
    bad = None
    r = rng.random()
    if r < 0.35:
        bad = list(idx)
        bad.insert(rng.randint(0, len(bad)), rng.choice([-1, -1, -n, -n - 1, -2, n, n, n + 1, n + 7, 2 * n + 1, 2 ** 31, 2 ** 32, 2 ** 63 - 1, 2 ** 63, 2 ** 64 + 1, -2 ** 63]))
    data = [rng.randint(-50, 50) for _ in range(n)]
    case = {"kind": "seg", "atoms": atoms, "idx": idx, "bad_idx": bad, "data": data,
            "fn": rng.choice(FNS),
            "spread": {w: [rng.randint(-9, 99) for _ in range(_n_segments(atoms, w))] for w in "rc"},
            "bad_spread": ([rng.randint(0, 9) for _ in range(rng.choice([0, 1, 2, 3, 7]))] if rng.random() < 0.15 else None)}
    case["applyx"] = [_gen_applyx(rng, n) for _ in range(rng.choice([1, 1, 2]))]
    # the same annotations in an AtomArrayStack whose model count differs from the atom count (len(stack) != atoms)
    case["stack"] = rng.choice([d for d in (1, 2, 3, 5, n + 1, max(1, n - 1), 2 * n + 2) if d != n]) if rng.random() < 0.35 else 0
    case["bad_data"] = None
    if rng.random() < 0.12:
        m = rng.choice([0, 1, max(0, n - 1), n + 1, 2 * n + 3, max(0, n // 2)])
        if m != n:
            case["bad_data"] = {"fn": rng.choice(["sum", "len"]), "data": [rng.randint(-9, 9) for _ in range(m)]}
    case["spell"] = rng.sample(IDX_SPELLINGS, 2)
    case["dspell"] = rng.sample(DATA_SPELLINGS, 1)
    case["mods"] = []
    if n and rng.random() < 0.45:
        # in-place edits of the annotations between two rounds of queries on the same array object
        for _ in range(rng.choice([1, 1, 2, 3])):
            k = rng.randrange(n)
            new = list(atoms[k]) + [0] * (5 - len(atoms[k]))
            f = rng.randrange(4)
            new[f] = (new[f] + rng.choice([1, -1, 2])) if f == 1 else rng.randrange(len([CHAINS, None, INS, NAMES][f]))
            case["mods"].append([k, new])
    case["ops"] = _seg_ops(case)
    return case


def _gen_applyx(rng, n):
    """data of dtype int / float (k/2, exactly representable) / bool, 1-D (cols 0) or 2-D (n x cols)."""
    kind = rng.choice(["i", "i", "f", "b"])
    cols = rng.choice([0, 0, 1, 2, 3])
    m = n * max(cols, 1)
    if kind == "b":
        data = [rng.randint(0, 1) for _ in range(m)]
    else:
        data = [rng.randint(-9, 9) for _ in range(m)]
    fn = rng.choice(XFNS)
    if fn.endswith("all") and cols < 2 and rng.random() < 0.7:
        cols = rng.choice([2, 3])                         # multi-dimensional data reduced without an axis
        data = [rng.randint(0, 1) if kind == "b" else rng.randint(-9, 9) for _ in range(n * cols)]
    return {"fn": fn, "kind": kind, "cols": cols, "data": data}


def _seg_ops(case):
    atoms = case["atoms"]
    ops = [f"stack {case['stack']}"] if case.get("stack") else []
    ops.append("atoms " + (",".join(":".join(str(x) for x in a) for a in atoms) if atoms else "_"))
    for w in "rc":
        ops += [f"starts {w} 0", f"starts {w} 1", f"count {w}", f"names {w}", f"iter {w}",
                f"masks {w} {_ints(case['idx'])}", f"startsfor {w} {_ints(case['idx'])}",
                f"positions {w} {_ints(case['idx'])}",
                f"apply {w} {case['fn']} {_ints(case['data'])}",
                f"spread {w} {_ints(case['spread'][w])}"]
        for x in case.get("applyx") or []:
            ops.append(f"applyx {w} {x['fn']} {x['kind']} {x['cols']} {_ints(x['data'])}")
        if case.get("bad_idx") is not None:
            ops += [f"masks {w} {_ints(case['bad_idx'])}", f"startsfor {w} {_ints(case['bad_idx'])}",
                    f"positions {w} {_ints(case['bad_idx'])}"]
        if case.get("bad_spread") is not None:
            ops.append(f"spread {w} {_ints(case['bad_spread'])}")
        if case.get("bad_data"):
            ops.append(f"apply {w} {case['bad_data']['fn']} {_ints(case['bad_data']['data'])}")
        if case.get("bad_idx") is not None or case.get("bad_spread") is not None:
            # after the refused calls the same array answers as before
            ops += [f"positions {w} {_ints(case['idx'])}", f"masks {w} {_ints(case['idx'])}"]
    if case.get("mods") and atoms:
        for k, new in case["mods"]:
            ops.append(f"setatom {k} " + ":".join(str(x) for x in new))
        for w in "rc":
            ops += [f"starts {w} 1", f"count {w}", f"names {w}", f"iter {w}", f"masks {w} {_ints(case['idx'])}",
                    f"startsfor {w} {_ints(case['idx'])}", f"positions {w} {_ints(case['idx'])}",
                    f"apply {w} {case['fn']} {_ints(case['data'])}"]
    return ops


def _gen_graph(rng):
    n = rng.choice([0, 1, 2, 3, 4, 5, 6, 8, 10, 12, 16, 24, 40])
    bonds = []
    if n >= 2:
        shape = rng.choice(["forest", "forest", "ring", "chain", "random", "random", "clique", "sparse", "none"])
        perm = list(range(n))
        rng.shuffle(perm)
        if shape == "forest":
            for i in range(1, n):
                if rng.random() < 0.8:
                    bonds.append([perm[i], perm[rng.randrange(i)]])
        elif shape == "ring":
            k = rng.randint(2, n)
            bonds = [[perm[i], perm[(i + 1) % k]] for i in range(k)]
        elif shape == "chain":
            k = rng.randint(2, n)
            bonds = [[perm[i], perm[i + 1]] for i in range(k - 1)]
            if rng.random() < 0.5:
                bonds = [[i, i + 1] for i in range(k - 1)]            # in index order, like a polymer
        elif shape == "random":
            for _ in range(rng.randint(1, 2 * n)):
                bonds.append([rng.randrange(n), rng.randrange(n)])
        elif shape == "clique":
            k = rng.randint(2, min(n, 6))
            bonds = [[perm[i], perm[j]] for i in range(k) for j in range(i + 1, k)]
        elif shape == "sparse":
            for _ in range(rng.randint(1, max(1, n // 3))):
                bonds.append([rng.randrange(n), rng.randrange(n)])
        if bonds and rng.random() < 0.2:
            b = rng.choice(bonds)
            bonds.append([b[1], b[0]])                                  # duplicate, reversed
        rng.shuffle(bonds)
    # every bond type, chosen per bond: connectivity must not depend on it
    mode = rng.random()
    for b in bonds:
        b.append(rng.randrange(N_BOND_TYPES) if mode < 0.7 else rng.choice([8, 0, 9, 1]) if mode < 0.9 else 1)
    roots = [rng.randrange(n) for _ in range(min(n, 3))] if n else []
    bad_roots = rng.sample([-1, n, n + 3, -n - 1, 2 ** 32, 2 ** 32 - 1], 2) if rng.random() < 0.4 else []
    case = {"kind": "graph", "n": n, "bonds": bonds, "roots": roots, "bad_roots": bad_roots,
            "edits": [], "second": None}
    uniq = {tuple(sorted(b[:2])) for b in bonds}
    if n >= 3 and uniq and rng.random() < 0.6:
        # edit the same BondList in place between two molecule queries: one bond out, another in (count unchanged)
        for _ in range(rng.choice([1, 1, 2, 3])):
            free = [(a, b) for a in range(n) for b in range(a + 1, n) if (a, b) not in uniq]
            if not free or not uniq:
                break
            rm = rng.choice(sorted(uniq))
            add = rng.choice(free)
            uniq.discard(rm)
            uniq.add(add)
            rm, add = list(rm), list(add)
            if rng.random() < 0.5:
                rm.reverse()
            if rng.random() < 0.5:
                add.reverse()
            case["edits"].append(rm + add + [rng.randrange(N_BOND_TYPES)])
    if n >= 3 and uniq and rng.random() < 0.4:
        # a new BondList with the same atom and bond count but re-labelled atoms, built after the first was dropped
        perm = list(range(n))
        rng.shuffle(perm)
        case["second"] = [[perm[a], perm[b], rng.randrange(N_BOND_TYPES)] for a, b in sorted(uniq)]
    case["ops"] = _graph_ops(case)
    return case


def _apply_edits(bonds, edits):
    """The bond pairs after the in-place edits (remove bond i-j in either orientation, then add k-l)."""
    cur = [list(b) for b in bonds]
    states = []
    for ri, rj, ai, aj, t in edits:
        cur = [b for b in cur if {b[0], b[1]} != {ri, rj} or (b[0] == b[1]) != (ri == rj)]
        cur.append([ai, aj, t])
        states.append([list(b) for b in cur])
    return states


def _graph_ops(case):
    ops = [f"graph {case['n']} " + (",".join("-".join(str(x) for x in b) for b in case["bonds"]) if case["bonds"] else "_")]
    ops += [f"connected {r}" for r in case["roots"] + case.get("bad_roots", [])]
    ops += ["molecules", "molmasks"]
    for ri, rj, ai, aj, t in case.get("edits") or []:
        ops += [f"rmbond {ri} {rj}", f"addbond {ai} {aj} {t}", "molecules", "molmasks"]
        ops += [f"connected {r}" for r in case["roots"][:2]]
    if case.get("second"):
        ops += [f"graph {case['n']} " + ",".join("-".join(str(x) for x in b) for b in case["second"]), "molecules", "molmasks"]
    return ops


def _bigseg_cases(tier):
    return [{"kind": "bigseg", "n": 200000 if tier == "quick" else 2000000, "seed": k} for k in range(1 if tier == "quick" else 3)]


def _bigseg_oracle(case):
    """audit 6 (generator caps arrays at ~60 atoms): one large array, per-atom loop against the real code"""
    import bisect
    import random
    import numpy as np
    import biotite.structure as struc
    rng = random.Random(case["seed"])
    n = case["n"]
    chain, res, ins, name = [], [], [], []
    c, r, i, nm = 0, 1, 0, 0
    while len(chain) < n:
        k = rng.choice([1, 1, 2, 5, 8, 14])
        chain += [c] * k
        res += [r] * k
        ins += [i] * k
        name += [nm] * k
        u = rng.random()
        if u < 0.8:
            r += 1
        elif u < 0.85:
            i = (i + 1) % len(INS)
        elif u < 0.9:
            nm = rng.randrange(len(NAMES))
        elif u < 0.95:
            r = rng.choice([1, r - 3])
        else:
            c = rng.randrange(len(CHAINS))
            r = 1
    chain, res, ins, name = chain[:n], res[:n], ins[:n], name[:n]
    a = struc.AtomArray(n)
    a.chain_id = np.array(CHAINS, dtype="U4")[chain]
    a.res_id = np.array(res)
    a.ins_code = np.array(INS, dtype="U1")[ins]
    a.res_name = np.array(NAMES, dtype="U5")[name]
    key = [(CHAINS[chain[j]], res[j], INS[ins[j]], NAMES[name[j]]) for j in range(n)]
    rs = [0] + [j for j in range(1, n) if key[j] != key[j - 1]]
    cs = [0] + [j for j in range(1, n) if key[j][0] != key[j - 1][0] or res[j] < res[j - 1]]
    v = []
    if struc.get_residue_starts(a, add_exclusive_stop=True).tolist() != rs + [n] or struc.get_residue_count(a) != len(rs):
        v.append(("C17/get_residue_starts/boundaries-large", f"{n} atoms (seed {case['seed']}): starts differ from the per-atom loop"))
    if struc.get_chain_starts(a, add_exclusive_stop=True).tolist() != cs + [n] or struc.get_chain_count(a) != len(cs):
        v.append(("C17/get_chain_starts/boundaries-large", f"{n} atoms (seed {case['seed']}): starts differ from the per-atom loop"))
    idx = [0, n - 1] + [rng.randrange(n) for _ in range(50)]
    if struc.get_residue_positions(a, np.array(idx)).tolist() != [bisect.bisect_right(rs, j) - 1 for j in idx] \
            or struc.get_chain_starts_for(a, np.array(idx)).tolist() != [cs[bisect.bisect_right(cs, j) - 1] for j in idx]:
        v.append(("C17/positions-starts_for/large", f"{n} atoms (seed {case['seed']})"))
    d = np.arange(n) % 7
    if struc.apply_residue_wise(a, d, np.sum).tolist() != [int(d[x:y].sum()) for x, y in zip(rs, rs[1:] + [n])]:
        v.append(("C17/apply_residue_wise/value-large", f"{n} atoms (seed {case['seed']})"))
    return v


def _big_cases(tier):
    if tier == "quick":
        spec = [("chain", 200000), ("chain", 20000), ("stars", 21000), ("forest", 20000), ("ring", 30000), ("comb", 60000)]
    else:
        spec = [("chain", 100000), ("chain", 200000), ("chain", 1000000), ("chain", 2000000), ("chain", 20000),
                ("ring", 30000), ("ring", 400000), ("stars", 100000), ("forest", 60000), ("comb", 300000),
                ("revchain", 150000)]
    return [{"kind": "biggraph", "shape": s, "n": n} for s, n in spec]


def cases(rng, tier):
    n_seg, n_graph = (900, 600) if tier == "quick" else (12000, 8000)
    for _ in range(n_seg):
        yield _seg_case(rng)
    for _ in range(n_graph):
        yield _gen_graph(rng)
    yield from _big_cases(tier)
    yield from _bigseg_cases(tier)


def _mk(atoms, **kw):
    c = {"kind": "seg", "atoms": atoms, "idx": kw.get("idx", []), "bad_idx": kw.get("bad_idx"),
         "data": kw.get("data", list(range(len(atoms)))), "fn": kw.get("fn", "sum"),
         "spread": {w: list(range(_n_segments(atoms, w))) for w in "rc"}, "bad_spread": kw.get("bad_spread"),
         "applyx": kw.get("applyx", []), "stack": kw.get("stack", 0), "mods": kw.get("mods", []),
         "spell": kw.get("spell", []), "dspell": kw.get("dspell", []), "bad_data": kw.get("bad_data")}
    c["ops"] = _seg_ops(c)
    return c


def corpus():
    out = [
        _mk([], fn="sum"), _mk([], fn="minmax", bad_idx=[0]), _mk([], bad_idx=[-1]),
        _mk([[0, 1, 0, 0]], idx=[0], bad_idx=[1]),
        # same res_id in two chains; insertion code; same id other name; decrement inside one chain id
        _mk([[0, 1, 0, 0], [1, 1, 0, 0], [1, 1, 1, 0], [1, 1, 1, 1], [1, 0, 1, 1], [1, 0, 1, 1]],
            idx=[0, 1, 2, 3, 4, 5], bad_idx=[5, 6], fn="minmax"),
        _mk([[0, 5, 0, 0]] * 4, idx=[3, 0], bad_spread=[1, 2, 3]),
        # result dtype differs from the data dtype: mean of int vectors, bool -> int sums, predicates, float from int
        _mk([[0, 1, 0, 0], [0, 1, 0, 0], [0, 2, 0, 0], [1, 2, 0, 0], [1, 1, 0, 0]], applyx=[
            {"fn": "mean0", "kind": "i", "cols": 2, "data": [1, 2, 2, 2, 3, 4, 5, 6, 7, 8]},
            {"fn": "sum0", "kind": "b", "cols": 2, "data": [1, 1, 0, 1, 0, 1, 1, 1, 0, 0]},
            {"fn": "anypos", "kind": "i", "cols": 2, "data": [1, -2, 2, -2, 3, -4, 5, -6, -7, -8]},
            {"fn": "minmaxmean", "kind": "i", "cols": 0, "data": [1, 2, 3, 4, 6]},
            {"fn": "half", "kind": "i", "cols": 3, "data": list(range(15))}]),
        _mk([], applyx=[{"fn": "mean0", "kind": "i", "cols": 2, "data": []}]),
        # an (n, k) table reduced with np.sum / np.max / np.min and no axis: one scalar per segment; with axis=0: per column
        _mk([[0, 1, 0, 0], [0, 1, 0, 0], [0, 2, 0, 0], [1, 2, 0, 0], [1, 1, 0, 0]], applyx=[
            {"fn": "sumall", "kind": "i", "cols": 3, "data": list(range(15))},
            {"fn": "maxall", "kind": "f", "cols": 2, "data": [3, -1, 2, 9, -4, 0, 7, 7, 1, 2]},
            {"fn": "minall", "kind": "b", "cols": 2, "data": [1, 1, 1, 0, 1, 1, 0, 0, 1, 1]},
            {"fn": "sumax0", "kind": "i", "cols": 3, "data": list(range(15))},
            {"fn": "maxax0", "kind": "i", "cols": 0, "data": [5, 3, 9, -2, 0]}]),
        # an AtomArrayStack whose model count (2, 7) differs from its atom count (5 / 0 atoms)
        _mk([[0, 1, 0, 0], [0, 1, 0, 0], [0, 2, 0, 0], [1, 2, 0, 0], [1, 1, 0, 0]], idx=[0, 2, 4], bad_idx=[5], stack=2,
            fn="minmax", applyx=[{"fn": "mean0", "kind": "i", "cols": 2, "data": list(range(10))}]),
        _mk([[0, 1, 0, 0], [0, 1, 0, 0], [0, 2, 0, 0]], idx=[2], stack=7),
        _mk([], stack=3, bad_idx=[0]),
        # in-place annotation edits between two rounds of queries; every index / data spelling once
        _mk([[0, 1, 0, 0], [0, 1, 0, 0], [0, 2, 0, 0], [1, 2, 0, 0], [1, 1, 0, 0]], idx=[4, 0, 2, 2], bad_idx=[0, 5],
            mods=[[1, [0, 2, 0, 0, 0]], [4, [1, 2, 0, 0, 0]]], spell=list(IDX_SPELLINGS), dspell=list(DATA_SPELLINGS),
            applyx=[{"fn": "sumall", "kind": "i", "cols": 2, "data": list(range(10))},
                    {"fn": "mean0", "kind": "f", "cols": 3, "data": list(range(15))}]),
        # res_ids at both ends of the int64 range: 1 is a decrease (new chain), 3 an increase (no new chain)
        _mk([[0, 2 ** 63 - 1, 0, 0], [0, -2 ** 63, 0, 0], [0, -2 ** 63, 0, 0], [0, 2 ** 63 - 1, 0, 0], [0, 2 ** 63 - 2, 0, 0]],
            idx=[0, 1, 3, 4]),
        # adjacent residues whose concatenated labels chain+ins+name coincide although the annotations differ
        _mk([[0, 5, 1, 12], [0, 5, 1, 12], [0, 5, 0, 13], [0, 7, 1, 0], [3, 7, 0, 0], [3, 7, 0, 0]], idx=[0, 2, 3, 5]),
        # residue names / chain ids that differ only in the 4th/5th (4th) character
        _mk([[5, 1, 0, 4, 1], [5, 1, 0, 5, 1], [6, 1, 0, 5, 1], [6, 1, 0, 6, 1], [6, 1, 0, 7, 1]], idx=[0, 1, 2, 3, 4]),
        # waters whose numbering restarts inside one chain id: a new chain starts at the res_id decrease
        _mk([[0, 10, 0, 0, 0], [0, 11, 0, 1, 0], [0, 1, 0, 2, 1], [0, 2, 0, 2, 1], [0, 1, 0, 3, 1]], idx=[0, 2, 4]),
    ]
    g = [
        {"kind": "graph", "n": 0, "bonds": [], "roots": [], "bad_roots": [0, -1]},
        {"kind": "graph", "n": 5, "bonds": [[0, 1], [3, 1], [2, 4]], "roots": [0, 3, 4], "bad_roots": [5, -1]},
        {"kind": "graph", "n": 6, "bonds": [[0, 1], [1, 2], [2, 0], [2, 0], [4, 4]], "roots": [2, 3, 4], "bad_roots": [4294967296]},
        {"kind": "graph", "n": 40, "bonds": [[i, i + 1] for i in range(39)], "roots": [0, 39, 20], "bad_roots": []},
        # a metal ion (atom 2) bridging two ligands by COORDINATION bonds; one bond of every type
        {"kind": "graph", "n": 5, "bonds": [[0, 1, 1], [1, 2, 8], [2, 3, 8], [3, 4, 2]], "roots": [0, 2, 4], "bad_roots": []},
        {"kind": "graph", "n": 12, "bonds": [[i, i + 1, i] for i in range(10)], "roots": [0, 5, 11], "bad_roots": []},
        # the same BondList edited in place between two queries (one bond out, one in), then a same-sized new one
        {"kind": "graph", "n": 6, "bonds": [[0, 1, 1], [1, 2, 1], [3, 4, 2]], "roots": [0], "bad_roots": [],
         "edits": [[1, 2, 4, 5, 1], [0, 1, 2, 3, 8]], "second": [[0, 5, 1], [1, 4, 1], [2, 3, 1]]},
    ]
    for c in g:
        c["ops"] = _graph_ops(c)
    return out + g


# ---------------------------------------------------------------- implementation adapter
def _atom_array(atoms, depth=0):
    """AtomArray, or (depth > 0) an AtomArrayStack of `depth` models carrying the same annotations."""
    import numpy as np
    import biotite.structure as struc
    a = struc.AtomArrayStack(depth, len(atoms)) if depth else struc.AtomArray(len(atoms))
    a.chain_id = np.array([CHAINS[x[0]] for x in atoms], dtype="U4")
    a.res_id = np.array([x[1] for x in atoms], dtype=int)
    a.ins_code = np.array([INS[x[2]] for x in atoms], dtype="U1")
    a.res_name = np.array([NAMES[x[3]] for x in atoms], dtype="U5")
    a.hetero = np.array([bool(x[4]) if len(x) > 4 else False for x in atoms], dtype=bool)
    a.set_annotation("uid", np.arange(len(atoms), dtype=int))
    return a


def _pyfn(name):
    import numpy as np
    return {"sum": np.sum, "max": np.max, "len": len, "first": (lambda s: s[0]),
            "minmax": (lambda s: np.array([s.min(), s.max()]))}[name]


def _xfn(name):
    """(function, axis): the function object handed to apply_*_wise and its `axis` argument (None = not given).
    The `*all` / `*ax0` entries pass numpy's own np.sum / np.max / np.min objects, without and with axis=0."""
    import numpy as np
    return {"mean0": ((lambda s: np.mean(s, axis=0)), None), "sum0": ((lambda s: np.sum(s, axis=0)), None),
            "half": ((lambda s: np.sum(s, axis=0) / 2), None), "anypos": ((lambda s: (s > 0).any(axis=0)), None),
            "minmaxmean": ((lambda s: np.array([s.min(), s.max(), s.mean()])), None),
            "sumall": (np.sum, None), "maxall": (np.max, None), "minall": (np.min, None),
            "sumax0": (np.sum, 0), "maxax0": (np.max, 0), "minax0": (np.min, 0)}[name]


def _xapply(apply_fn, arr, data, name):
    f, axis = _xfn(name)
    return apply_fn(arr, data, f) if axis is None else apply_fn(arr, data, f, axis=axis)


def _xdirect(name, seg):
    f, axis = _xfn(name)
    return f(seg) if axis is None else f(seg, axis=axis)


def _xdata(x, n):
    """The per-atom data array of an applyx entry: dtype int / float / bool, shape (n,) or (n, cols)."""
    import numpy as np
    a = np.array(x["data"], dtype=int)
    a = {"i": a, "f": a / 2.0, "b": a.astype(bool)}[x["kind"]]
    return a.reshape(n, x["cols"]) if x["cols"] else a.reshape(n)


def _kind(a):
    import numpy as np
    k = np.asarray(a).dtype.kind
    return {"i": "i", "u": "i", "f": "f", "b": "b"}.get(k, k)


def _show_applyx(res):
    """`<dtype kind> v:v,v:v` - one group per segment; floats as exact small fractions, never as decimals."""
    from fractions import Fraction
    import numpy as np
    if res is None:
        return "ok None"
    res = np.asarray(res)
    if len(res) == 0:
        return "ok _"
    k = _kind(res)

    def one(v):
        if k == "f":
            fr = Fraction(float(v)).limit_denominator(10000)
            return f"{fr.numerator}/{fr.denominator}"
        return str(int(v))
    return f"ok {k} " + ",".join(":".join(one(v) for v in np.asarray(row).reshape(-1)) for row in res)


def _idx_arg(xs):
    """index argument: an int64 ndarray; a plain list when a value does not fit int64 (np.asarray is the callee's job)"""
    import numpy as np
    if any(not -2 ** 63 <= x < 2 ** 63 for x in xs):
        return list(xs)
    return np.array(xs, dtype=int)


def _err(e):
    return "ERR:" + type(e).__name__


def _bits(row):
    return "".join("1" if b else "0" for b in row) if len(row) else "-"


def _rows(m):
    return ";".join(_bits(r) for r in m) if len(m) else "_"


def _groups(gs):
    gs = list(gs)
    return ";".join((_ints(g) if len(g) else "-") for g in gs) if gs else "_"


def _show_apply(res, fn):
    if res is None:
        return "ok None"
    if fn == "minmax":
        return "ok " + (",".join(f"{int(a)}:{int(b)}" for a, b in res) if len(res) else "_")
    return "ok " + _ints(res)


def _seg_impl(case):
    import numpy as np
    import biotite.structure as struc
    out = []
    arr = None
    depth = 0
    F = {"r": dict(starts=struc.get_residue_starts, masks=struc.get_residue_masks, startsfor=struc.get_residue_starts_for,
                   positions=struc.get_residue_positions, apply=struc.apply_residue_wise, spread=struc.spread_residue_wise,
                   iter=struc.residue_iter, count=struc.get_residue_count),
         "c": dict(starts=struc.get_chain_starts, masks=struc.get_chain_masks, startsfor=struc.get_chain_starts_for,
                   positions=struc.get_chain_positions, apply=struc.apply_chain_wise, spread=struc.spread_chain_wise,
                   iter=struc.chain_iter, count=struc.get_chain_count)}
    for op in case["ops"]:
        w = op.split()
        try:
            if w[0] == "stack":
                depth = int(w[1])
                out.append("ok")
            elif w[0] == "atoms":
                atoms = [] if w[1] == "_" else [[int(x) for x in a.split(":")] for a in w[1].split(",")]
                arr = _atom_array(atoms, depth)
                out.append(f"ok {arr.array_length()}")
            elif w[0] == "setatom":
                _set_atom(arr, int(w[1]), [int(x) for x in w[2].split(":")])
                out.append("ok")
            elif w[0] == "starts":
                out.append("ok " + _ints(F[w[1]]["starts"](arr, add_exclusive_stop=(w[2] == "1"))))
            elif w[0] == "count":
                out.append(f"ok {int(F[w[1]]['count'](arr))}")
            elif w[0] == "names":
                if w[1] == "r":
                    ids, names = struc.get_residues(arr)
                    out.append("ok " + (",".join(f"{int(i)}:{NAMES.index(str(nm))}" for i, nm in zip(ids, names)) if len(ids) else "_"))
                else:
                    out.append("ok " + _ints(CHAINS.index(str(c)) for c in struc.get_chains(arr)))
            elif w[0] == "iter":
                out.append("ok " + _groups([s.uid for s in F[w[1]]["iter"](arr)]))
            elif w[0] == "masks":
                out.append("ok " + _rows(F[w[1]]["masks"](arr, _idx_arg(_parse(w[2])))))
            elif w[0] == "startsfor":
                out.append("ok " + _ints(F[w[1]]["startsfor"](arr, _idx_arg(_parse(w[2])))))
            elif w[0] == "positions":
                out.append("ok " + _ints(F[w[1]]["positions"](arr, _idx_arg(_parse(w[2])))))
            elif w[0] == "apply":
                res = F[w[1]]["apply"](arr, np.array(_parse(w[3]), dtype=int), _pyfn(w[2]))
                out.append(_show_apply(res, w[2]))
            elif w[0] == "spread":
                out.append("ok " + _ints(F[w[1]]["spread"](arr, np.array(_parse(w[2]), dtype=int))))
            elif w[0] == "applyx":
                x = {"fn": w[2], "kind": w[3], "cols": int(w[4]), "data": _parse(w[5])}
                out.append(_show_applyx(_xapply(F[w[1]]["apply"], arr, _xdata(x, arr.array_length()), w[2])))
            else:
                out.append("bad-op")
        except Exception as e:  # noqa: BLE001
            out.append(_err(e))
    return out


def _bond_array(bonds):
    """(i, j) or (i, j, type) -> BondList input; a missing type is SINGLE."""
    import numpy as np
    return np.array([[b[0], b[1], b[2] if len(b) > 2 else 1] for b in bonds], dtype=np.int64).reshape(-1, 3)


def _graph_impl_child(case):
    import numpy as np
    import biotite.structure as struc
    out = []
    bl = None
    for op in case["ops"]:
        w = op.split()
        try:
            if w[0] == "graph":
                n = int(w[1])
                bonds = [] if w[2] == "_" else [[int(x) for x in b.split("-")] for b in w[2].split(",")]
                bl = struc.BondList(n, _bond_array(bonds))
                out.append("ok")
            elif w[0] == "rmbond":
                bl.remove_bond(int(w[1]), int(w[2]))
                out.append("ok")
            elif w[0] == "addbond":
                bl.add_bond(int(w[1]), int(w[2]), int(w[3]))
                out.append("ok")
            elif w[0] == "connected":
                out.append("ok " + _ints(struc.find_connected(bl, int(w[1]))))
            elif w[0] == "molecules":
                out.append("ok " + _groups(struc.get_molecule_indices(bl)))
            elif w[0] == "molmasks":
                out.append("ok " + _rows(struc.get_molecule_masks(bl)))
            else:
                out.append("bad-op")
        except Exception as e:  # noqa: BLE001
            out.append(_err(e))
    return out


_TIMEOUTS = {"n": 0}      # circuit breaker: after 3 hanging children the remaining graph cases are not run


def run_impl(case):
    if case["kind"] == "seg":
        return _seg_impl(case)
    if case["kind"] == "graph":
        from common import sandbox
        if _TIMEOUTS["n"] >= 3:
            return ["TIMEOUT"] * len(case["ops"])
        r = sandbox.run_forked(_graph_impl_child, case, timeout=10)
        if r[0] == "timeout":
            _TIMEOUTS["n"] += 1
        if r[0] == "ok":
            return r[1]
        return ["CRASH" if r[0] == "crash" else "TIMEOUT" if r[0] == "timeout" else "ERR:" + r[1]] * len(case["ops"])
    return []


# ---------------------------------------------------------------- property oracle (independent of the model)
def _key(a, which):
    return (a[0], a[1], a[2], a[3]) if which == "r" else None


def _expected_is_start(atoms, which):
    """Per-atom statement of the property: atom i starts a segment iff it is the first atom, or (residues) any of
    chain id / res id / ins code / res name differs from atom i-1, (chains) the chain id differs or res id decreases."""
    st = []
    for i, a in enumerate(atoms):
        if i == 0:
            st.append(True)
        else:
            p = atoms[i - 1]
            if which == "r":
                st.append(CHAINS[a[0]] != CHAINS[p[0]] or a[1] != p[1] or INS[a[2]] != INS[p[2]] or NAMES[a[3]] != NAMES[p[3]])
            else:
                st.append(CHAINS[a[0]] != CHAINS[p[0]] or a[1] < p[1])
    return st


def _apply_mods(atoms, mods):
    out = [list(a) + [0] * (5 - len(a)) for a in atoms]
    for k, new in mods:
        out[k] = list(new)
    return out


def _set_atom(arr, k, a):
    """in-place edit of the annotations of atom k (no new array object)"""
    arr.chain_id[k] = CHAINS[a[0]]
    arr.res_id[k] = a[1]
    arr.ins_code[k] = INS[a[2]]
    arr.res_name[k] = NAMES[a[3]]
    arr.hetero[k] = bool(a[4]) if len(a) > 4 else False


def _spell_idx(name, idx):
    """the same index values in another spelling (hardening class 3); None if the spelling cannot hold them"""
    import numpy as np
    a = np.array(idx, dtype=np.int64)
    if name == "list":
        return list(idx)
    if name == "tuple":
        return tuple(idx)
    if name in ("int8", "uint8", "int16", "uint16", "int32", "uint32", "uint64"):
        if len(a) and (a.max() > np.iinfo(name).max or a.min() < np.iinfo(name).min):
            return None
        return a.astype(name)
    if name == "strided":
        b = np.zeros(2 * len(a) + 1, dtype=np.int64)
        b[1::2] = a
        return b[1::2]
    if name == "reversed-view":
        return a[::-1].copy()[::-1]
    if name == "readonly":
        a.setflags(write=False)
        return a
    if name == "byteswapped":
        return a.astype(">i8")
    raise ValueError(name)


IDX_SPELLINGS = ["list", "tuple", "int8", "uint8", "int16", "uint16", "int32", "uint32", "uint64", "strided",
                 "reversed-view", "readonly", "byteswapped"]
DATA_SPELLINGS = ["readonly", "strided", "fortran", "float32", "int32"]


def _spell_data(name, d):
    import numpy as np
    d = np.array(d)
    if name == "readonly":
        d.setflags(write=False)
        return d
    if name == "strided":
        b = np.zeros((2 * d.shape[0],) + d.shape[1:], dtype=d.dtype)
        b[::2] = d
        return b[::2]
    if name == "fortran":
        return np.asfortranarray(d)
    if name == "float32":
        return d.astype(np.float32) if d.dtype.kind in "if" else d
    if name == "int32":
        return d.astype(np.int32) if d.dtype.kind == "i" else d
    raise ValueError(name)


def _requery_after_edit(case, atoms, atoms2, arr):
    """query X, edit the array in place, query X again (directly adjacent, for every X): the second answer must be the
    one a fresh array with the edited content gives.  Any memoisation keyed on the object shows up here."""
    import numpy as np
    import biotite.structure as struc
    v = []
    full = [list(a) + [0] * (5 - len(a)) for a in atoms]
    fresh = _atom_array(atoms2, case.get("stack") or 0)
    ia = np.array(case["idx"], dtype=int)
    data = np.array(case["data"], dtype=int)
    fn = _pyfn(case["fn"])

    def canon(x):
        if isinstance(x, (tuple, list)):
            return [canon(y) for y in x]
        if x is None:
            return None
        return np.asarray(x).tolist()

    Q = [("get_residue_starts", lambda a: struc.get_residue_starts(a)),
         ("get_residue_starts(stop)", lambda a: struc.get_residue_starts(a, add_exclusive_stop=True)),
         ("get_chain_starts", lambda a: struc.get_chain_starts(a)),
         ("get_chain_starts(stop)", lambda a: struc.get_chain_starts(a, add_exclusive_stop=True)),
         ("get_residue_count", struc.get_residue_count), ("get_chain_count", struc.get_chain_count),
         ("get_residues", struc.get_residues), ("get_chains", struc.get_chains),
         ("get_residue_positions", lambda a: struc.get_residue_positions(a, ia)),
         ("get_chain_masks", lambda a: struc.get_chain_masks(a, ia)),
         ("get_residue_starts_for", lambda a: struc.get_residue_starts_for(a, ia)),
         ("apply_residue_wise", lambda a: struc.apply_residue_wise(a, data, fn)),
         ("apply_chain_wise", lambda a: struc.apply_chain_wise(a, data, fn)),
         ("residue_iter", lambda a: [[int(u) for u in s.uid] for s in struc.residue_iter(a)]),
         ("chain_iter", lambda a: [[int(u) for u in s.uid] for s in struc.chain_iter(a)])]
    for name, q in Q:
        try:
            q(arr)
            for k, new in case["mods"]:
                _set_atom(arr, k, new)
            got = canon(q(arr))
            exp = canon(q(fresh))
        except Exception as e:  # noqa: BLE001
            v.append((f"C17/after-in-place-annotation-edit/{name}-{type(e).__name__}", f"{e} (atoms={atoms}, mods={case['mods']})"))
            got = exp = None
        finally:
            for k, _ in case["mods"]:
                _set_atom(arr, k, full[k])
        if got != exp:
            v.append((f"C17/after-in-place-annotation-edit/{name}/stale",
                      f"{name}: {got} after editing the array in place, a fresh array with the same content gives {exp} "
                      f"(atoms={atoms}, mods={case['mods']})"))
    return v


def _seg_oracle(case):
    atoms = case["atoms"]
    arr = _atom_array(atoms, case.get("stack") or 0)
    v = _seg_check(case, atoms, arr, "")
    mods = case.get("mods") or []
    if mods and atoms:
        # hardening class 1: edit the annotations of the SAME array object in place and ask again
        atoms2 = _apply_mods(atoms, mods)
        v += _requery_after_edit(case, atoms, atoms2, arr)
        for k, new in mods:
            _set_atom(arr, k, new)
        case2 = dict(case, spread={w: list(range(_n_segments(atoms2, w))) for w in "rc"}, bad_spread=None)
        v += _seg_check(case2, atoms2, arr, "after-in-place-annotation-edit/")
    return v


def _seg_check(case, atoms, arr, tag):
    import numpy as np
    import biotite.structure as struc
    from biotite.structure import segments as seglib
    n = len(atoms)
    data = np.array(case["data"], dtype=int)
    v = []
    pre = ("C17/empty-array/" if n == 0 else "C17/") + tag

    def bad(key, msg):
        v.append((pre + key, f"{msg} (atoms={atoms if n <= 12 else str(atoms[:12]) + '...'})"))

    def call(key, fn, *a, **k):
        try:
            return True, fn(*a, **k)
        except Exception as e:  # noqa: BLE001
            bad(f"{key}-{type(e).__name__}", f"{key} raised {type(e).__name__}: {e}")
            return False, None

    API = {"r": ("residue", struc.get_residue_starts, struc.get_residue_masks, struc.get_residue_starts_for,
                 struc.get_residue_positions, struc.apply_residue_wise, struc.spread_residue_wise, struc.residue_iter,
                 struc.get_residue_count),
           "c": ("chain", struc.get_chain_starts, struc.get_chain_masks, struc.get_chain_starts_for,
                 struc.get_chain_positions, struc.apply_chain_wise, struc.spread_chain_wise, struc.chain_iter,
                 struc.get_chain_count)}
    for w in "rc":
        nm, f_starts, f_masks, f_sfor, f_pos, f_apply, f_spread, f_iter, f_count = API[w]
        is_start = _expected_is_start(atoms, w)
        exp_starts = [i for i in range(n) if is_start[i]]
        seg_of = []
        k = -1
        for i in range(n):
            if is_start[i]:
                k += 1
            seg_of.append(k)
        members = [[i for i in range(n) if seg_of[i] == s] for s in range(len(exp_starts))]
        # starts / counts / names
        ok, got = call(f"get_{nm}_starts", f_starts, arr)
        if ok and [int(x) for x in got] != exp_starts:
            bad(f"get_{nm}_starts/boundaries", f"starts {list(map(int, got))} != per-atom boundaries {exp_starts}")
        ok, got = call(f"get_{nm}_starts-stop", f_starts, arr, add_exclusive_stop=True)
        if ok and [int(x) for x in got] != exp_starts + [n]:
            bad(f"get_{nm}_starts/exclusive-stop", f"starts with stop {list(map(int, got))} != {exp_starts + [n]}")
        ok, got = call(f"get_{nm}_count", f_count, arr)
        if ok and int(got) != len(exp_starts):
            bad(f"get_{nm}_count", f"count {got} != {len(exp_starts)}")
        if w == "r":
            ok, got = call("get_residues", struc.get_residues, arr)
            if ok and ([int(x) for x in got[0]] != [atoms[s][1] for s in exp_starts]
                       or [str(x) for x in got[1]] != [NAMES[atoms[s][3]] for s in exp_starts]):
                bad("get_residues", "ids/names differ from those of the first atom of every residue")
        else:
            ok, got = call("get_chains", struc.get_chains, arr)
            if ok and [str(x) for x in got] != [CHAINS[atoms[s][0]] for s in exp_starts]:
                bad("get_chains", "chain ids differ from those of the first atom of every chain")
        # iteration: concatenation reproduces the array, segments non-empty, constant inside
        ok, got = call(f"{nm}_iter", lambda: [s for s in f_iter(arr)])
        if ok:
            uids = [[int(u) for u in s.uid] for s in got]
            if [u for s in uids for u in s] != list(range(n)):
                bad(f"{nm}_iter/concat", f"concatenated segments {uids} != array")
            elif any(len(s) == 0 for s in uids):
                bad(f"{nm}_iter/empty-segment", f"empty segment in {uids}")
            elif uids != members:
                bad(f"{nm}_iter/segments", f"segments {uids} != per-atom segments {members}")
            elif any([str(x) for x in sg.res_name] != [NAMES[atoms[u][3]] for u in us]
                     or [str(x) for x in sg.chain_id] != [CHAINS[atoms[u][0]] for u in us]
                     or [str(x) for x in sg.ins_code] != [INS[atoms[u][2]] for u in us] for sg, us in zip(got, uids)):
                bad(f"{nm}_iter/annotation-strings", "annotation strings of an iterated segment differ from the array's")
        # malformed indices FIRST: must be rejected, never answered, and must leave array and argument untouched
        # (hardening class 2); the valid calls below then run on the same objects
        if case.get("bad_idx") is not None:
            ba = _idx_arg(case["bad_idx"])
            for fname, f in ((f"get_{nm}_masks", f_masks), (f"get_{nm}_starts_for", f_sfor), (f"get_{nm}_positions", f_pos)):
                try:
                    r = f(arr, ba)
                    bad(f"{fname}/accepts-invalid-index", f"{fname}({case['bad_idx']}) on {n} atoms returned {np.asarray(r).tolist()!r:.80}")
                except ValueError:
                    pass            # the documented refusal (C17_index_rejection); any other class is a finding
                except Exception as e:  # noqa: BLE001
                    bad(f"{fname}/invalid-index-{type(e).__name__}", f"{fname}({case['bad_idx']}) raised {type(e).__name__}")
                if list(ba) != list(case["bad_idx"]):
                    bad(f"{fname}/refused-call-changed-argument", f"index array is now {list(ba)}")
            if case.get("bad_spread") is not None:
                bs = np.array(case["bad_spread"], dtype=int)
                nseg = len(exp_starts)
                try:
                    r = f_spread(arr, bs)
                    # C17_spread_rejects: refused unless the length is right or there is exactly one segment
                    if nseg != 1 and nseg != len(bs):
                        bad(f"spread_{nm}_wise/accepts-wrong-length", f"{len(bs)} values for {nseg} segments returned {np.asarray(r).tolist()!r:.60}")
                except ValueError:
                    if nseg == len(bs) or nseg == 1:
                        bad(f"spread_{nm}_wise/refuses-valid-input", f"{len(bs)} values for {nseg} segments: ValueError")
                except Exception as e:  # noqa: BLE001
                    bad(f"spread_{nm}_wise/wrong-length-{type(e).__name__}", f"{len(bs)} values for {nseg} segments")
                if bs.tolist() != list(case["bad_spread"]):
                    bad(f"spread_{nm}_wise/refused-call-changed-argument", f"input is now {bs.tolist()}")
        # index views
        idx = case["idx"]
        if True:
            ia = np.array(idx, dtype=int)
            ok, got = call(f"get_{nm}_masks", f_masks, arr, ia)
            if ok:
                exp = [[seg_of[k] == seg_of[i] for k in range(n)] for i in idx]
                if got.shape != (len(idx), n) or [[bool(b) for b in r] for r in got] != exp:
                    bad(f"get_{nm}_masks/value", f"masks for {idx} differ from per-atom recomputation")
            ok, got = call(f"get_{nm}_starts_for", f_sfor, arr, ia)
            if ok and [int(x) for x in got] != [exp_starts[seg_of[i]] for i in idx]:
                bad(f"get_{nm}_starts_for/value", f"starts_for({idx}) = {list(map(int, got))}")
            ok, got = call(f"get_{nm}_positions", f_pos, arr, ia)
            if ok and [int(x) for x in got] != [seg_of[i] for i in idx]:
                bad(f"get_{nm}_positions/value", f"positions({idx}) = {list(map(int, got))}")
        # apply: one value per segment, equal to the function on that segment's atoms; spread puts it back on atoms
        fn = _pyfn(case["fn"])
        ok, got = call(f"apply_{nm}_wise", f_apply, arr, data, fn)
        if ok:
            exp = [np.asarray(fn(data[m])).tolist() for m in members]
            if got is None:
                bad(f"apply_{nm}_wise/returns-None", f"apply_{nm}_wise returned None instead of {len(members)} values")
            elif np.asarray(got).tolist() != exp:
                bad(f"apply_{nm}_wise/value", f"apply({case['fn']}) = {np.asarray(got).tolist()} != {exp}")
            else:
                ok2, sp = call(f"spread_{nm}_wise", f_spread, arr, got)
                if ok2 and np.asarray(sp).tolist() != [exp[seg_of[i]] for i in range(n)]:
                    bad(f"spread_{nm}_wise/spread-apply", "spread(apply(f))[i] != f(segment of i)")
        # reducing functions whose result dtype differs from the data dtype (int -> float mean, bool -> int sum,
        # predicates -> bool, array-valued results): value AND dtype kind of a direct per-segment recomputation
        for x in case.get("applyx") or []:
            xd = _xdata(x, n)
            ok, got = call(f"apply_{nm}_wise", _xapply, f_apply, arr, xd, x["fn"])
            if not ok:
                continue
            exp = [np.asarray(_xdirect(x["fn"], xd[m])) for m in members]
            what = f"apply({x['fn']}) on {x['kind']}-data shape {xd.shape}"
            if got is None:
                bad(f"apply_{nm}_wise/returns-None", f"{what} returned None")
                continue
            got = np.asarray(got)
            if not members:
                if len(got) != 0:
                    bad(f"apply_{nm}_wise/value", f"{what}: {got.tolist()} for no segment")
                continue
            expa = np.stack(exp)
            if got.shape != expa.shape or not np.allclose(got.astype(float), expa.astype(float), rtol=0, atol=1e-9):
                bad(f"apply_{nm}_wise/result-differs-from-per-segment-value",
                    f"{what} = {got.tolist()} != per-segment recomputation {expa.tolist()}")
            elif _kind(got) != _kind(expa):
                bad(f"apply_{nm}_wise/result-dtype", f"{what}: dtype kind {_kind(got)} != {_kind(expa)} of the function's result")
            else:
                ok2, sp = call(f"spread_{nm}_wise", f_spread, arr, got)
                if ok2 and (np.asarray(sp).shape[0] != n or not np.allclose(
                        np.asarray(sp).astype(float), np.stack([expa[seg_of[i]] for i in range(n)]).astype(float), rtol=0, atol=1e-9)):
                    bad(f"spread_{nm}_wise/spread-apply", f"{what}: spread(apply(f))[i] != f(segment of i)")
        spi = np.array(case["spread"][w], dtype=int)
        ok, sp = call(f"spread_{nm}_wise", f_spread, arr, spi)
        if ok and [int(x) for x in sp] != [case["spread"][w][seg_of[i]] for i in range(n)]:
            bad(f"spread_{nm}_wise/value", f"spread = {list(map(int, sp))}")
        if v:
            continue        # the basic views already differ from the per-atom recomputation: report those, not follow-ups
        # ---- hardening class 3: the same indices / data in another spelling give the same answers
        exp_masks = [[seg_of[k] == seg_of[i] for k in range(n)] for i in idx]
        for sp_name in case.get("spell") or []:
            si = _spell_idx(sp_name, idx)
            if si is None:
                continue
            for fname, f, expv in ((f"get_{nm}_masks", f_masks, exp_masks),
                                   (f"get_{nm}_starts_for", f_sfor, [exp_starts[seg_of[i]] for i in idx]),
                                   (f"get_{nm}_positions", f_pos, [seg_of[i] for i in idx])):
                ok, got = call(f"{fname}[indices as {sp_name}]", f, arr, si)
                if ok and (np.asarray(got).tolist() != expv and not (len(idx) == 0 and np.asarray(got).size == 0)):
                    bad(f"{fname}/index-spelling", f"{fname}({idx} as {sp_name}) = {np.asarray(got).tolist()!r:.100}")
            if sp_name in ("list", "tuple"):
                ok, sp2 = call(f"spread_{nm}_wise[input as {sp_name}]", f_spread, arr,
                               list(case["spread"][w]) if sp_name == "list" else tuple(case["spread"][w]))
                if ok and [int(x) for x in sp2] != [case["spread"][w][seg_of[i]] for i in range(n)]:
                    bad(f"spread_{nm}_wise/input-spelling", f"spread({sp_name}) = {list(map(int, sp2))}")
        for ds_name in case.get("dspell") or []:
            d2 = _spell_data(ds_name, case["data"])
            ok, got = call(f"apply_{nm}_wise[data {ds_name}]", f_apply, arr, d2, fn)
            exp = [np.asarray(fn(np.array(case["data"])[m])).tolist() for m in members]
            if ok and got is not None and (np.asarray(got).size != np.asarray(exp, dtype=float).size or
                                           np.asarray(got).astype(float).reshape(-1).tolist() != np.asarray(exp, dtype=float).reshape(-1).tolist()):
                bad(f"apply_{nm}_wise/data-spelling", f"apply({case['fn']}) on {ds_name} data = {np.asarray(got).tolist()} != {exp}")
            for x in case.get("applyx") or []:
                xd = _xdata(x, n)
                x2 = _spell_data(ds_name, xd)
                ok, got = call(f"apply_{nm}_wise[data {ds_name}]", _xapply, f_apply, arr, x2, x["fn"])
                if ok and got is not None and members:
                    expa = np.stack([np.asarray(_xdirect(x["fn"], xd[m])) for m in members]).astype(float)
                    g = np.asarray(got).astype(float)
                    if g.shape != expa.shape or not np.allclose(g, expa, rtol=0, atol=1e-4):
                        bad(f"apply_{nm}_wise/data-spelling", f"apply({x['fn']}) on {ds_name} {x['kind']}-data {xd.shape} = {g.tolist()} != {expa.tolist()}")
        # ---- hardening classes 4/7: the segment-level public functions, called directly with the starts array
        ok, st = call(f"get_{nm}_starts-stop", f_starts, arr, True)          # positional flag
        if ok and [int(x) for x in st] == exp_starts + [n]:
            for st_name, st2 in (("int64", st), ("int32", st.astype(np.int32))):
                okm, m2 = call("get_segment_masks", seglib.get_segment_masks, st2, ia)
                if okm and (m2.shape != (len(idx), n) or m2.tolist() != exp_masks) and len(idx):
                    bad("get_segment_masks/value", f"starts {st_name}: masks for {idx} differ from per-atom recomputation")
                oks, s2 = call("get_segment_starts_for", seglib.get_segment_starts_for, st2, ia)
                if oks and [int(x) for x in s2] != [exp_starts[seg_of[i]] for i in idx]:
                    bad("get_segment_starts_for/value", f"starts {st_name}: {list(map(int, s2))}")
                okp, p2 = call("get_segment_positions", seglib.get_segment_positions, st2, ia)
                if okp and [int(x) for x in p2] != [seg_of[i] for i in idx]:
                    bad("get_segment_positions/value", f"starts {st_name}: {list(map(int, p2))}")
                oka, a2 = call("apply_segment_wise", seglib.apply_segment_wise, st2, data, fn)
                if oka and a2 is not None and np.asarray(a2).tolist() != [np.asarray(fn(data[m])).tolist() for m in members]:
                    bad("apply_segment_wise/value", f"starts {st_name}: apply({case['fn']}) = {np.asarray(a2).tolist()}")
                for x in case.get("applyx") or []:
                    f0, ax = _xfn(x["fn"])
                    if ax is None:
                        continue
                    xd = _xdata(x, n)
                    oka, a3 = call("apply_segment_wise[axis positional]", seglib.apply_segment_wise, st2, xd, f0, ax)
                    if oka and members and not np.allclose(np.asarray(a3).astype(float),
                                                           np.stack([np.asarray(f0(xd[m], axis=ax)) for m in members]).astype(float)):
                        bad("apply_segment_wise/axis", f"apply({x['fn']}) with axis={ax} given positionally differs")
                okq, q2 = call("spread_segment_wise", seglib.spread_segment_wise, st2, spi)
                if okq and [int(x) for x in q2] != [case["spread"][w][seg_of[i]] for i in range(n)]:
                    bad("spread_segment_wise/value", f"starts {st_name}: {list(map(int, q2))}")
                oki, it2 = call("segment_iter", lambda: [[int(u) for u in s.uid] for s in seglib.segment_iter(arr, st2)])
                if oki and it2 != members:
                    bad("segment_iter/segments", f"starts {st_name}: {it2} != {members}")
                if st2.tolist() != exp_starts + [n]:
                    bad("segments/starts-argument-mutated", f"starts is now {st2.tolist()}")
        # ---- hardening class 2: no call changed its arguments or the array
        if ia.tolist() != list(idx) or data.tolist() != list(case["data"]) or spi.tolist() != list(case["spread"][w]):
            bad(f"{nm}/argument-mutated", "an index / data / input array was changed by a call")
        if ([str(x) for x in arr.chain_id] != [CHAINS[a[0]] for a in atoms] or [int(x) for x in arr.res_id] != [a[1] for a in atoms]
                or [str(x) for x in arr.ins_code] != [INS[a[2]] for a in atoms] or [str(x) for x in arr.res_name] != [NAMES[a[3]] for a in atoms]
                or [int(x) for x in arr.uid] != list(range(n))):
            bad(f"{nm}/array-mutated", "the annotations of the atom array were changed by a query")
    return v


class _UF:
    def __init__(self, n):
        self.p = list(range(n))

    def find(self, x):
        p = self.p
        while p[x] != x:
            p[x] = p[p[x]]
            x = p[x]
        return x

    def union(self, a, b):
        ra, rb = self.find(a), self.find(b)
        if ra != rb:
            self.p[max(ra, rb)] = min(ra, rb)


def _components(n, bonds):
    uf = _UF(n)
    for b in bonds:
        uf.union(int(b[0]), int(b[1]))
    comp = {}
    for v in range(n):
        comp.setdefault(uf.find(v), []).append(v)
    return sorted(comp.values())


def _graph_oracle_child(case):
    import numpy as np
    import biotite.structure as struc
    n, bonds = case["n"], case["bonds"]
    v = []
    exp = _components(n, bonds)
    comp_of = {}
    for c in exp:
        for x in c:
            comp_of[x] = c
    bl = struc.BondList(n, _bond_array(bonds))
    got = [[int(x) for x in m] for m in struc.get_molecule_indices(bl)]
    if sorted(got) != exp:
        v.append(("C17/get_molecule_indices/components", f"n={n} bonds={bonds}: {got} != connected components {exp}"))
    elif any(m != sorted(m) for m in got):
        v.append(("C17/get_molecule_indices/order", f"indices not ascending: {got}"))
    masks = struc.get_molecule_masks(bl)
    if masks.shape != (len(exp), n) or sorted([i for i in range(n) if r[i]] for r in masks) != exp:
        v.append(("C17/get_molecule_masks/components", f"n={n} bonds={bonds}: masks differ from connected components"))
    arr = struc.AtomArray(n)
    arr.set_annotation("uid", np.arange(n, dtype=int))
    arr.bonds = bl
    got_a = sorted([int(x) for x in m] for m in struc.get_molecule_indices(arr))
    if got_a != exp:
        v.append(("C17/get_molecule_indices/components", f"n={n} bonds={bonds} (AtomArray): {got_a} != connected components {exp}"))
    mols = sorted([int(u) for u in m.uid] for m in struc.molecule_iter(arr))
    if mols != exp:
        v.append(("C17/molecule_iter/components", f"n={n} bonds={bonds}: {mols} != {exp}"))
    for r in case["roots"]:
        c = [int(x) for x in struc.find_connected(bl, r)]
        if c != comp_of[r]:
            v.append(("C17/find_connected/component", f"n={n} bonds={bonds} root={r}: {c} != {comp_of[r]}"))
        cm = np.asarray(struc.find_connected(bl, r, as_mask=True)).astype(bool)
        if [i for i in range(n) if cm[i]] != comp_of[r]:
            v.append(("C17/find_connected/mask", f"n={n} bonds={bonds} root={r}: mask differs"))
    for r in case.get("bad_roots", []):
        want = OverflowError if (r < 0 or r >= 2 ** 32) else ValueError      # C17_connected_rejects
        try:
            c = struc.find_connected(bl, r)
            v.append(("C17/find_connected/accepts-invalid-root", f"n={n} root={r} returned {list(map(int, c))[:10]}"))
        except want:
            pass
        except Exception as e:  # noqa: BLE001
            v.append((f"C17/find_connected/invalid-root-{type(e).__name__}", f"n={n} root={r}: expected {want.__name__}"))

    # ---- hardening class 2: queries and refused calls leave the BondList as it was
    snap = bl.as_array().tolist()
    # ---- hardening class 3: the same root / the same bond table in another spelling
    for r in case["roots"][:2]:
        for name, rr in (("np.int64", np.int64(r)), ("np.int32", np.int32(r)), ("np.uint8", np.uint8(r % 256)),
                         ("np.uint64", np.uint64(r)), ("np.intp", np.intp(r))):
            if int(rr) != r:
                continue
            try:
                c = [int(x) for x in struc.find_connected(bl, rr)]
            except Exception as e:  # noqa: BLE001
                v.append(("C17/find_connected/root-spelling", f"n={n} bonds={bonds} root={name}({r}): {type(e).__name__}"))
                continue
            if c != comp_of[r]:
                v.append(("C17/find_connected/root-spelling", f"n={n} bonds={bonds} root={name}({r}): {c} != {comp_of[r]}"))
    for r in case.get("bad_roots", []):
        if -2 ** 63 <= r < 2 ** 63:
            try:
                c = struc.find_connected(bl, np.int64(r))
                v.append(("C17/find_connected/accepts-invalid-root", f"n={n} root=np.int64({r}) returned {list(map(int, c))[:10]}"))
            except (OverflowError if (r < 0 or r >= 2 ** 32) else ValueError):
                pass
            except Exception as e:  # noqa: BLE001
                v.append((f"C17/find_connected/invalid-root-{type(e).__name__}", f"n={n} root=np.int64({r})"))
    if bl.as_array().tolist() != snap:
        v.append(("C17/find_connected/bond-list-mutated", f"n={n} bonds={bonds}: BondList changed by queries / refused calls"))
    if bonds:
        ba = _bond_array(bonds)
        for name, b2 in (("uint32", ba.astype(np.uint32)), ("int32", ba.astype(np.int32)), ("fortran", np.asfortranarray(ba)),
                         ("strided", np.concatenate([ba, ba], axis=1)[:, :3]), ("two-column", ba[:, :2].copy()),
                         ("negative-indices", ba - np.array([n, 0, 0]) * (np.arange(len(ba)) % 2 == 0).reshape(-1, 1)),
                         ("all-negative-indices", ba - np.array([n, n, 0]))):
            try:
                g = sorted([int(x) for x in m] for m in struc.get_molecule_indices(struc.BondList(n, b2)))
            except Exception as e:  # noqa: BLE001
                v.append(("C17/get_molecule_indices/bond-array-spelling", f"n={n} bonds={bonds} as {name}: {type(e).__name__}: {e}"))
                continue
            if g != exp:
                v.append(("C17/get_molecule_indices/bond-array-spelling", f"n={n} bonds={bonds} as {name}: {g} != {exp}"))
    # audit 6: WF hypothesis of C17_connected - a bond index >= n must be refused when the table is built
    for badb in ([[0, n, 1]], [[n, 0, 1]], [[n + 3, n + 3, 0]]):
        try:
            struc.BondList(n, np.array(badb, dtype=np.int64))
            v.append(("C17/bond-table/out-of-range-index-accepted", f"BondList({n}, {badb}) was accepted"))
        except (IndexError, ValueError):
            pass
    # ---- hardening classes 4/7: every entry level (BondList / AtomArray / AtomArrayStack) of every function
    depth = 1 + (n + len(bonds)) % 3
    stk = struc.AtomArrayStack(depth, n)
    stk.set_annotation("uid", np.arange(n, dtype=int))
    stk.bonds = bl
    for name, obj in (("AtomArray", arr), ("AtomArrayStack", stk)):
        try:
            g = sorted([int(x) for x in m] for m in struc.get_molecule_indices(obj))
            mk = struc.get_molecule_masks(obj)
            gm = sorted([i for i in range(n) if r[i]] for r in mk)
            gi = sorted([int(u) for u in m.uid] for m in struc.molecule_iter(obj))
            shapes_ok = all(type(m) is type(obj) for m in struc.molecule_iter(obj))
        except Exception as e:  # noqa: BLE001
            v.append((f"C17/molecules/{name}-{type(e).__name__}", f"n={n} bonds={bonds}: {e}"))
            continue
        if g != exp or gm != exp or mk.shape != (len(exp), n) or gi != exp or not shapes_ok:
            v.append((f"C17/molecules/entry-level-{name}", f"n={n} bonds={bonds}: indices {g} masks {gm} iter {gi} != {exp}"))
    # error paths: no BondList -> ValueError, wrong type -> TypeError; nothing is answered
    nob = struc.AtomArray(n)
    for fname, f in (("get_molecule_indices", struc.get_molecule_indices), ("get_molecule_masks", struc.get_molecule_masks),
                     ("molecule_iter", lambda x: list(struc.molecule_iter(x)))):
        try:
            f(nob)
            v.append((f"C17/{fname}/answers-without-bonds", f"n={n}: no BondList, but a result was returned"))
        except ValueError:
            pass
        except Exception as e:  # noqa: BLE001
            v.append((f"C17/{fname}/without-bonds-{type(e).__name__}", f"n={n}: {e}"))
    for fname, f in (("get_molecule_indices", struc.get_molecule_indices), ("get_molecule_masks", struc.get_molecule_masks)):
        try:
            f(_bond_array(bonds))
            v.append((f"C17/{fname}/answers-for-wrong-type", "an ndarray was accepted"))
        except TypeError:
            pass
        except Exception as e:  # noqa: BLE001
            v.append((f"C17/{fname}/wrong-type-{type(e).__name__}", f"{e}"))
    # the refused calls changed nothing: same answer as at the start
    if sorted([int(x) for x in m] for m in struc.get_molecule_indices(bl)) != exp:
        v.append(("C17/get_molecule_indices/changed-after-refused-calls", f"n={n} bonds={bonds}"))

    def recheck(tag, blist, cur, what):
        """the molecules of `blist` must be the components of the bonds it holds NOW, whatever was asked before"""
        e = _components(n, cur)
        g = sorted([int(x) for x in m] for m in struc.get_molecule_indices(blist))
        if g != e:
            v.append((f"C17/get_molecule_indices/{tag}", f"n={n} {what}: {g} != connected components {e}"))
        mk = struc.get_molecule_masks(blist)
        if mk.shape != (len(e), n) or sorted([i for i in range(n) if r[i]] for r in mk) != e:
            v.append((f"C17/get_molecule_masks/{tag}", f"n={n} {what}: masks differ from connected components {e}"))
        cof = {x: c for c in e for x in c}
        for r in case["roots"][:2]:
            c = [int(x) for x in struc.find_connected(blist, r)]
            if c != cof[r]:
                v.append((f"C17/find_connected/{tag}", f"n={n} {what} root={r}: {c} != {cof[r]}"))
        a2 = struc.AtomArray(n)
        a2.set_annotation("uid", np.arange(n, dtype=int))
        a2.bonds = blist
        mi = sorted([int(u) for u in m.uid] for m in struc.molecule_iter(a2))
        if mi != e:
            v.append((f"C17/molecule_iter/{tag}", f"n={n} {what}: {mi} != {e}"))

    edits = case.get("edits") or []
    for k, (ed, cur) in enumerate(zip(edits, _apply_edits(bonds, edits))):
        bl.remove_bond(ed[0], ed[1])
        bl.add_bond(ed[2], ed[3], ed[4])
        recheck("components-after-in-place-edit", bl, cur,
                f"bonds={bonds} after in-place edits {edits[:k + 1]} (bond count unchanged)")
    if case.get("second"):
        arr.bonds = None
        del bl
        bl2 = struc.BondList(n, _bond_array(case["second"]))
        recheck("components-second-bondlist", bl2, case["second"],
                f"second BondList {case['second']} built after one of the same size (first: {bonds}, edits {edits})")
    return v


def _big_bonds(shape, n):
    import numpy as np
    i = np.arange(n - 1)
    if shape == "chain":
        b = np.stack([i, i + 1], axis=1)
    elif shape == "revchain":
        b = np.stack([i + 1, i], axis=1)[::-1]
    elif shape == "ring":
        b = np.concatenate([np.stack([i, i + 1], axis=1), [[n - 1, 0]]])
    elif shape == "stars":           # hubs with 6 leaves each (the bond table is dense: n x max degree)
        leaf = np.arange(n)
        leaf = leaf[leaf % 7 != 0]
        b = np.stack([leaf - leaf % 7, leaf], axis=1)
    elif shape == "forest":          # many molecules of 3 atoms + isolated atoms
        k = np.arange(0, n - 3, 4)
        b = np.concatenate([np.stack([k, k + 1], axis=1), np.stack([k + 1, k + 2], axis=1)])
    elif shape == "comb":            # backbone of n/2 atoms, one side atom each
        h = n // 2
        j = np.arange(h - 1)
        b = np.concatenate([np.stack([j, j + 1], axis=1), np.stack([np.arange(h), np.arange(h) + h], axis=1)])
    else:
        raise ValueError(shape)
    return b


def _big_depth(shape, n):
    return {"chain": n, "revchain": n, "ring": n, "stars": 2, "forest": 3, "comb": n // 2 + 1}[shape]


def _big_child(case):
    import numpy as np
    import biotite.structure as struc
    n = case["n"]
    b = _big_bonds(case["shape"], n)
    exp = _components(n, b.tolist())
    types = (np.arange(len(b)) % N_BOND_TYPES).reshape(-1, 1)        # every bond type occurs
    bl = struc.BondList(n, np.concatenate([b, types], axis=1))
    got = struc.get_molecule_indices(bl)
    if sorted([int(m[0]), len(m)] for m in got) != sorted([c[0], len(c)] for c in exp):
        return "components differ"
    if sum(len(m) for m in got) != n or any((np.diff(m) <= 0).any() for m in got):
        return "not a partition in ascending order"
    lab = np.full(n, -1)
    for k, m in enumerate(got):
        lab[m] = k
    lab_e = np.full(n, -1)
    for k, c in enumerate(sorted(exp)):
        lab_e[c] = k
    order = {}
    for a, e in zip(lab.tolist(), lab_e.tolist()):
        if order.setdefault(a, e) != e:
            return "atoms grouped differently from the connected components"
    return None


def _big_oracle(case):
    from common import sandbox
    what = f"{case['shape']} of {case['n']} atoms"
    if _TIMEOUTS["n"] >= 3 or _TIMEOUTS.get("big", 0) >= 1:
        return []              # the code under test hangs; already reported
    r = sandbox.run_forked(_big_child, case, timeout=240)
    if r[0] == "timeout":
        _TIMEOUTS["big"] = _TIMEOUTS.get("big", 0) + 1
    if r[0] == "crash":
        if _big_depth(case["shape"], case["n"]) >= 40000:
            return [(KEY_CRASH_DEEP, f"get_molecule_indices on a {what}: child died with signal {r[1]}")]
        return [("C17/get_molecule_indices/crash", f"get_molecule_indices on a {what}: child died with signal {r[1]}")]
    if r[0] == "timeout":
        return [("C17/get_molecule_indices/timeout", f"{what}: no result within 240 s")]
    if r[0] == "err":
        if r[1] == "RecursionError" and _big_depth(case["shape"], case["n"]) >= 40000:
            return [(KEY_CRASH_DEEP, f"{what}: RecursionError")]
        return [(f"C17/get_molecule_indices/{r[1]}", f"{what}: {r[1]}: {r[2]}")]
    if r[1]:
        return [("C17/get_molecule_indices/components-large", f"{what}: {r[1]}")]
    return []


def oracle(case):
    if case["kind"] == "seg":
        return _seg_oracle(case)
    if case["kind"] == "graph":
        from common import sandbox
        if _TIMEOUTS["n"] >= 6:
            return []          # already reported; do not wait for every remaining case
        r = sandbox.run_forked(_graph_oracle_child, case, timeout=10)
        if r[0] == "timeout":
            _TIMEOUTS["n"] += 1
        if r[0] == "ok":
            return r[1]
        if r[0] == "crash":
            return [("C17/molecules/crash-small-graph", f"n={case['n']} bonds={case['bonds']}: child died with signal {r[1]}")]
        if r[0] == "timeout":
            return [("C17/molecules/timeout", f"n={case['n']} bonds={case['bonds']}")]
        return [(f"C17/molecules/{r[1]}", f"n={case['n']} bonds={case['bonds']}: {r[1]}: {r[2]}")]
    if case["kind"] == "biggraph":
        return _big_oracle(case)
    if case["kind"] == "bigseg":
        return _bigseg_oracle(case)
    return []


# ---------------------------------------------------------------- bookkeeping
def nontrivial(case, impl_out):
    if case["kind"] == "seg":
        return len(case["atoms"]) >= 2 and _n_segments(case["atoms"], "r") >= 2
    if case["kind"] == "graph":
        return len(case["bonds"]) >= 1
    return True


def signature(case):
    if case["kind"] == "seg":
        return "seg|" + "|".join(case["ops"][:1]) + f"|{case['idx']}|{case['bad_idx']}|{case['fn']}|{case['data']}|{case.get('applyx')}"
    if case["kind"] == "graph":
        return "graph|" + "|".join(case["ops"])
    return f"big|{case.get('shape', 'seg')}|{case['n']}|{case.get('seed')}"


def distribution(cases, impl_outs):
    sizes, outcomes, nseg = {}, {}, {}
    for c, o in zip(cases, impl_outs):
        if c["kind"] == "seg":
            n = len(c["atoms"])
            b = "0" if n == 0 else "1" if n == 1 else "2-5" if n <= 5 else "6-15" if n <= 15 else "16+"
            sizes["atoms:" + b] = sizes.get("atoms:" + b, 0) + 1
            k = _n_segments(c["atoms"], "r")
            nseg[str(min(k, 10))] = nseg.get(str(min(k, 10)), 0) + 1
        elif c["kind"] == "graph":
            k = len(_components(c["n"], c["bonds"]))
            b = "0" if k == 0 else "1" if k == 1 else "2-4" if k <= 4 else "5+"
            sizes["molecules:" + b] = sizes.get("molecules:" + b, 0) + 1
        for line in o or []:
            t = line.split(" ")[0]
            outcomes[t] = outcomes.get(t, 0) + 1
    return {"sizes": sizes, "outcomes": outcomes, "residues_per_case": nseg}


def search(rng, problems, tier):
    """Failing-input search: a fresh stream of the structured generators (oracle only), biased to small arrays."""
    n = 1500 if tier == "quick" else 8000
    for _ in range(n):
        yield _seg_case(rng)
    for _ in range(n // 2):
        yield _gen_graph(rng)


def shrink(case, key):
    from common import util
    if case["kind"] == "seg":
        def fails(atoms):
            n = len(atoms)
            c = dict(case, atoms=atoms, idx=[i for i in case["idx"] if i < n], data=case["data"][:n],
                     spread={w: list(range(_n_segments(atoms, w))) for w in "rc"}, bad_spread=None,
                     applyx=[dict(x, data=x["data"][:n * max(x["cols"], 1)]) for x in case.get("applyx") or []])
            try:
                return any(k == key for k, _ in _seg_oracle(c))
            except Exception:  # noqa: BLE001
                return False
        atoms = util.shrink_list(case["atoms"], fails, max_steps=150)
        n = len(atoms)
        c = dict(case, atoms=atoms, idx=[i for i in case["idx"] if i < n], data=case["data"][:n],
                 spread={w: list(range(_n_segments(atoms, w))) for w in "rc"}, bad_spread=None,
                 applyx=[dict(x, data=x["data"][:n * max(x["cols"], 1)]) for x in case.get("applyx") or []])
        if not any(k == key for k, _ in _seg_oracle(c)):
            return case
        c["ops"] = _seg_ops(c)
        return c
    if case["kind"] == "graph":
        def fails(bonds):
            c = dict(case, bonds=bonds)
            return any(k == key for k, _ in oracle(c))
        bonds = util.shrink_list(case["bonds"], fails, max_steps=60)
        c = dict(case, bonds=bonds)
        c["ops"] = _graph_ops(c)
        return c
    return case

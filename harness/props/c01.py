"""C01 — Atom arrays and stacks stay coherent under any sequence of operations.

Protocol (one op per line, registers r0..r3 hold an AtomArray 'A', an AtomArrayStack 'S', an Atom 'T' or nothing):
  new D A|S n COLS COORD BOX BONDS     atom D COLS ctok        get D S IDX        get2 D S IDX0 IDX1
  set S IDX V      del S IDX      concat D S1,S2,..   stack D S1,S2,..   array D S1,S2,..
  repeat D S k TOKS     tmpl D S COORD BOX     addann S name     setann S name TOKS     delann S name
  setcoord S COORD   setbox S BOX   setbonds S BONDS   copy D S   eq S1 S2
Encodings: TOKS `1,2,3` / `_` (empty);  COLS `name=TOKS;name=TOKS` / `-`;  COORD model blocks joined by `/`, `-` = no
model;  BOX `-` (None) or TOKS (one token per model);  BONDS `-` (None), `_` (empty) or `i:j:t,...`;
IDX `i-2` int, `s1:N:-1` slice, `m0110` bool ndarray, `n0110` non-contiguous bool ndarray view, `b0110` python
list of bools, `a1,-2` int64 ndarray, `u1,2` uint32 ndarray, `l1,2` python list, `e` Ellipsis.
Values the code only moves are opaque integer tokens (annotation value, coordinate vector, box matrix).
Output: `ok <canonical value>` or `ERR:<ExceptionClass>`; `set` prints every register (aliasing shows up).
"""
import os
import re

PROP = "C01"
PROPS_MODULE = "BiotiteModel.Props.C01"
DRIVER_MODULE = "BiotiteModel.Driver.C01"
EXT_MODULES = ["biotite.structure.bonds"]
GEN_FILES = ["BiotiteModel/Gen/C01.lean", "BiotiteModel/Gen/C01Skel.lean"]
RULE = ("[+ 60 oracle-only API probes per quick run: len/shape/iteration/attribute access/`+`/equal_annotations(equal_nan)/"
        "Atom ==,copy/str/coord()/fresh constructors against the list-of-atoms reference] seeded operation histories (1-25 ops) over up to 4 registers holding atom arrays / stacks / atoms of 0-9 "
        "atoms, depth 0-4, with/without box, bonds and extra annotations (int/float/str/bool); indices drawn from the "
        "string annotations of varying width (1-8 chars, so array()/setitem/concatenate/stack meet narrower dtypes), whole acceptance range of one numpy axis (-n-2..n+1, slices with negative/zero/oversized step and bounds, "
        "masks of right and wrong length, contiguous and strided, sorted/unsorted/duplicate/empty index arrays, int64 "
        "and uint32, python lists, Ellipsis, 2-D stack indices); every op is compared with the Lean model and with a "
        "pure-Python list-of-atom-objects reference. non-trivial = history has >= 3 ops and touches a container "
        "with >= 2 atoms; distinct = different op text")
TRUSTED = ["numpy basic/advanced indexing of one axis is the reference for `resolve` (np.arange(n)[ix])",
           "values the containers only move (annotation values, coordinates, boxes) are opaque tokens",
           "BondList internals beyond index relabelling/offsetting are property C02"]
ASSUMPTIONS = ["dtypes are observed, not modelled: code prints coord/box dtype and the kind of every annotation column, model "
               "and reference print the constants (float32; kind by category); inputs are float32/float64/int64",
               "string annotation values are rendered as words of 1-8 characters (injective token<->string map; a truncated "
               "word decodes to no token), other values as numbers; the Lean model moves opaque tokens and therefore never "
               "truncates: any truncation by the code is a disagreement and an oracle violation",
               "numpy view aliasing between a container and its slices is not modelled: the generator copies a register "
               "before assigning into it in place when it may share memory with another register",
               "numeric dtype promotion (int -> float) in set_annotation is not exercised"]
LEVEL_TEXT = ("proof: index resolution equals numpy's list semantics (C01_resolve_sound); every container is well formed "
              "after every operation and history (C01_wf_*); bonds keep connecting the same atoms under any duplicate-free "
              "selection and concatenation offsets (C01_bonds_*); refinement of the column store to the list-of-atoms "
              "reference model Spec, results and errors, for EVERY operation of the protocol: getitem (all index kinds, "
              "1-D and 2-D), setitem (atom and model), deletion, concatenate, stack, repeat, from_template, array, "
              "annotation edits, setters, copy and the == observation (C01_refines_*), combined in C01_refines (one step, "
              "any well-formed state) and C01_refines_history (all histories); refusals happen exactly where the contract says "
              "(C01_dup_index_rejects, C01_setitem_missing_category_rejects, C01_box_depth_rejects, "
              "C01_setmodel_boxless_rejects, C01_resolve_int_rejects). Not proved, tied by correspondence and the "
              "independent list-of-atom-objects oracle: that the Lean model is the code (op-by-op differential check), "
              "string-width handling of numpy (values compared as strings of varying width), memory aliasing of copies")
LEVEL_NOTE = "numpy indexing trusted as oracle for resolve; aliasing (views) excluded; tokens opaque"
TECHNIQUE = "Lean 4 proof (invariant + data refinement column store -> list of atoms, op by op) + correspondence"

MAND = ["chain_id", "res_id", "ins_code", "res_name", "hetero", "atom_name", "element"]
MAND_T = {"chain_id": "s", "res_id": "i", "ins_code": "s", "res_name": "s", "hetero": "b", "atom_name": "s", "element": "s"}
REGS = ["r0", "r1", "r2", "r3"]


def kind_of(name):
    return MAND_T.get(name) or name[0]


# ------------------------------------------------------------------ encodings
def toks(xs):
    xs = list(xs)
    return ",".join(str(x) for x in xs) if xs else "_"


def untoks(s):
    return [] if s == "_" else [int(x) for x in s.split(",")]


def enc_cols(cols):
    return ";".join(f"{k}={toks(v)}" for k, v in cols) if cols else "-"


def dec_cols(s):
    if s == "-":
        return []
    out = []
    for part in s.split(";"):
        k, v = part.split("=")
        out.append((k, untoks(v)))
    return out


def enc_coord(blocks):
    return "/".join(toks(b) for b in blocks) if blocks else "-"


def dec_coord(s):
    return [] if s == "-" else [untoks(b) for b in s.split("/")]


def enc_box(b):
    return "-" if b is None else toks(b)


def dec_box(s):
    return None if s == "-" else untoks(s)


def enc_bonds(b):
    if b is None:
        return "-"
    return ",".join(f"{i}:{j}:{t}" for i, j, t in sorted(b)) if b else "_"


def dec_bonds(s):
    if s == "-":
        return None
    if s == "_":
        return []
    return [tuple(int(x) for x in p.split(":")) for p in s.split(",")]


def dec_idx(s):
    """-> (kind, payload)"""
    k, r = s[0], s[1:]
    if k == "i":
        return ("int", int(r))
    if k == "s":
        a, b, c = r.split(":")
        f = lambda x: None if x == "N" else int(x)  # noqa: E731
        return ("slice", (f(a), f(b), f(c)))
    if k in "mnbr":
        return ({"m": "mask", "n": "nmask", "b": "blist", "r": "rmask"}[k], [c == "1" for c in r])
    if k in "aulw":
        return ({"a": "arr", "u": "uarr", "l": "list", "w": "warr"}[k], untoks(r) if r else [])
    if k == "e":
        return ("ell", None)
    raise ValueError("bad index " + s)


def idx_class(s):
    k, p = dec_idx(s)
    if k == "int":
        return "int-neg" if p < 0 else "int"
    if k == "slice":
        return "slice-negstep" if (p[2] or 1) < 0 else "slice"
    if k == "nmask":
        return "mask-noncontig"
    if k == "rmask":
        return "mask-readonly"
    if k == "warr":
        return "arr-byteswapped"
    if k in ("arr", "uarr", "list"):
        return k + ("-neg" if any(x < 0 for x in p) else "")
    return k


def _fits(xs, dt):
    import numpy as np
    ii = np.iinfo(dt)
    return all(ii.min <= x <= ii.max for x in xs)


def np_index(s):
    """The index object for a protocol token.  The *spelling* (python int vs NumPy scalar of some width, dtype of an
    index array, strided / read-only views) is chosen deterministically from the token text: the same value in
    another spelling must behave the same, so the model does not see it."""
    import numpy as np
    k, p = dec_idx(s)
    h = sum(ord(c) for c in s)
    if k == "int":
        types = [None, np.int8, np.int16, np.int32, np.int64] + ([np.uint8, np.uint16, np.uint32, np.uint64] if p >= 0 else [])
        t = types[h % len(types)]
        return p if t is None or not _fits([p], t) else t(p)
    if k == "slice":
        if h % 3 == 0:
            return slice(*p)
        t = (np.int64, np.int16)[h % 2]
        return slice(*[None if x is None else (t(x) if _fits([x], t) else x) for x in p])
    if k == "mask":
        return np.array(p, dtype=bool)
    if k == "rmask":
        m = np.array(p, dtype=bool)
        m.flags.writeable = False
        return m
    if k == "nmask":
        full = np.zeros(2 * len(p), dtype=bool)
        full[::2] = p
        return full[::2]
    if k == "blist":
        return list(p)
    if k in ("arr", "uarr"):
        types = [np.int64, np.int32, np.int16, np.int8] if k == "arr" else [np.uint32, np.uint8, np.uint16, np.uint64]
        t = types[h % 4]
        if not _fits(p, t):
            t = types[0]
        a = np.array(p, dtype=t)
        v = (h // 4) % 3
        if v == 1 and len(p):          # strided view
            full = np.zeros(2 * len(p), dtype=t)
            full[::2] = a
            a = full[::2]
        elif v == 2:                   # read-only
            a.flags.writeable = False
        return a
    if k == "warr":
        return np.array(p, dtype=(">i4", ">i8", ">i2")[h % 3])
    if k == "list":
        return list(p)
    return Ellipsis


# ------------------------------------------------------------------ real-code adapter
def word(t):
    """Injective token -> string map with lengths 1..8: base-25 digits 'b'..'z' of t, padded with 'a' to a length
    that depends on t (so that a truncated value never decodes to a valid token)."""
    if t == 0:
        return ""
    d = ""
    k = t
    while k:
        d = chr(ord("b") + k % 25) + d
        k //= 25
    return d + "a" * max(0, 1 + t % 8 - len(d))


def unword(s):
    """Inverse of `word`; None for a string that is not the image of a token (e.g. a truncated one)."""
    s = str(s)
    if s == "":
        return 0
    core = s.rstrip("a")
    if not core or any(not ("b" <= c <= "z") for c in core):
        return None
    k = 0
    for c in core:
        k = k * 25 + (ord(c) - ord("b"))
    return k if word(k) == s else None


def _val(name, t):
    k = kind_of(name)
    if k == "s":
        return word(t)
    if k == "b":
        return bool(t)
    if k == "f":
        return float("nan") if t == NAN_TOK else float(t)
    if k == "v":
        return [int(t), int(t) + 1]        # an annotation with several values per atom: token t is the row (t, t+1)
    return int(t)


NAN_TOK = 7      # in a float category this token is rendered as NaN (an ordinary, self-equal token for the model:
                 # equal_annotations / == / stack use equal_nan=True)


def _np_col(name, ts):
    import numpy as np
    k = kind_of(name)
    if k == "s":
        # natural width of the values: string annotations of different arrays have different dtypes
        return np.array([_val(name, t) for t in ts], dtype=str) if ts else np.array([], dtype="U1")
    if k == "v":
        return np.array([_val(name, t) for t in ts], dtype=int).reshape(len(ts), 2)      # shape (n, 2)
    if k == "f":
        # float annotations of every width (float16 holds the tokens exactly)
        return np.array([_val(name, t) for t in ts], dtype=(np.float16, np.float32, np.float64)[sum(ts) % 3])
    return np.array([_val(name, t) for t in ts], dtype={"b": bool}.get(k, int))


def _dtype(name):
    import numpy as np
    return {"s": "U1", "b": bool, "f": np.float32}.get(kind_of(name), int)


def _np_coord(blocks, stack, n=0):
    """Coordinates as float32 or float64 input (chosen by the tokens): the container must store float32 either way."""
    import numpy as np
    n = len(blocks[0]) if blocks else n
    dt = np.float64 if sum(sum(b) for b in blocks) % 2 else np.float32
    arr = np.array([[[t, t + 0.5, -t] for t in b] for b in blocks], dtype=dt).reshape(len(blocks), n, 3)
    v = sum(sum(b) for b in blocks) // 2 % 3
    if v == 1:
        arr = np.asfortranarray(arr)                    # Fortran-ordered input
    elif v == 2:
        wide = np.zeros((len(blocks), n, 6), dtype=dt)  # strided view
        wide[:, :, ::2] = arr
        arr = wide[:, :, ::2]
    return arr if stack else arr[0]


def _np_box(b, stack):
    """Boxes as float32, float64 or int64 input."""
    import numpy as np
    dt = (np.float32, np.float64, np.int64)[sum(b) % 3]
    arr = np.array([np.full((3, 3), t) for t in b], dtype=dt).reshape(len(b), 3, 3)
    return arr if stack else arr[0]


KIND = {"s": "U", "i": "i", "f": "f", "b": "b", "v": "i"}


def _dtypes_real(v, names):
    """observed dtypes: coord, box, kind of every annotation column"""
    def kind(a):
        k = a.dtype.kind
        return {"U": "U", "b": "b", "i": "i", "u": "i", "f": "f"}.get(k, "?" + k)
    c = v.coord.dtype.str[1:]
    b = "-" if v.box is None else v.box.dtype.str[1:]
    return f"{c},{b};" + ",".join(f"{k}:{kind(v.get_annotation(k))}" for k in names)


def _dtypes_ref(has_box, names):
    return f"f4,{'f4' if has_box else '-'};" + ",".join(f"{k}:{KIND.get(kind_of(k), '?')}" for k in names)


def _tok(name, v):
    try:
        k = kind_of(name)
        if k == "s":
            t = unword(v)
            return str(t) if t is not None else "?" + str(v)      # values are compared as strings
        if k == "v":
            import numpy as np
            row = np.asarray(v)
            if row.shape == (2,) and int(row[1]) == int(row[0]) + 1:
                return str(int(row[0]))
            return "?" + "_".join(str(x) for x in row.ravel().tolist()[:4])     # not a row of this category
        f = float(v)
        if f != f:
            return str(NAN_TOK) if k == "f" else "X"
        return str(int(f)) if f == int(f) else "X"
    except Exception:  # noqa: BLE001
        return "X"


def _ctok(c):
    import numpy as np
    try:
        c = np.asarray(c, dtype=float)
        if c.shape != (3,):
            return "X"
        if np.isnan(c).all():
            return "nan"
        x = float(c[0])
        if x != int(x) or c[1] != x + 0.5 or c[2] != -x:
            return "X"
        return str(int(x))
    except Exception:  # noqa: BLE001
        return "X"


def _btok(b):
    import numpy as np
    b = np.asarray(b, dtype=float)
    if b.shape != (3, 3) or not (b == b[0, 0]).all():
        return "X"
    return str(int(b[0, 0]))


def canon_real(v):
    from biotite.structure import Atom, AtomArray
    if v is None:
        return "none"
    if isinstance(v, Atom):
        return ("T|" + ";".join(f"{k}={_tok(k, v._annot[k])}" for k in sorted(v._annot)) + "|" + _ctok(v.coord)
                + "|" + v.coord.dtype.str[1:])
    stack = not isinstance(v, AtomArray)
    names = sorted(v.get_annotation_categories())
    cols = ";".join(f"{k}=" + (",".join(_tok(k, x) for x in v.get_annotation(k)) or "_") for k in names) or "-"
    c = v.coord
    blocks = list(c) if stack else [c]
    coord = "/".join((",".join(_ctok(x) for x in b) or "_") for b in blocks) if blocks else "-"
    if v.box is None:
        box = "-"
    else:
        bl = list(v.box) if (stack or v.box.ndim == 3) else [v.box]
        box = ",".join(_btok(x) for x in bl) or "_"
    if v.bonds is None:
        bonds = "-"
    else:
        bl = sorted(tuple(int(x) for x in r) for r in v.bonds.as_array())
        bonds = f"{v.bonds.get_atom_count()};" + (",".join(f"{i}:{j}:{t}" for i, j, t in bl) or "_")
    return f"{'S' if stack else 'A'}|{v.array_length()}|{cols}|{coord}|{box}|{bonds}|{_dtypes_real(v, names)}"


class Impl:
    """The real code, one protocol op at a time."""

    def __init__(self):
        self.r = {k: None for k in REGS}

    def all_regs(self):
        return ";;".join(f"{k}={canon_real(self.r[k])}" for k in REGS)

    def do(self, op):
        # never hand an incoherent container back to the code: the unchecked Cython bond indexing would read
        # out of bounds (the oracle has already reported the op that broke it)
        for x in re.findall(r"r[0-3]", op):
            bad = _coherent(self.r.get(x))
            if bad:
                return "INCOHERENT:" + bad
        if self.ub_class(op):
            return "UB"       # bonds.pyx would read mask_v[atom] out of bounds; probed in a forked child by the oracle
        return self.raw(op)

    def raw(self, op):
        try:
            return "ok " + self._do(op.split())
        except Exception as e:  # noqa: BLE001
            return "ERR:" + type(e).__name__

    def ub_class(self, op):
        """A size-0 boolean ndarray reaches BondList.__getitem__ of a bond list with >= 1 bond (numpy accepts a
        size-0 boolean index on any axis, bonds.pyx then indexes the empty mask without bounds check)."""
        from biotite.structure import AtomArray, AtomArrayStack
        w = op.split()
        if w[0] not in ("get", "get2"):
            return False
        src = self.r.get(w[2])
        if not isinstance(src, (AtomArray, AtomArrayStack)) or src.bonds is None or src.bonds.get_bond_count() == 0:
            return False
        stack = isinstance(src, AtomArrayStack)
        if w[0] == "get":
            return (not stack) and w[3] in ("m", "n")
        if w[4] not in ("m", "n"):
            return False
        if not stack:
            return w[3] == "e"
        k0, p0 = dec_idx(w[3])
        if k0 == "int":
            return -src.stack_depth() <= p0 < src.stack_depth()
        return True

    def _bondlist(self, n, b):
        import numpy as np
        from biotite.structure import BondList
        return BondList(n, np.array(b, dtype=np.int64).reshape(-1, 3)) if b else BondList(n)

    def _do(self, w):
        import numpy as np
        import biotite.structure as struc
        from biotite.structure import Atom, AtomArray, AtomArrayStack
        r = self.r
        o = w[0]
        if o == "new":
            _, d, k, n, cols, coord, box, bonds = w
            n = int(n)
            blocks = dec_coord(coord)
            a = AtomArray(n) if k == "A" else AtomArrayStack(len(blocks), n)
            for name, ts in dec_cols(cols):
                a.set_annotation(name, _np_col(name, ts))
            a.coord = _np_coord(blocks, k == "S", n)
            b = dec_box(box)
            if b is not None:
                a.box = _np_box(b, k == "S")
            bd = dec_bonds(bonds)
            if bd is not None:
                a.bonds = self._bondlist(n, bd)
            r[d] = a
            return canon_real(a)
        if o == "atom":
            _, d, cols, c = w
            kw = {name: _val(name, ts[0]) for name, ts in dec_cols(cols)}
            t = int(c)
            xyz = [t, t + 0.5, -t]       # a python list, a float64 or an int-free float32 ndarray
            r[d] = Atom(xyz if t % 3 == 0 else np.array(xyz, dtype=(np.float64 if t % 3 == 1 else np.float32)), **kw)
            return canon_real(r[d])
        if o == "get":
            res = r[w[2]][np_index(w[3])]
            r[w[1]] = res
            return canon_real(res)
        if o == "get2":
            res = r[w[2]][np_index(w[3]), np_index(w[4])]
            r[w[1]] = res
            return canon_real(res)
        if o == "set":
            try:
                r[w[1]][np_index(w[2])] = r[w[3]]
            except Exception:
                raise
            return self.all_regs()
        if o == "del":
            del r[w[1]][np_index(w[2])]
            return canon_real(r[w[1]])
        if o in ("concat", "stack", "array"):
            lst = [] if w[2] == "_" else [r[x] for x in w[2].split(",")]
            res = {"concat": struc.concatenate, "stack": struc.stack, "array": struc.array}[o](lst)
            r[w[1]] = res
            return canon_real(res)
        if o == "repeat":
            _, d, s, k, ts = w
            src = r[s]
            k = int(k)
            ts = untoks(ts)
            n = src.array_length()
            depth = src.stack_depth() if isinstance(src, AtomArrayStack) else 1
            per = n if (k * depth == 0 or len(ts) % (k * depth)) else len(ts) // (k * depth)
            c = np.array([[t, t + 0.5, -t] for t in ts], dtype=(np.float64 if sum(ts) % 2 else np.float32)).reshape(-1, 3)
            if c.shape[0] != k * depth * per:
                raise ValueError("coordinate count")
            c = c.reshape((k, depth, per, 3) if isinstance(src, AtomArrayStack) else (k, per, 3))
            res = struc.repeat(src, c)
            r[d] = res
            return canon_real(res)
        if o == "tmpl":
            _, d, s, coord, box = w
            blocks = dec_coord(coord)
            b = dec_box(box)
            c = _np_coord(blocks, True, r[s].array_length())
            res = struc.from_template(r[s], c, None if b is None else _np_box(b, True))
            r[d] = res
            return canon_real(res)
        if o == "addann":
            r[w[1]].add_annotation(w[2], _dtype(w[2]))
            return canon_real(r[w[1]])
        if o == "setann":
            r[w[1]].set_annotation(w[2], _np_col(w[2], untoks(w[3])))
            return canon_real(r[w[1]])
        if o == "delann":
            r[w[1]].del_annotation(w[2])
            return canon_real(r[w[1]])
        if o == "setcoord":
            a = r[w[1]]
            a.coord = _np_coord(dec_coord(w[2]), isinstance(a, AtomArrayStack), a.array_length())
            return canon_real(a)
        if o == "setbox":
            a = r[w[1]]
            b = dec_box(w[2])
            a.box = None if b is None else _np_box(b, isinstance(a, AtomArrayStack))
            return canon_real(a)
        if o == "setbonds":
            a = r[w[1]]
            b = dec_bonds(w[2])
            a.bonds = None if b is None else self._bondlist(a.array_length(), b)
            return canon_real(a)
        if o == "copy":
            res = r[w[2]].copy()
            r[w[1]] = res
            return canon_real(res)
        if o == "eq":
            return "true" if r[w[1]] == r[w[2]] else "false"
        raise RuntimeError("bad-op")


def _run_impl(case):
    impl = Impl()
    return [impl.do(op) for op in case["ops"]]


class _Worker:
    """One persistent forked child executes the real code for all cases (fork once: forking per case is slow).  If the
    child dies (segfault in a compiled extension) or hangs, that case gets a crash verdict and a new child is started:
    a crash of the code under test is an oracle failure with the case as failing input, never a dead check."""

    def __init__(self):
        self.pid = None

    def _spawn(self):
        import pickle
        r1, w1 = os.pipe()
        r2, w2 = os.pipe()
        pid = os.fork()
        if pid == 0:
            os.close(w1)
            os.close(r2)
            fin, fout = os.fdopen(r1, "rb"), os.fdopen(w2, "wb")
            funcs = {"impl": _run_impl, "oracle": _oracle}
            while True:
                try:
                    name, case = pickle.load(fin)
                except BaseException:  # noqa: BLE001
                    os._exit(0)
                try:
                    res = ("ok", funcs[name](case))
                except BaseException as e:  # noqa: BLE001
                    res = ("err", type(e).__name__, str(e)[:300])
                try:
                    pickle.dump(res, fout)
                    fout.flush()
                except BaseException:  # noqa: BLE001
                    os._exit(1)
        os.close(r1)
        os.close(w2)
        self.pid, self.fout, self.fin, self.fd = pid, os.fdopen(w1, "wb"), os.fdopen(r2, "rb"), r2

    def _reap(self, kill=False):
        import signal
        try:
            if kill:
                os.kill(self.pid, signal.SIGKILL)
            _, status = os.waitpid(self.pid, 0)
        except OSError:
            status = 0
        for f in (self.fout, self.fin):
            try:
                f.close()
            except Exception:  # noqa: BLE001
                pass
        self.pid = None
        return os.WTERMSIG(status) if os.WIFSIGNALED(status) else -1

    def call(self, name, case, timeout=120):
        import pickle
        import select
        if self.pid is None:
            self._spawn()
        try:
            pickle.dump((name, {k: v for k, v in case.items() if not k.startswith("_")}), self.fout)
            self.fout.flush()
            ready, _, _ = select.select([self.fd], [], [], timeout)
            if not ready:
                self._reap(kill=True)
                return ("timeout",)
            return pickle.load(self.fin)
        except (EOFError, BrokenPipeError, pickle.UnpicklingError, OSError):
            return ("crash", self._reap())


_WORKER = _Worker()


def run_impl(case):
    if os.environ.get("VERIF_C01_INPROCESS"):
        return _run_impl(case)
    res = _WORKER.call("impl", case)
    if res[0] == "ok":
        return res[1]
    return ["CRASH:" + "-".join(str(x) for x in res)[:150]]


# ------------------------------------------------------------------ reference: a plain list of atom objects
class Reject(Exception):
    """The reference model says: this operation is not defined (the code must reject it and change nothing).
    `classes`: the exception classes the documented contract allows for this refusal (None: protocol artefact)."""

    def __init__(self, msg, classes=None):
        super().__init__(msg)
        self.classes = classes


NP = ("IndexError", "ValueError")            # numpy's index errors


class RA:  # one atom object; identity matters (bonds refer to objects, not positions)
    __slots__ = ("ann", "co")

    def __init__(self, ann, co):
        self.ann = dict(ann)     # name -> token
        self.co = list(co)       # one coordinate token per model (AtomArray / Atom: exactly one)

    def clone(self):
        return RA(self.ann, self.co)


class RC:  # container: list of atom objects (+ per-model boxes, bonds between atom objects)
    def __init__(self, stack, names, atoms, depth, boxes, bonds):
        self.stack, self.names, self.atoms, self.depth = stack, set(names), list(atoms), depth
        self.boxes = None if boxes is None else list(boxes)
        self.bonds = None if bonds is None else list(bonds)   # [(atom_obj, atom_obj, type)]

    def clone(self, sel=None, models=None, to_array=False):
        """New container with the atoms at positions `sel` (default all) and the models `models` (default all)."""
        sel = range(len(self.atoms)) if sel is None else sel
        mp = {}
        atoms = []
        for i in sel:
            a = self.atoms[i]
            c = RA(a.ann, a.co if models is None else [a.co[m] for m in models])
            if id(a) in mp:
                mp[id(a)] = None          # selected twice: bonds to it are not defined
            else:
                mp[id(a)] = c
            atoms.append(c)
        bonds = None
        if self.bonds is not None:
            bonds = []
            for x, y, t in self.bonds:
                if id(x) in mp and id(y) in mp:
                    if mp[id(x)] is None or mp[id(y)] is None:
                        raise Reject("duplicate atom in a bonded selection", ("NotImplementedError",))
                    bonds.append((mp[id(x)], mp[id(y)], t))
            if any(v is None for v in mp.values()):
                raise Reject("duplicate atom in a selection of a container with bonds (documented: not supported)", ("NotImplementedError",))
        depth = self.depth if models is None else len(models)
        boxes = self.boxes if (self.boxes is None or models is None) else [self.boxes[m] for m in models]
        return RC(self.stack and not to_array, self.names, atoms, depth, boxes, bonds)

    def canon(self):
        names = sorted(self.names)
        cols = ";".join(f"{k}=" + toks(a.ann[k] for a in self.atoms) for k in names) or "-"
        coord = "/".join(toks(a.co[m] for a in self.atoms) for m in range(self.depth)) if self.depth else "-"
        box = "-" if self.boxes is None else toks(self.boxes)
        if self.bonds is None:
            bonds = "-"
        else:
            pos = {id(a): i for i, a in enumerate(self.atoms)}
            bl = sorted((min(pos[id(x)], pos[id(y)]), max(pos[id(x)], pos[id(y)]), t) for x, y, t in self.bonds)
            bonds = f"{len(self.atoms)};" + (",".join(f"{i}:{j}:{t}" for i, j, t in bl) or "_")
        return (f"{'S' if self.stack else 'A'}|{len(self.atoms)}|{cols}|{coord}|{box}|{bonds}|"
                f"{_dtypes_ref(self.boxes is not None, names)}")


def ref_resolve(n, idx):
    """numpy's own answer for one axis of length n."""
    import numpy as np
    k, p = dec_idx(idx)
    try:
        res = np.arange(n)[np_index(idx)]
    except (IndexError, ValueError) as e:
        raise Reject(f"numpy rejects the index: {e}", NP)
    if k == "int":
        return [int(res)]
    return [int(x) for x in res]


def canon_ref(v):
    if v is None:
        return "none"
    if isinstance(v, RA):
        return "T|" + ";".join(f"{k}={v.ann[k]}" for k in sorted(v.ann)) + "|" + str(v.co[0]) + "|f4"
    return v.canon()


class Ref:
    def __init__(self):
        self.r = {k: None for k in REGS}

    def all_regs(self):
        return ";;".join(f"{k}={canon_ref(self.r[k])}" for k in REGS)

    def do(self, op):
        return self._do(op.split())

    def _arr(self, name):
        v = self.r[name]
        if not isinstance(v, RC):
            raise Reject("not a container")
        return v

    def _atom_of(self, c, i, m=0):
        a = c.atoms[i]
        ann = {k: 0 for k in MAND}
        ann.update(a.ann)
        return RA(ann, [a.co[m]])

    def _do(self, w):
        r = self.r
        o = w[0]
        if o == "new":
            _, d, k, n, cols, coord, box, bonds = w
            n = int(n)
            blocks = dec_coord(coord)
            cols = dict(dec_cols(cols))
            if any(len(v) != n for v in cols.values()) or any(len(b) != n for b in blocks):
                raise Reject("length mismatch")
            if k == "A" and len(blocks) != 1:
                raise Reject("an atom array has one coordinate set")
            names = set(MAND) | set(cols)
            atoms = [RA({nm: (cols[nm][i] if nm in cols else 0) for nm in names}, [b[i] for b in blocks]) for i in range(n)]
            b = dec_box(box)
            if b is not None and len(b) != len(blocks):
                raise Reject("box depth")
            bd = dec_bonds(bonds)
            c = RC(k == "S", names, atoms, len(blocks), b, None if bd is None else [(atoms[i], atoms[j], t) for i, j, t in bd])
            r[d] = c
            return canon_ref(c)
        if o == "atom":
            _, d, cols, c = w
            ann = {k: 0 for k in MAND}
            ann.update({k: v[0] for k, v in dec_cols(cols)})
            r[d] = RA(ann, [int(c)])
            return canon_ref(r[d])
        if o in ("get", "get2") and isinstance(r.get(w[2]), RC) and r[w[2]].bonds:
            c = r[w[2]]
            atom_ix = w[4] if o == "get2" else (w[3] if not c.stack else "e")
            if atom_ix in ("m", "n") and len(c.atoms) > 0:
                raise Reject("boolean mask of the wrong length (0) on a container with bonds", ("IndexError",))
        if o == "get":
            c = self._arr(w[2])
            kind, p = dec_idx(w[3])
            if not c.stack:
                if kind == "ell":
                    raise Reject("array[...] is rejected by the code (double ellipsis); harmless", ("IndexError",))
                sel = ref_resolve(len(c.atoms), w[3])
                res = self._atom_of(c, sel[0]) if kind == "int" else c.clone(sel)
            else:
                ms = ref_resolve(c.depth, w[3])
                res = c.clone(None, ms, to_array=(kind == "int"))
                if kind == "int":
                    res.boxes = None if c.boxes is None else [c.boxes[ms[0]]]
            r[w[1]] = res
            return canon_ref(res)
        if o == "get2":
            c = self._arr(w[2])
            k0, _p0 = dec_idx(w[3])
            k1, _p1 = dec_idx(w[4])
            if not c.stack:
                if k0 != "ell" or k1 == "ell":
                    raise Reject("an atom array takes one index", ("IndexError",))
                sel = ref_resolve(len(c.atoms), w[4])
                res = self._atom_of(c, sel[0]) if k1 == "int" else c.clone(sel)
            else:
                if k1 == "ell":
                    raise Reject("stack[x, ...] is rejected by the code; harmless", ("IndexError",))
                ms = list(range(c.depth)) if k0 == "ell" else ref_resolve(c.depth, w[3])
                sel = ref_resolve(len(c.atoms), w[4])
                if k0 == "int" and k1 == "int":
                    res = self._atom_of(c, sel[0], ms[0])
                else:
                    res = c.clone(sel, ms, to_array=(k0 == "int"))
            r[w[1]] = res
            return canon_ref(res)
        if o == "set":
            c = self._arr(w[1])
            kind, p = dec_idx(w[2])
            v = r[w[3]]
            if not c.stack:
                if not isinstance(v, RA) or kind not in ("int", "mask", "nmask", "rmask", "arr", "uarr", "warr"):
                    raise Reject("element assignment takes an integer/ndarray index and an Atom")
                if not c.names <= set(v.ann):
                    raise Reject("atom lacks an annotation of the array", ("KeyError",))
                sel = ref_resolve(len(c.atoms), w[2])
                for i in sel:
                    c.atoms[i].ann = {k: v.ann[k] for k in c.names}
                    c.atoms[i].co = [v.co[0]]
            else:
                if not isinstance(v, RC) or v.stack or kind != "int":
                    raise Reject("model assignment takes an integer index and an AtomArray")
                if v.names != c.names or len(v.atoms) != len(c.atoms) or any(
                        a.ann != b.ann for a, b in zip(v.atoms, c.atoms)):
                    raise Reject("unequal annotations", ("ValueError",))
                if _bondset(v) != _bondset(c):
                    raise Reject("unequal bonds", ("ValueError",))
                if c.boxes is not None and v.boxes is None:
                    raise Reject("the stack has boxes, the array has none", ("ValueError",))
                m = ref_resolve(c.depth, w[2])[0]
                for a, b in zip(c.atoms, v.atoms):
                    a.co[m] = b.co[0]
                if c.boxes is not None:
                    c.boxes[m] = v.boxes[0]        # (a stack without boxes ignores the array's box)
            return self.all_regs()
        if o == "del":
            c = self._arr(w[1])
            kind, p = dec_idx(w[2])
            if kind != "int":
                raise Reject("deletion takes an integer", ("TypeError",))
            if not c.stack:
                i = ref_resolve(len(c.atoms), w[2])[0]
                gone = c.atoms.pop(i)
                if c.bonds is not None:
                    c.bonds = [(x, y, t) for x, y, t in c.bonds if x is not gone and y is not gone]
            else:
                m = ref_resolve(c.depth, w[2])[0]
                for a in c.atoms:
                    a.co.pop(m)
                c.depth -= 1
                if c.boxes is not None:
                    c.boxes.pop(m)
            return canon_ref(c)
        if o == "concat":
            lst = [] if w[2] == "_" else [self._arr(x) for x in w[2].split(",")]
            if not lst:
                raise Reject("empty list", ("IndexError", "AttributeError"))
            if any(x.stack != lst[0].stack for x in lst):
                raise Reject("mixed types", ("TypeError", "IndexError"))
            if any(x.depth != lst[0].depth for x in lst):
                raise Reject("depth differs", ("IndexError", "TypeError"))
            names = set.intersection(*[x.names for x in lst]) | set(MAND)
            parts = [x.clone() for x in lst]
            atoms = []
            for x in parts:
                for a in x.atoms:
                    a.ann = {k: a.ann.get(k, 0) for k in names}
                    atoms.append(a)
            boxes = next((x.boxes for x in parts if x.boxes is not None), None)
            bonds = None
            if any(x.bonds is not None for x in parts):
                bonds = [b for x in parts for b in (x.bonds or [])]
            res = RC(lst[0].stack, names, atoms, lst[0].depth, boxes, bonds)
            r[w[1]] = res
            return canon_ref(res)
        if o == "stack":
            lst = [] if w[2] == "_" else [self._arr(x) for x in w[2].split(",")]
            if not lst or any(x.stack for x in lst):
                raise Reject("needs atom arrays")
            f = lst[0]
            for x in lst:
                if x.names != f.names or len(x.atoms) != len(f.atoms) or any(a.ann != b.ann for a, b in zip(x.atoms, f.atoms)):
                    raise Reject("unequal annotations", ("ValueError",))
            res = f.clone()
            for i, a in enumerate(res.atoms):
                a.co = [x.atoms[i].co[0] for x in lst]
            res.stack, res.depth = True, len(lst)
            res.boxes = [x.boxes[0] for x in lst] if all(x.boxes is not None for x in lst) else None
            r[w[1]] = res
            return canon_ref(res)
        if o == "array":
            lst = [] if w[2] == "_" else [r[x] for x in w[2].split(",")]
            if not lst or any(not isinstance(x, RA) for x in lst):
                raise Reject("needs atoms")
            if any(set(x.ann) != set(lst[0].ann) for x in lst):
                raise Reject("annotation categories differ", ("ValueError",))
            res = RC(False, set(lst[0].ann) | set(MAND), [x.clone() for x in lst], 1, None, None)
            r[w[1]] = res
            return canon_ref(res)
        if o == "repeat":
            _, d, s, k, ts = w
            c = self._arr(s)
            k = int(k)
            ts = untoks(ts)
            n = len(c.atoms)
            if len(ts) != k * c.depth * n:
                raise Reject("coordinate count", ("ValueError",))
            if k == 0 and c.bonds is not None and n > 0:
                raise Reject("zero repetitions of a bonded container: rejected by the code; harmless", ("ValueError",))
            parts = [c.clone() for _ in range(k)]
            atoms = [a for x in parts for a in x.atoms]
            # coord has shape (k, depth, n): copy j of atom i has coord[j, m, i] in model m
            for j, x in enumerate(parts):
                for i, a in enumerate(x.atoms):
                    for m in range(c.depth):
                        a.co[m] = ts[(j * c.depth + m) * n + i]
            bonds = None if c.bonds is None else [b for x in parts for b in x.bonds]
            res = RC(c.stack, c.names, atoms, c.depth, c.boxes, bonds)
            r[d] = res
            return canon_ref(res)
        if o == "tmpl":
            _, d, s, coord, box = w
            c = self._arr(s)
            blocks = dec_coord(coord)
            b = dec_box(box)
            if any(len(x) != len(c.atoms) for x in blocks):
                raise Reject("coordinate count", ("ValueError",))
            if b is not None and len(b) != len(blocks):
                raise Reject("box depth differs from the number of models", ("ValueError",))
            res = c.clone()
            for i, a in enumerate(res.atoms):
                a.co = [x[i] for x in blocks]
            res.stack, res.depth, res.boxes = True, len(blocks), b
            r[d] = res
            return canon_ref(res)
        if o == "addann":
            c = self._arr(w[1])
            if w[2] not in c.names:
                c.names.add(w[2])
                for a in c.atoms:
                    a.ann[w[2]] = 0
            return canon_ref(c)
        if o == "setann":
            c = self._arr(w[1])
            ts = untoks(w[3])
            if len(ts) != len(c.atoms):
                raise Reject("length", ("IndexError",))
            c.names.add(w[2])
            for a, t in zip(c.atoms, ts):
                a.ann[w[2]] = t
            return canon_ref(c)
        if o == "delann":
            c = self._arr(w[1])
            if w[2] in c.names:
                c.names.discard(w[2])
                for a in c.atoms:
                    del a.ann[w[2]]
            return canon_ref(c)
        if o == "setcoord":
            c = self._arr(w[1])
            blocks = dec_coord(w[2])
            if any(len(x) != len(c.atoms) for x in blocks) or (not c.stack and len(blocks) != 1):
                raise Reject("shape", ("ValueError",) if c.stack or len(blocks) == 1 else None)
            if c.boxes is not None and len(blocks) != c.depth:
                raise Reject("coordinates with another number of models while a box is set", ("ValueError",))
            for i, a in enumerate(c.atoms):
                a.co = [x[i] for x in blocks]
            c.depth = len(blocks)
            return canon_ref(c)
        if o == "setbox":
            c = self._arr(w[1])
            b = dec_box(w[2])
            if b is not None and len(b) != c.depth:
                raise Reject("box depth differs from the number of models", ("ValueError",) if c.stack else None)
            c.boxes = b
            return canon_ref(c)
        if o == "setbonds":
            c = self._arr(w[1])
            b = dec_bonds(w[2])
            c.bonds = None if b is None else [(c.atoms[i], c.atoms[j], t) for i, j, t in b]
            return canon_ref(c)
        if o == "copy":
            v = r[w[2]]
            if v is None:
                raise Reject("nothing to copy")
            res = v.clone()
            r[w[1]] = res
            return canon_ref(res)
        if o == "eq":
            a, b = r[w[1]], r[w[2]]
            if not isinstance(a, RC) or not isinstance(b, RC):
                raise Reject("containers only")
            return "true" if canon_ref(a) == canon_ref(b) else "false"
        raise Reject("bad-op")


def _bondset(c):
    if c.bonds is None:
        return None
    pos = {id(a): i for i, a in enumerate(c.atoms)}
    return {(min(pos[id(x)], pos[id(y)]), max(pos[id(x)], pos[id(y)]), t) for x, y, t in c.bonds}


# ------------------------------------------------------------------ oracle
FIELDS = ["kind", "n", "annot", "coord", "box", "bonds", "dtype"]


def _op_class(op):
    w = op.split()
    o = w[0]
    if o in ("get", "del"):
        return f"{o}/{idx_class(w[3] if o == 'get' else w[2])}"
    if o == "get2":
        return f"get2/{idx_class(w[3])}+{idx_class(w[4])}"
    if o == "set":
        return f"set/{idx_class(w[2])}"
    return o


def _diff_field(a, b):
    pa, pb = a.split("|"), b.split("|")
    if len(pa) != 7 or len(pb) != 7:
        return "value"
    for f, x, y in zip(FIELDS, pa, pb):
        if x != y:
            return f
    return "value"


def _coherent(v):
    """Lengths/depths of the public attributes of a real container agree."""
    from biotite.structure import AtomArray, AtomArrayStack
    if not isinstance(v, (AtomArray, AtomArrayStack)):
        return None
    n = v.array_length()
    depth = v.coord.shape[0] if isinstance(v, AtomArrayStack) else None
    if isinstance(v, AtomArrayStack):
        if v.shape != (depth, n) or len(v) != depth or v.stack_depth() != depth:
            return f"shape {v.shape} / len {len(v)} / stack_depth {v.stack_depth()} for coord shape {v.coord.shape}"
    elif v.shape != (n,) or len(v) != n or v.coord.shape != (n, 3):
        return f"shape {v.shape} / len {len(v)} for array length {n}, coord shape {v.coord.shape}"
    for k in v.get_annotation_categories():
        if len(v.get_annotation(k)) != n:
            return f"annotation {k} has length {len(v.get_annotation(k))}, array length {n}"
    if v.coord.shape[-2] != n:
        return f"coord has {v.coord.shape[-2]} atoms, array length {n}"
    if v.bonds is not None and v.bonds.get_atom_count() != n:
        return f"bond list has {v.bonds.get_atom_count()} atoms, array length {n}"
    if isinstance(v, AtomArrayStack):
        if v.box is not None and (v.box.ndim != 3 or v.box.shape[0] != v.coord.shape[0]):
            return f"box shape {v.box.shape} for stack depth {v.coord.shape[0]}"
    elif v.box is not None and v.box.shape != (3, 3):
        return f"box shape {v.box.shape} for an atom array"
    if v.bonds is not None and len(v.bonds.as_array()) and int(v.bonds.as_array()[:, :2].max()) >= n:
        return "bond index out of range"
    return None


def _shares(a, b):
    """Names of the mutable parts a copy shares with its original."""
    import numpy as np
    from biotite.structure import Atom
    out = []
    if isinstance(a, Atom):
        return ["coord"] if np.shares_memory(a.coord, b.coord) else []
    for k in a.get_annotation_categories():
        if k in b.get_annotation_categories() and np.shares_memory(a.get_annotation(k), b.get_annotation(k)):
            out.append("annot:" + k)
    if a._annot is b._annot:
        out.append("annot-dict")
    if np.shares_memory(a.coord, b.coord):
        out.append("coord")
    if a.box is not None and b.box is not None and np.shares_memory(a.box, b.box):
        out.append("box")
    if a.bonds is not None and (a.bonds is b.bonds or np.shares_memory(a.bonds._bonds, b.bonds._bonds)):
        out.append("bonds")
    return out


def oracle(case):
    if os.environ.get("VERIF_C01_INPROCESS"):
        return _oracle(case)
    res = _WORKER.call("oracle", case)
    if res[0] == "ok":
        return res[1]
    if res[0] == "err":
        raise RuntimeError(f"oracle raised {res[1]}: {res[2]}")
    return [("C01/crash/" + "-".join(str(x) for x in res), f"the real code killed or hung the process ({res}) while "
             f"executing this case; first ops: {(case.get('ops') or [])[:3]}")]


def _oracle(case):
    if "api" in case:
        return _oracle_api(case)
    ops = case.get("ops") or []
    impl, ref = Impl(), Ref()
    for k, op in enumerate(ops):
        src_before = impl.r.get(op.split()[2]) if op.startswith("copy ") else None
        if impl.ub_class(op):
            from common import sandbox
            res = sandbox.run_forked(impl.raw, op, timeout=60)
            outcome = res[1] if res[0] == "ok" else "-".join(str(x) for x in res)
            if outcome != "ERR:IndexError":
                return [("C01/getitem/mask-wrong-length+bonds/unchecked",
                         f"op {k} `{op}`: a size-0 boolean mask on a container with {len(impl.r[op.split()[2]].bonds.as_array())} bond(s) "
                         f"is not rejected; bonds.pyx indexes the mask without bounds check; outcome in a forked child: {outcome[:200]}")]
        real = impl.do(op)
        if real == "UB":
            real = "ERR:IndexError"      # (only reached if the forked probe saw the IndexError the property asks for)
        allowed = None
        try:
            exp = "ok " + ref.do(op)
        except Reject as e:
            exp = "REJECT " + str(e)
            allowed = e.classes
            if allowed is not None:
                w0 = op.split()
                if w0[0] == "get2":        # two axes may both be invalid; the code looks at the atom axis first
                    allowed = tuple(set(allowed) | set(NP) | {"NotImplementedError"})
                if w0[0] in ("get", "get2") and any(x[0] in "nrw" for x in w0[3:]):
                    allowed = tuple(set(allowed) | {"ValueError"})      # known findings: strided / read-only / byte-swapped
        cls = _op_class(op)
        w = op.split()
        if real == "ERR:ValueError" and exp.startswith("ok ") and w[0] in ("get", "get2") and any(
                x.startswith("n") for x in w[3:]):
            # bonds.pyx: np.frombuffer(mask) needs a C-contiguous mask (the container has bonds, else no error)
            return [("C01/getitem/mask-noncontiguous+bonds/error-ValueError",
                     f"op {k} `{op}`: strided boolean mask on a container with bonds raises ValueError; reference gives {exp[3:][:120]}")]
        if real == "ERR:ValueError" and exp.startswith("ok ") and w[0] in ("get", "get2") and any(
                x[0] in "rw" for x in w[3:]):
            which = "mask-readonly" if any(x[0] == "r" for x in w[3:]) else "index-array-byteswapped"
            return [(f"C01/getitem/{which}+bonds/error-ValueError",
                     f"op {k} `{op}`: bonds.pyx typed memoryview rejects the index on a container with bonds; reference gives {exp[3:][:120]}")]
        if real.startswith("ERR:") and exp.startswith("ok "):
            # a wrongly rejected operation
            return [(f"C01/{cls}/error-{real[4:]}", f"op {k} `{op}`: reference gives {exp[3:][:160]}, code raises {real[4:]}")]
        if real.startswith("ok ") and exp.startswith("REJECT"):
            return [(f"C01/{cls}/accepted-invalid", f"op {k} `{op}`: {exp}; code returns {real[3:][:160]}")]
        if real.startswith("ok "):
            if real != exp:
                if w[0] == "set" and "?" in real and "?" not in exp:
                    return [("C01/setitem/string-truncated", f"op {k} `{op}`: a string annotation value was cut: "
                             f"{[x for x in re.findall(r'[?][a-z]+', real)][:4]} (values are compared as strings)")]
                if re.search(r"v_\w+=[^;|]*[?]", real) and "?" not in exp:
                    return [(f"C01/{cls}/annotation-rows", f"op {k} `{op}`: an annotation with several values per atom lost "
                             f"its rows / its length: code {real[3:][:220]} != reference {exp[3:][:120]}")]
                if "?" in real and "?" not in exp:
                    return [(f"C01/{cls}/string-truncated", f"op {k} `{op}`: a string annotation value was cut: "
                             f"{[x for x in re.findall(r'[?][a-z]+', real)][:4]}; code {real[3:][:160]}")]
                if w[0] == "set":
                    fld = "state"
                else:
                    fld = _diff_field(real[3:], exp[3:])
                return [(f"C01/{cls}/{fld}", f"op {k} `{op}`: code {real[3:][:200]} != reference {exp[3:][:200]}")]
            tgt = impl.r.get(w[1]) if w[0] != "eq" else None
            bad = _coherent(tgt)
            if bad:
                return [(f"C01/{cls}/incoherent", f"op {k} `{op}`: {bad}")]
            if w[0] == "copy":
                sh = _shares(impl.r[w[1]], src_before)
                if sh:
                    return [(f"C01/copy/shares-{sh[0].split(':')[0]}", f"op {k} `{op}`: copy shares {sh}")]
        else:
            # rejected by both: only with an exception the contract allows for this refusal ...
            if real.startswith("ERR:") and allowed is not None and real[4:] not in allowed:
                return [(f"C01/{cls}/wrong-error-{real[4:]}", f"op {k} `{op}`: refused with {real[4:]}, the contract allows "
                         f"{allowed} ({exp})")]
            # ... and nothing may have changed
            if impl.all_regs() != ref.all_regs():
                return [(f"C01/{cls}/changed-by-failed-op", f"op {k} `{op}` raised {real[4:]} but changed a register: "
                         f"{impl.all_regs()[:300]} != {ref.all_regs()[:300]}")]
    return []



# ------------------------------------------------------------------ less-used entry points (oracle-only stream)
def _api_case(rng):
    """Two containers (the second one often a sibling of the first) for the API probe of `_oracle_api`."""
    g = Gen(rng)
    if "f_y" not in g.extra:
        g.extra.append("f_y")
    g.new("r0")
    c = g.ref.r["r0"]
    if rng.random() < 0.6:
        g.new("r1", stack=c.stack, like=c, vary_box=True)
    else:
        g.new("r1", stack=c.stack)
    return {"kind": "api", "api": {"new": list(g.ops), "seed": rng.randrange(10 ** 6)}}


def _oracle_api(case):
    """Public entry points no protocol op goes through: len/shape/iteration, attribute-style access, `+`,
    equal_annotations(equal_nan=...), equal_annotation_categories, Atom ==/!=/copy/shape/kwargs form, str(),
    coord(), dir(), fresh constructors, get_annotation of a missing category."""
    import random
    import numpy as np
    import biotite.structure as struc
    from biotite.structure import Atom, AtomArray, AtomArrayStack
    rng = random.Random(case["api"]["seed"])
    impl, ref = Impl(), Ref()
    for op in case["api"]["new"]:
        res = impl.do(op)
        if not res.startswith("ok"):
            return [("C01/api/constructor", f"`{op[:120]}` -> {res}")]
        ref.do(op)
    out = []

    def bad(key, msg):
        out.append((f"C01/api/{key}", msg[:300]))

    for reg in ("r0", "r1"):
        a, c = impl.r[reg], ref.r[reg]
        n, stack = len(c.atoms), c.stack
        # sizes
        exp_shape = (c.depth, n) if stack else (n,)
        if a.shape != exp_shape or len(a) != exp_shape[0] or a.array_length() != n or (stack and a.stack_depth() != c.depth):
            bad("shape", f"{reg}: shape {a.shape}, len {len(a)}, array_length {a.array_length()} for reference {exp_shape}")
        # iteration == indexing == reference
        items = list(a)
        if len(items) != exp_shape[0]:
            bad("iter", f"{reg}: iteration yields {len(items)} items, expected {exp_shape[0]}")
        for i, x in enumerate(items):
            r2 = Ref()
            r2.r = dict(ref.r)
            want = r2.do(f"get r3 {reg} i{i}")
            if canon_real(x) != want:
                bad("iter", f"{reg}: item {i} of iteration {canon_real(x)[:120]} != reference {want[:120]}")
                break
        # attribute-style access
        for k in sorted(c.names):
            if getattr(a, k) is not a.get_annotation(k):
                bad("getattr", f"{reg}: attribute {k} is not the annotation array")
        if a.coord is not a._coord or a.box is not a._box or a.bonds is not a._bonds:
            bad("getattr", f"{reg}: coord/box/bonds attributes")
        if not set(c.names) | {"coord", "box", "bonds"} <= set(dir(a)):
            bad("dir", f"{reg}: dir() lacks annotation names")
        if sorted(a.get_annotation_categories()) != sorted(c.names):
            bad("categories", f"{reg}: {a.get_annotation_categories()} != {sorted(c.names)}")
        try:
            a.get_annotation("no_such_category")
            bad("get_annotation", f"{reg}: a missing category was returned")
        except ValueError:
            pass
        # attribute-style assignment == set_annotation (on copies)
        if n:
            b1, b2 = a.copy(), a.copy()
            k = rng.choice(sorted(c.names))
            col = _np_col(k, [rng.choice([a2.ann[k] for a2 in c.atoms]) for _ in range(n)])
            setattr(b1, k, col.copy())
            b2.set_annotation(k, col.copy())
            if canon_real(b1) != canon_real(b2):
                bad("setattr", f"{reg}: `array.{k} = col` differs from set_annotation: {canon_real(b1)[:100]} != {canon_real(b2)[:100]}")
            before = canon_real(b1)
            try:
                setattr(b1, k, col[:-1])
                bad("setattr", f"{reg}: a too short annotation array was accepted")
            except IndexError:
                if canon_real(b1) != before:
                    bad("setattr", f"{reg}: a refused attribute assignment changed the array")
        # str(): one line per atom (per model), never an exception
        try:
            text = str(a)
            if not stack and n and len(text.splitlines()) != n:
                bad("str", f"{reg}: str() has {len(text.splitlines())} lines for {n} atoms")
            repr(a)
        except Exception as e:  # noqa: BLE001
            bad("str", f"{reg}: str()/repr() raised {type(e).__name__}")
        # coord()
        got = struc.coord(a)
        if got is not a.coord:
            bad("coord", f"{reg}: coord(container) is not its coord")
    a0, a1, c0, c1 = impl.r["r0"], impl.r["r1"], ref.r["r0"], ref.r["r1"]
    # --- regions the model abstains from (audit 6): run the code there, demand at least coherent containers
    # (i) deleting a *mandatory* category (the documentation calls them mandatory; new objects re-create them)
    x = a0.copy()
    x.del_annotation(rng.choice(MAND))
    for y in (x, x.copy(), x[..., :0] if False else x, (x + x) if True else x):
        if _coherent(y):
            bad("mandatory-deleted", f"after del_annotation of a mandatory category: {_coherent(y)}")
    if len(c0.atoms) >= 2:
        y = x[::-1] if not c0.stack else x[:, ::-1]
        if _coherent(y) or y.array_length() != len(c0.atoms):
            bad("mandatory-deleted", "reversed selection after deleting a mandatory category is incoherent")
    # (ii) assignment through a view (numpy semantics: the parent sees it); a copy taken before must not
    if isinstance(a0, AtomArray) and len(c0.atoms) >= 3:
        parent = a0.copy()
        before = parent.copy()
        keep = canon_real(before)
        view = parent[1:3]
        atom = a0[0]
        view[0] = atom
        if _coherent(parent) or _coherent(view) or canon_real(before) != keep:
            bad("view-assignment", f"assignment through a slice view: {_coherent(parent) or _coherent(view) or 'an earlier copy changed'}")
        if canon_real(view[0]) != canon_real(atom):
            bad("view-assignment", "the assigned atom is not read back from the view")
    # `+` == concatenate == reference
    r2 = Ref()
    r2.r = dict(ref.r)
    try:
        want = "ok " + r2.do("concat r3 r0,r1")
    except Reject:
        want = None
    try:
        got = "ok " + canon_real(a0 + a1)
    except Exception as e:  # noqa: BLE001
        got = "ERR:" + type(e).__name__
    if (want is None) != got.startswith("ERR") or (want is not None and got != want):
        bad("add", f"r0 + r1 gives {got[:140]}, reference {str(want)[:140]}")
    # equal_annotations with both values of equal_nan, equal_annotation_categories
    same_cat = c0.names == c1.names
    same_ann = same_cat and len(c0.atoms) == len(c1.atoms) and all(x.ann == y.ann for x, y in zip(c0.atoms, c1.atoms))
    has_nan = any(kind_of(k) == "f" and x.ann[k] == NAN_TOK for x in c0.atoms for k in c0.names)
    for a, b, nm in ((a0, a1, "r0,r1"), (a0, a0.copy(), "r0,copy")):
        cat = same_cat if nm == "r0,r1" else True
        ann = same_ann if nm == "r0,r1" else True
        if a.equal_annotation_categories(b) != cat:
            bad("equal_annotation_categories", f"{nm}: {a.equal_annotation_categories(b)} != reference {cat}")
        if bool(a.equal_annotations(b)) != ann or bool(a.equal_annotations(b, True)) != ann:
            bad("equal_annotations", f"{nm}: equal_annotations -> {a.equal_annotations(b)}, reference {ann}")
        want = ann and not has_nan
        if bool(a.equal_annotations(b, equal_nan=False)) != want:
            bad("equal_annotations-equal_nan", f"{nm}: equal_annotations(equal_nan=False) -> "
                f"{a.equal_annotations(b, equal_nan=False)}, reference {want} (NaN present: {has_nan})")
    if a0.equal_annotations("not an array") is not False:
        bad("equal_annotations", "a non-container compares equal")
    # atoms: == / != / copy / shape / the `kwargs=` constructor form / coord()
    if isinstance(a0, AtomArray) and len(c0.atoms):
        i = rng.randrange(len(c0.atoms))
        x, y = a0[i], a0.get_atom(i)
        z = Atom(x.coord, kwargs=dict(x._annot))
        cp = x.copy()
        nan_free = not any(isinstance(v, (float, np.floating)) and v != v for v in x._annot.values())
        # (Atom.__eq__ compares annotation values with `!=`: an atom with a NaN annotation is unequal to its own
        #  copy, unlike arrays (equal_nan=True).  Atoms are outside the property statement: observation, see notes.)
        if nan_free and (not (x == y and x == z and x == cp) or (x != y)) or x.shape != ():
            bad("atom-eq", f"atom {i} of r0: ==/!=/copy/kwargs form/shape disagree")
        if cp.coord is x.coord or np.shares_memory(cp.coord, x.coord) or cp._annot is x._annot:
            bad("atom-copy", "Atom.copy() shares state with the original")
        cp.coord[0] += 1
        cp.res_id = 12345
        if (nan_free and x != y) or x == cp or not (x != cp):
            bad("atom-eq", "a modified copy still compares equal / the original changed")
        if x == "atom" or struc.coord(x) is not x.coord:
            bad("atom-eq", "Atom == str / coord(atom)")
        if nan_free and len(c0.atoms) > 1 and c0.atoms[i].ann != c0.atoms[i - 1].ann and x == a0[i - 1]:
            bad("atom-eq", "different atoms compare equal")
    # coord() of plain data is float32
    for data in ([[1, 2, 3]], np.array([[1.5, 2, 3]]), np.array([[1, 2, 3]], dtype=np.float32)):
        r = struc.coord(data)
        if r.dtype != np.float32 or r.tolist() != np.asarray(data, dtype=float).tolist():
            bad("coord", f"coord({type(data).__name__}) -> {r.dtype}")
    # fresh containers: mandatory categories, NaN coordinates, no box / bonds
    for fresh, shp in ((AtomArray(3), (3, 3)), (AtomArrayStack(2, 3), (2, 3, 3)), (AtomArray(0), (0, 3)), (AtomArrayStack(0, 0), (0, 0, 3))):
        if (sorted(fresh.get_annotation_categories()) != sorted(MAND) or fresh.coord.shape != shp or fresh.coord.dtype != np.float32
                or not np.isnan(fresh.coord).all() or fresh.box is not None or fresh.bonds is not None
                or any(len(fresh.get_annotation(k)) != shp[-2] for k in MAND)):
            bad("constructor", f"fresh {type(fresh).__name__}{shp}")
    return out

# ------------------------------------------------------------------ generator (tracks state with the reference model)
class Gen:
    def __init__(self, rng, malformed=False, vec=False):
        self.vec = vec
        self.rng, self.ref, self.ops = rng, Ref(), []
        self.tok = 10 + rng.randrange(0, 60)
        self.ctok = 100 + rng.randrange(0, 500)
        self.alias = {k: {k} for k in REGS}       # registers whose real objects may share memory
        self.malformed = malformed
        self.extra = rng.sample(["i_x", "f_y", "s_z", "b_w"], rng.choice([0, 0, 1, 1, 2, 3]))
        if "f_y" not in self.extra and rng.random() < 0.4:
            self.extra.append("f_y")      # float annotations (any width, possibly NaN) in most histories
        if vec:
            self.extra.append("v_k")      # an annotation of shape (n, 2): several values per atom

    # tokens
    def t(self, name="i"):
        if kind_of(name) == "b":
            return self.rng.randint(0, 1)
        if kind_of(name) == "f" and self.rng.random() < 0.3:
            return NAN_TOK
        self.tok = 10 + (self.tok - 9) % 90
        return self.tok

    def c(self):
        self.ctok = 100 + (self.ctok - 99) % 900
        return self.ctok

    def emit(self, op):
        """Append op if the reference accepts or rejects it cleanly; keep reference state in step."""
        self.ops.append(op)
        w = op.split()
        saved = dict(self.ref.r)
        try:
            self.ref.do(op)
        except Reject:
            return False
        if w[0] in ("get", "get2"):
            src = saved.get(w[2])
            atom_ix = (w[4] if w[0] == "get2" else (w[3] if isinstance(src, RC) and not src.stack else "e"))
            if ((atom_ix[0] == "n" and len(atom_ix) > 2) or atom_ix[0] in "rw") and isinstance(src, RC) and src.bonds is not None:
                # known finding (strided mask + bonds raises): keep the generator's view in step with the code
                self.ref.r = saved
                return False
        return True

    def fresh(self, d):
        for s in self.alias.values():
            s.discard(d)
        self.alias[d] = {d}

    def link(self, d, srcs):
        """d may now share memory with srcs (and, if the op failed, still with its old group): merge, never split."""
        g = {d} | self.alias[d]
        for s in srcs:
            g |= self.alias[s]
        for x in g:
            self.alias[x] = g

    def regs(self, pred):
        return [k for k in REGS if self.ref.r[k] is not None and pred(self.ref.r[k])]

    def containers(self, stack=None):
        return self.regs(lambda v: isinstance(v, RC) and (stack is None or v.stack == stack))

    def atoms(self):
        return self.regs(lambda v: isinstance(v, RA))

    # index of one axis of length n
    def index(self, n, kinds=None):
        rng = self.rng
        if kinds is None and rng.random() < 0.08:
            kinds = ["rmask", "warr"]          # read-only mask, byte-swapped index array
        kind = rng.choice(kinds or ["int", "int", "slice", "slice", "slice", "mask", "mask", "nmask", "blist",
                                    "arr", "arr", "uarr", "list", "ell"])
        if kind == "int":
            return "i" + str(rng.randint(-n - 2, n + 1) if rng.random() < 0.25 or n == 0 else rng.randint(-n, n - 1))
        if kind == "slice":
            f = lambda: rng.choice(["N", "N", str(rng.randint(-n - 2, n + 2))])  # noqa: E731
            step = rng.choice(["N", "N", "1", "2", "3", "-1", "-1", "-2", "-3", str(n + 1), str(-n - 1), "0" if rng.random() < 0.2 else "1"])
            return f"s{f()}:{f()}:{step}"
        if kind in ("mask", "nmask", "blist", "rmask"):
            ln = n if rng.random() < 0.93 else max(0, n + rng.choice([-1, 1, 2]))
            if ln == 0 and n > 0 and kind != "blist" and rng.random() < 0.6:
                ln = n + 1        # keep the size-0 ndarray mask rare: on a bonded container it is probed in a forked child
            p = rng.choice([0.2, 0.5, 0.8, 1.0])
            return {"mask": "m", "nmask": "n", "blist": "b", "rmask": "r"}[kind] + "".join("1" if rng.random() < p else "0" for _ in range(ln))
        if kind in ("arr", "uarr", "list", "warr"):
            ln = rng.choice([0, 1, 2, 2, 3, n, n])
            r = rng.random()
            lo = 0 if kind == "uarr" else -n
            if n == 0:
                xs = [] if r < 0.8 else [rng.randint(-1, 1) if kind != "uarr" else 0]
            elif r < 0.6:     # distinct atoms (a permutation prefix); negative spellings allowed
                xs = rng.sample(range(n), min(ln, n))
                if kind != "uarr":
                    xs = [x - n if rng.random() < 0.3 else x for x in xs]
            elif r < 0.8:     # sorted
                xs = sorted(rng.sample(range(n), min(ln, n)))
            elif r < 0.93:    # duplicates possible
                xs = [rng.randint(lo, n - 1) for _ in range(ln)]
            else:             # out of range
                xs = [rng.randint(lo - (2 if kind != "uarr" else 0), n + 1) for _ in range(max(1, ln))]
            return {"arr": "a", "uarr": "u", "list": "l", "warr": "w"}[kind] + (toks(xs) if xs else ("_" if kind != "list" or True else ""))
        return "e"

    def bonds(self, n):
        rng = self.rng
        if n < 2:
            return "_" if rng.random() < 0.7 else "-"
        r = rng.random()
        if r < 0.3:
            return "-"
        pairs = set()
        for _ in range(rng.randint(0, 2 * n)):
            i, j = rng.sample(range(n), 2)
            pairs.add((min(i, j), max(i, j)))
        return enc_bonds([(i, j, rng.randint(0, 8)) for i, j in sorted(pairs)])

    def new(self, d, stack=None, like=None, vary_box=False):
        rng = self.rng
        stack = rng.random() < 0.4 if stack is None else stack
        n = rng.choice([0, 1, 2, 3, 3, 4, 5, 5, 6, 7, 9]) if like is None else len(like.atoms)
        depth = rng.choice([0, 1, 2, 2, 3, 4]) if stack else 1
        names = MAND + self.extra
        if like is not None:
            cols = [(k, [a.ann[k] for a in like.atoms]) for k in sorted(like.names)]
        else:
            cols = [(k, [self.t(k) for _ in range(n)]) for k in names]
        coord = [[self.c() for _ in range(n)] for _ in range(depth)]
        box = None if rng.random() < 0.4 else [self.c() for _ in range(depth)]
        if like is not None:
            box = None if like.boxes is None else [self.c() for _ in range(depth)]
            if vary_box and rng.random() < 0.25:
                box = [self.c() for _ in range(depth)] if box is None else None
            bonds = enc_bonds(sorted(_bondset(like))) if like.bonds is not None else "-"
        else:
            bonds = self.bonds(n)
        self.emit(f"new {d} {'S' if stack else 'A'} {n} {enc_cols(cols)} {enc_coord(coord)} {enc_box(box)} {bonds}")
        self.fresh(d)

    def atom(self, d, names=None):
        names = sorted(set(MAND + self.extra) | set(names or []))
        self.emit(f"atom {d} {enc_cols([(k, [self.t(k)]) for k in names])} {self.c()}")
        self.fresh(d)

    def step(self):
        rng = self.rng
        cs = self.containers()
        if not cs:
            return self.new(rng.choice(REGS))
        o = rng.choice(["get", "get", "get", "get", "get2", "get2", "get2", "set", "set", "del", "del", "concat", "concat",
                        "stack", "repeat", "tmpl", "array", "addann", "setann", "delann", "setcoord", "setbox",
                        "setbonds", "copy", "copy", "eq", "new", "atom"])
        if self.vec:
            # Atom objects and repeat()/add_annotation are not defined for array-valued annotation values
            o = rng.choice(["get", "get", "get2", "del", "del", "del", "concat", "stack", "tmpl", "setann", "delann", "setcoord",
                            "copy", "eq", "new"])
        d = rng.choice(REGS)
        s = rng.choice(cs)
        c = self.ref.r[s]
        n = len(c.atoms)
        if o == "new":
            return self.new(d)
        if o == "atom":
            return self.atom(d, c.names)
        if o == "get":
            ix = self.index(c.depth if c.stack else n)
            self.emit(f"get {d} {s} {ix}")
            self.link(d, [s])
            return
        if o == "get2":
            st = self.containers(True)
            if st and rng.random() < 0.85:
                s = rng.choice(st)
                c = self.ref.r[s]
                n = len(c.atoms)
                i0 = self.index(c.depth, ["int", "slice", "slice", "mask", "arr", "list", "ell", "ell", "ell"])
                i1 = self.index(n, ["int", "int", "int", "slice", "slice", "mask", "nmask", "blist", "arr", "uarr", "list", "ell"] if rng.random() < 0.9 else ["ell"])
            else:
                i0 = "e" if rng.random() < 0.8 else self.index(1)
                i1 = self.index(n)
            self.emit(f"get2 {d} {s} {i0} {i1}")
            self.link(d, [s])
            return
        if o == "set":
            if len(self.alias[s]) > 1:
                self.emit(f"copy {s} {s}")
                self.fresh(s)
            if not c.stack:
                ats = self.atoms()
                ok = [a for a in ats if c.names <= set(self.ref.r[a].ann)]
                if ats and rng.random() < 0.12:
                    ok = ats              # possibly an atom that lacks a category: refused, nothing may change
                if not ok:
                    return self.atom(d, c.names)
                ix = self.index(n, ["int", "int", "int", "mask", "arr", "uarr", "rmask", "warr", "nmask"] + (["slice", "list"] if self.malformed else []))
                self.emit(f"set {s} {ix} {rng.choice(ok)}")
            else:
                # a model (AtomArray) with equal annotations and bonds: build one
                v = d if d != s else next(x for x in REGS if x != s)
                if rng.random() < 0.5 and c.depth:
                    self.emit(f"get {v} {s} i{rng.randrange(c.depth)}")
                    self.emit(f"copy {v} {v}")
                    if self.ref.r[v] is not None and isinstance(self.ref.r[v], RC):
                        self.emit(f"setcoord {v} {enc_coord([[self.c() for _ in range(n)]])}")
                        if c.boxes is not None:
                            self.emit(f"setbox {v} {self.c()}")
                    self.fresh(v)
                else:
                    self.new(v, stack=False, like=c, vary_box=True)      # box presence may differ from the stack's
                if rng.random() < 0.15 and isinstance(self.ref.r[v], RC) and not self.ref.r[v].stack:
                    self.emit(f"setbox {v} {'-' if self.ref.r[v].boxes is not None else self.c()}")
                self.emit(f"set {s} {self.index(c.depth, ['int'])} {v}")
            return
        if o == "del":
            ix = self.index(c.depth if c.stack else n, ["int"] * 9 + (["slice"] if True else []))
            self.emit(f"del {s} {ix}")
            return
        if o in ("concat", "stack"):
            k = rng.choice([1, 2, 2, 2, 3])
            pool = self.containers(c.stack) if (o == "concat" and rng.random() < 0.9) else (self.containers(False) if o == "stack" else cs)
            if o == "stack" and (not pool or rng.random() < 0.7):
                # equal annotations are required: derive siblings of one array
                src = rng.choice(pool) if pool else None
                if src is None:
                    return self.new(d, stack=False)
                others = [x for x in REGS if x != src][:k - 1]
                for x in others:
                    self.new(x, stack=False, like=self.ref.r[src], vary_box=True)
                lst = [src] + others
                rng.shuffle(lst)
            else:
                if not pool:
                    return
                lst = [rng.choice(pool) for _ in range(k)]
                if rng.random() < 0.03:
                    lst = []
            self.emit(f"{o} {d} {','.join(lst) or '_'}")
            self.link(d, lst)     # stack shares annotations/bonds, concatenate shares the box
            return
        if o == "array":
            ats = self.atoms()
            if len(ats) < 1 or rng.random() < 0.3:
                # harvest atoms from a container first
                src = self.containers(False)
                if src and n:
                    s2 = rng.choice(src)
                    m = len(self.ref.r[s2].atoms)
                    if m:
                        for x in rng.sample(REGS, 2):
                            if x != s2 and self.emit(f"get {x} {s2} i{rng.randrange(m)}"):
                                self.fresh(x)
                ats = self.atoms()
            lst = [rng.choice(ats) for _ in range(rng.choice([1, 2, 3, 4]))] if ats else []
            if self.emit(f"array {d} {','.join(lst) or '_'}"):
                self.fresh(d)
            return
        if o == "repeat":
            k = rng.choice([0, 1, 2, 2, 3])
            cnt = k * c.depth * n
            if self.malformed and rng.random() < 0.3:
                cnt += c.depth * k
            if self.emit(f"repeat {d} {s} {k} {toks(self.c() for _ in range(cnt))}"):
                self.fresh(d)
            return
        if o == "tmpl":
            m = rng.choice([0, 1, 2, 3])
            nn = n if not (self.malformed and rng.random() < 0.3) else n + 1
            coord = [[self.c() for _ in range(nn)] for _ in range(m)]
            box = None if rng.random() < 0.5 else [self.c() for _ in range(m if rng.random() < 0.8 else m + rng.choice([1, 2]))]
            self.emit(f"tmpl {d} {s} {enc_coord(coord)} {enc_box(box)}")
            self.link(d, [s])
            return
        if o == "addann":
            self.emit(f"addann {s} {rng.choice(['i_x', 'f_y', 's_z', 'b_w', 'i_q'])}")
            return
        if o == "setann":
            name = rng.choice(sorted(c.names) + ["i_x", "s_z", "i_q"])
            ln = n if not (self.malformed or rng.random() < 0.05) else n + rng.choice([-1, 1])
            self.emit(f"setann {s} {name} {toks(self.t(name) for _ in range(max(0, ln)))}")
            return
        if o == "delann":
            self.emit(f"delann {s} {rng.choice(['i_x', 'f_y', 's_z', 'b_w', 'i_q', 'i_q'])}")
            return
        if o == "setcoord":
            # a stack may change its depth by coordinate assignment, unless it has a box (then refused)
            m = c.depth if (rng.random() < (0.8 if c.boxes is not None else 0.6) or not c.stack) else rng.choice([0, 1, 2, 3])
            nn = n if rng.random() < 0.9 else n + 1
            self.emit(f"setcoord {s} {enc_coord([[self.c() for _ in range(nn)] for _ in range(m)])}")
            return
        if o == "setbox":
            m = c.depth if (not c.stack or rng.random() < 0.8) else max(0, c.depth + rng.choice([-1, 1, 2]))   # wrong depth: refused
            self.emit(f"setbox {s} {enc_box(None if rng.random() < 0.3 else [self.c() for _ in range(m)])}")
            return
        if o == "setbonds":
            self.emit(f"setbonds {s} {self.bonds(n)}")
            return
        if o == "copy":
            s = rng.choice(self.regs(lambda v: True))
            self.emit(f"copy {d} {s}")
            self.fresh(d)
            return
        if o == "eq":
            self.emit(f"eq {s} {rng.choice(cs)}")
            return


def _history(rng, n_ops, malformed=False, vec=False):
    g = Gen(rng, malformed, vec)
    for k in range(rng.choice([1, 1, 2, 3])):
        g.new(REGS[k])
    guard = 0
    while len(g.ops) < n_ops and guard < 4 * n_ops:
        g.step()
        guard += 1
    case = {"kind": "malformed" if malformed else ("vector-annotation" if vec else "history"), "ops": g.ops}
    if malformed:
        case["malformed"] = True
    return case


def _exhaustive(rng):
    """{index kinds} x n <= 4 x depth <= 2, on containers with bonds and box; one case per container shape."""
    out = []
    for n in range(0, 5):
        for depth in (None, 0, 1, 2):
            g = Gen(rng)
            g.extra = ["i_x"]
            stack = depth is not None
            cols = [(k, [g.t(k) for _ in range(n)]) for k in MAND + g.extra]
            m = depth if stack else 1
            bonds = enc_bonds([(i, i + 1, 1 + i) for i in range(n - 1)] + ([(0, n - 1, 5)] if n > 2 else []))
            for with_b in (True, False):
                head = (f"new r0 {'S' if stack else 'A'} {n} {enc_cols(cols)} {enc_coord([[g.c() for _ in range(n)] for _ in range(m)])} "
                        f"{enc_box([g.c() for _ in range(m)])} {bonds if with_b else '-'}")
                idx = [f"i{i}" for i in range(-n - 1, n + 1)]
                idx += [f"s{a}:{b}:{c}" for a in ("N", "-1", "1", str(n)) for b in ("N", "0", "-1", str(n + 1)) for c in ("N", "-1", "2", "-2")]
                masks = ["".join(bits) for bits in __import__("itertools").product("01", repeat=n)]
                idx += ["m" + x for x in masks[:8]] + ["b" + x for x in masks[-3:]] + ["n" + x for x in masks[-2:]]
                idx += ["a_", "l_", "e"] + [f"a{i},{j}" for i in range(-n, n) for j in range(0, n) if (i % max(n, 1)) != j][:10]
                idx += [f"u{n - 1},0"] if n > 1 else []
                ops = [head]
                if stack:
                    for i1 in idx:
                        ops.append(f"get2 r1 r0 e {i1}")
                    for i0 in [f"i{i}" for i in range(-m - 1, m + 1)] + ["sN:N:-1", "s1:N:N", "m" + "1" * m, "a_", "l0" if m else "l_"]:
                        ops.append(f"get r1 r0 {i0}")
                        ops.append(f"get2 r1 r0 {i0} {rng.choice(idx)}")
                else:
                    for i1 in idx:
                        ops.append(f"get r1 r0 {i1}")
                for i in range(-n - 1, n + 1) if not stack else range(-m - 1, m + 1):
                    ops += ["copy r2 r0", f"del r2 i{i}"]
                out.append({"kind": "exhaustive", "ops": ops})
    return out


def cases(rng, tier):
    n_hist, n_mal = (800, 120) if tier == "quick" else (8000, 1000)
    for _ in range(n_hist):
        yield _history(rng, rng.randint(1, 25))
    for _ in range(n_mal):
        yield _history(rng, rng.randint(2, 12), malformed=True)
    for _ in range(60 if tier == "quick" else 600):
        yield _api_case(rng)
    for _ in range(80 if tier == "quick" else 600):
        yield _history(rng, rng.randint(3, 14), vec=True)
    if tier == "thorough":
        yield from _exhaustive(rng)
    else:
        ex = _exhaustive(rng)
        yield from rng.sample(ex, 10)


def _nan_case(fy):
    """copy / == / stack / model assignment with a float annotation that contains NaN (token 7); width by sum % 3"""
    a = ("new r0 A 2 chain_id=16,24;res_id=21,22;ins_code=16,24;res_name=16,17;hetero=0,1;atom_name=16,17;element=16,24;"
         f"f_y={fy} 101,102 201 0:1:1")
    return {"kind": "regress", "ops": [a, "copy r1 r0", "eq r0 r1", "setcoord r1 103,104", "stack r2 r0,r1", "copy r3 r0",
                                       "setcoord r3 105,106", "setbox r3 202", "set r2 i-1 r3", "get r1 r2 i1", "eq r1 r3",
                                       "setann r3 f_y 9,9", "stack r1 r0,r3", "eq r0 r3"]}


def corpus():
    base = "new r0 S 3 chain_id=11,12,13;res_id=21,22,23;ins_code=31,32,33;res_name=41,42,43;hetero=0,1,0;atom_name=51,52,53;element=61,62,63 101,102,103/104,105,106 201,202 0:1:1,1:2:2"
    arr = "new r0 A 4 chain_id=11,12,13,14;res_id=21,22,23,24;ins_code=31,32,33,34;res_name=41,42,43,44;hetero=0,1,0,1;atom_name=51,52,53,54;element=61,62,63,64 101,102,103,104 201 0:1:1,1:2:2,0:3:4"
    vec = ("new r0 A 3 chain_id=16,17,24;res_id=21,22,23;ins_code=16,17,24;res_name=16,17,18;hetero=0,1,0;atom_name=16,17,18;"
           "element=16,17,24;v_k=31,41,51 101,102,103 201 0:1:1,1:2:2")
    return [
        {"kind": "regress", "ops": [vec, "copy r1 r0", "del r1 i1", "del r1 i-1", "get r2 r0 a2,0", "concat r3 r0,r2", "del r3 i0",
                                    "get r2 r3 i1", "eq r0 r1"]},          # annotation with several values per atom
        _nan_case("7,11"), _nan_case("7,12"), _nan_case("7,10"),     # float16, float32, float64
        {"kind": "regress", "ops": [base, "get2 r1 r0 sN:N:N i-1", "get2 r1 r0 e i-3", "get2 r1 r0 sN:N:N i3", "get2 r1 r0 e i-4", "get2 r1 r0 l1,0 i2"]},
        {"kind": "regress", "ops": [base, "del r0 i0", "del r0 i-1", "del r0 i0"]},
        {"kind": "regress", "ops": [arr, "get r1 r0 a3,0,-3", "get r2 r0 sN:N:-1", "get r3 r0 m0111", "copy r1 r0", "del r1 i1", "concat r2 r1,r0,r1", "repeat r3 r0 2 301,302,303,304,305,306,307,308"]},
        {"kind": "regress", "ops": [arr, "copy r1 r0", "atom r2 chain_id=71;res_id=72;ins_code=73;res_name=74;hetero=1;atom_name=75;element=76 900", "set r1 i-1 r2", "set r0 m1010 r2", "eq r0 r1"]},
    ]


def nontrivial(case, impl_out):
    ops = case.get("ops") or []
    if "api" in case:
        ops = case["api"]["new"] + ["", ""]
    if len(ops) < 3:
        return False
    return any(re.match(r"new \S+ [AS] ([2-9])", o) for o in ops)


def signature(case):
    return "|".join(case.get("ops") or case.get("api", {}).get("new", []))


def distribution(cases, impl_outs):
    opk, outc, idxk = {}, {}, {}
    for c, o in zip(cases, impl_outs):
        for op, line in zip(c.get("ops") or [], o or []):
            w = op.split()
            opk[w[0]] = opk.get(w[0], 0) + 1
            k = line.split(" ")[0]
            outc[k] = outc.get(k, 0) + 1
            if w[0] in ("get", "get2", "set", "del"):
                ic = _op_class(op).split("/", 1)[1]
                idxk[ic] = idxk.get(ic, 0) + 1
    return {"ops": opk, "outcomes": outc, "index_classes": idxk}


def search(rng, problems, tier):
    for _ in range(600 if tier == "quick" else 4000):
        yield _history(rng, rng.randint(1, 25))
    yield from _exhaustive(rng)


def shrink(case, key):
    from common import util
    ops = case.get("ops") or []

    def fails(cand):
        try:
            return any(k == key for k, _ in oracle(dict(case, ops=cand)))
        except Exception:  # noqa: BLE001
            return False
    if not fails(ops):
        return case
    return dict(case, ops=util.shrink_list(ops, fails, max_steps=150))


# ------------------------------------------------------------------ translator (Gen): copy paths + guards of atoms.py
def gen_lean():
    import ast
    from common import paths
    path = os.path.join(paths.SRC, "biotite/structure/atoms.py")
    tree = ast.parse(open(path).read())
    classes = {n.name: n for n in tree.body if isinstance(n, ast.ClassDef)}
    funcs = {n.name: n for n in tree.body if isinstance(n, ast.FunctionDef)}

    roles = _private_roles(tree)

    def method(cls, name):
        actual = next((k for k, v in roles.items() if v == name), name)   # private helpers by role, not by name
        for n in classes[cls].body:
            if isinstance(n, ast.FunctionDef) and n.name == actual:
                return n
        raise ValueError(f"{cls}.{name} not found")

    def self_attrs_assigned(fn, obj="self"):
        out = []
        for n in ast.walk(fn):
            if isinstance(n, (ast.Assign, ast.AugAssign)):
                tg = n.targets if isinstance(n, ast.Assign) else [n.target]
                for t in tg:
                    base = t
                    while isinstance(base, ast.Subscript):
                        base = base.value
                    if isinstance(base, ast.Attribute) and isinstance(base.value, ast.Name) and base.value.id == obj:
                        if base.attr not in out:
                            out.append(base.attr)
        return out

    # Every table is extracted on its own; when the source has lost the expected shape the table becomes a sentinel
    # (`<not found: …>`), so that the NAMED Lean obligation about it breaks instead of the extractor crashing.
    def guarded(f, sentinel):
        try:
            return f()
        except Exception as e:  # noqa: BLE001
            return sentinel(f"<not found: {type(e).__name__}: {str(e)[:80]}>".replace('"', "'"))

    init_fields = guarded(lambda: self_attrs_assigned(method("_AtomArrayBase", "__init__")), lambda m: [m])

    def copy_path():
        copied = []
        for mname in ("__copy_fill__", "_copy_annotations"):
            fn = method("_AtomArrayBase", mname)
            if len(fn.args.args) != 2:
                raise ValueError(f"{mname}: expected the signature (self, clone)")
            clone_name = fn.args.args[1].arg          # whatever the second parameter is called
            for n in ast.walk(fn):
                if isinstance(n, ast.Assign):
                    for t in n.targets:
                        base = t
                        while isinstance(base, ast.Subscript):
                            base = base.value
                        if isinstance(base, ast.Attribute) and isinstance(base.value, ast.Name) and base.value.id == clone_name:
                            # the right-hand side must be a fresh object: np.copy(...) or x.copy()
                            v = n.value
                            fresh = isinstance(v, ast.Call) and isinstance(v.func, ast.Attribute) and v.func.attr == "copy"
                            copied.append((base.attr, fresh))
        if not copied:
            raise ValueError("no attribute of the clone is assigned in the copy path")
        return copied
    copied = guarded(copy_path, lambda m: [(m, False)])

    def copy_create():
        creates = []
        for cls in ("AtomArray", "AtomArrayStack"):
            fn = method(cls, "__copy_create__")
            ret = next((n for n in ast.walk(fn) if isinstance(n, ast.Return)), None)
            if ret is None or not isinstance(ret.value, ast.Call):
                raise ValueError(f"{cls}.__copy_create__ has no constructor call")
            args = [ast.unparse(a).replace("self.", "") for a in ret.value.args]
            creates.append((cls, ast.unparse(ret.value.func), args))
        return creates
    creates = guarded(copy_create, lambda m: [(m, "", [])])
    del_stack = guarded(lambda: self_attrs_assigned(method("AtomArrayStack", "__delitem__")), lambda m: [m])
    del_elem = guarded(lambda: self_attrs_assigned(method("_AtomArrayBase", "_del_element")), lambda m: [m])

    def subarray_fields():
        sub_fn = method("_AtomArrayBase", "_subarray")
        sub_objs = {t.id for n in ast.walk(sub_fn) if isinstance(n, ast.Assign) and isinstance(n.value, ast.Call)
                    and isinstance(n.value.func, ast.Name) and n.value.func.id in ("AtomArray", "AtomArrayStack")
                    for t in n.targets if isinstance(t, ast.Name)}
        if len(sub_objs) != 1:
            raise ValueError("_subarray: expected one local holding the new AtomArray/AtomArrayStack")
        return self_attrs_assigned(sub_fn, sub_objs.pop())
    sub_new = guarded(subarray_fields, lambda m: [m])

    def mandatory_table():
        """(category, dtype) of the add_annotation calls of __init__: literal calls, or one call in a loop over a
        module-level literal table of pairs."""
        init = method("_AtomArrayBase", "__init__")
        out = []

        def dtype_text(dt):
            return dt.value if isinstance(dt, ast.Constant) else ast.unparse(dt)
        consts = {t.id: n.value for n in tree.body if isinstance(n, ast.Assign) for t in n.targets if isinstance(t, ast.Name)}
        for st in init.body:
            calls = [n for n in ast.walk(st) if isinstance(n, ast.Call) and isinstance(n.func, ast.Attribute)
                     and n.func.attr == "add_annotation"]
            if not calls:
                continue
            if isinstance(st, ast.For) and isinstance(st.iter, ast.Name) and st.iter.id in consts and isinstance(
                    consts[st.iter.id], (ast.Tuple, ast.List)) and isinstance(st.target, ast.Tuple) and len(st.target.elts) == 2:
                c = calls[0]
                names = [e.id for e in st.target.elts if isinstance(e, ast.Name)]
                dt = next((k.value for k in c.keywords if k.arg == "dtype"), c.args[1] if len(c.args) > 1 else None)
                if (len(calls) != 1 or len(names) != 2 or not c.args or not isinstance(c.args[0], ast.Name) or c.args[0].id != names[0]
                        or not isinstance(dt, ast.Name) or dt.id != names[1]):
                    raise ValueError("add_annotation loop of __init__ has an unexpected shape")
                for row in consts[st.iter.id].elts:
                    if not isinstance(row, (ast.Tuple, ast.List)) or len(row.elts) != 2 or not isinstance(row.elts[0], ast.Constant):
                        raise ValueError("table of mandatory annotations is not a literal list of pairs")
                    out.append((row.elts[0].value, dtype_text(row.elts[1])))
            else:
                for c in calls:
                    dt = next((k.value for k in c.keywords if k.arg == "dtype"), c.args[1] if len(c.args) > 1 else None)
                    if not c.args or not isinstance(c.args[0], ast.Constant) or dt is None:
                        raise ValueError("add_annotation call of __init__ is not literal")
                    out.append((c.args[0].value, dtype_text(dt)))
        if not out:
            raise ValueError("no add_annotation call found in __init__")
        return out
    mand_dt = guarded(mandatory_table, lambda m: [(m, "")])
    mand = [a for a, _ in mand_dt]

    def sl(xs):
        return "[" + ", ".join('"' + x + '"' for x in xs) + "]"
    body = [
        "/- REGENERATED on every run by harness/props/c01.py from structure/atoms.py. Do not edit. -/",
        "namespace BiotiteModel.Gen.C01",
        "/-- attributes assigned in `_AtomArrayBase.__init__` -/",
        f"def initFields : List String := {sl(init_fields)}",
        "/-- (attribute of `clone` assigned in `__copy_fill__`/`_copy_annotations`, right-hand side is a `.copy(...)` call) -/",
        "def copiedFields : List (String × Bool) := [" + ", ".join(f'("{a}", {"true" if f else "false"})' for a, f in copied) + "]",
        "/-- `__copy_create__`: (class, constructor called, arguments) -/",
        "def copyCreate : List (String × String × List String) := [" + ", ".join(f'("{c}", "{f}", {sl(a)})' for c, f, a in creates) + "]",
        "/-- attributes re-assigned by `AtomArrayStack.__delitem__` -/",
        f"def delModelFields : List String := {sl(del_stack)}",
        "/-- attributes re-assigned by `_AtomArrayBase._del_element` -/",
        f"def delAtomFields : List String := {sl(del_elem)}",
        "/-- attributes of the new object assigned by `_subarray` -/",
        f"def subarrayFields : List String := {sl(sub_new)}",
        "/-- mandatory annotation categories created by `__init__` -/",
        f"def mandatory : List String := {sl(mand)}",
        "/-- (category, dtype given to `add_annotation` in `__init__`) -/",
        "def mandatoryDtypes : List (String × String) := [" + ", ".join(f'("{a}", "{b}")' for a, b in mand_dt) + "]",
        "end BiotiteModel.Gen.C01", ""]
    return {"BiotiteModel/Gen/C01.lean": "\n".join(body), "BiotiteModel/Gen/C01Skel.lean": _skel_lean("Gen")}


# ------------------------------------------------------------------ translator, part 2: normalised skeletons
SKEL_PY = [  # (file, class or None, function) of the anchored Python code the hand-written model was written against
    ("structure/atoms.py", "_AtomArrayBase", f) for f in (
        "__init__", "array_length", "add_annotation", "del_annotation", "get_annotation", "set_annotation",
        "get_annotation_categories", "_subarray", "_set_element", "_del_element", "equal_annotations",
        "equal_annotation_categories", "__getattr__", "__setattr__", "__eq__", "__len__", "__add__", "__copy_fill__",
        "_copy_annotations")] + [
    ("structure/atoms.py", "Atom", f) for f in ("__init__", "__eq__", "__ne__", "__copy_create__")] + [
    ("structure/atoms.py", "AtomArray", f) for f in (
        "__init__", "get_atom", "__iter__", "__getitem__", "__setitem__", "__delitem__", "__len__", "__eq__", "__copy_create__")] + [
    ("structure/atoms.py", "AtomArrayStack", f) for f in (
        "__init__", "get_array", "stack_depth", "__iter__", "__getitem__", "__setitem__", "__delitem__", "__len__", "__eq__",
        "__copy_create__")] + [
    ("structure/atoms.py", None, f) for f in ("array", "stack", "concatenate", "repeat", "from_template", "coord")] + [
    ("copyable.py", "Copyable", f) for f in ("copy", "__copy_create__", "__copy_fill__")]
SKEL_PYX = ["__getitem__", "concatenate", "__copy_create__", "__copy_fill__", "__eq__", "_invert_index",
            "_to_positive_index_array", "_to_index_array"]     # structure/bonds.pyx: index relabelling only


# ---- structural discovery of the private helpers (their names are not significant)
ROLE_SITES = [   # (class, caller, canonical label): the private method `caller` invokes on self
    ("AtomArray", "__getitem__", "_subarray"),
    ("AtomArray", "__setitem__", "_set_element"),
    ("AtomArray", "__delitem__", "_del_element"),
    ("_AtomArrayBase", "__copy_fill__", "_copy_annotations"),
]


def _is_private(name):
    return name.startswith("_") and not (name.startswith("__") and name.endswith("__"))


def _private_roles(tree):
    """{actual private method name: canonical label}, found by who calls it, not by what it is called."""
    import ast
    classes = {n.name: n for n in tree.body if isinstance(n, ast.ClassDef)}
    defined = {f.name for c in classes.values() for f in c.body if isinstance(f, ast.FunctionDef) and _is_private(f.name)}
    roles = {}
    for cls, caller, label in ROLE_SITES:
        c = classes.get(cls)
        fn = next((f for f in (c.body if c else []) if isinstance(f, ast.FunctionDef) and f.name == caller), None)
        if fn is None:
            continue
        called = []
        for n in ast.walk(fn):
            if (isinstance(n, ast.Call) and isinstance(n.func, ast.Attribute) and isinstance(n.func.value, ast.Name)
                    and n.func.value.id == "self" and n.func.attr in defined and n.func.attr not in called):
                called.append(n.func.attr)
        if len(called) != 1:
            continue          # the label stays unresolved: its skeleton becomes `<not found>` and the named obligation breaks
        roles[called[0]] = label
    return roles


def _normalise_function(fn, roles):
    """Behaviour-preserving canonical form of a function (a deep copy): private helper names -> canonical labels,
    `x.__getitem__(i)` -> `x[i]`, `for k, v in d.items()` -> key loop, chained comparisons split, `not` pushed inwards
    (De Morgan, negated operator), constants on the right of a comparison, `if c: A else: <raise/return>` -> guard
    clause, asserts that cannot fire dropped.  Operators, constants, order of checks, classes stay significant."""
    import ast
    import copy
    fn = copy.deepcopy(fn)
    NEG = {ast.Eq: ast.NotEq, ast.NotEq: ast.Eq, ast.Lt: ast.GtE, ast.GtE: ast.Lt, ast.Gt: ast.LtE, ast.LtE: ast.Gt,
           ast.Is: ast.IsNot, ast.IsNot: ast.Is, ast.In: ast.NotIn, ast.NotIn: ast.In}
    FLIP = {ast.Lt: ast.Gt, ast.Gt: ast.Lt, ast.LtE: ast.GtE, ast.GtE: ast.LtE, ast.Eq: ast.Eq, ast.NotEq: ast.NotEq}

    def negate(e):
        if isinstance(e, ast.UnaryOp) and isinstance(e.op, ast.Not):
            return e.operand
        if isinstance(e, ast.Compare) and len(e.ops) == 1 and type(e.ops[0]) in NEG:
            return ast.Compare(left=e.left, ops=[NEG[type(e.ops[0])]()], comparators=e.comparators)
        if isinstance(e, ast.BoolOp):
            return ast.BoolOp(op=ast.Or() if isinstance(e.op, ast.And) else ast.And(), values=[negate(v) for v in e.values])
        return ast.UnaryOp(op=ast.Not(), operand=e)

    class Expr(ast.NodeTransformer):
        def visit_Call(self, node):
            self.generic_visit(node)
            if (isinstance(node.func, ast.Attribute) and node.func.attr == "__getitem__" and len(node.args) == 1
                    and not node.keywords):
                return ast.Subscript(value=node.func.value, slice=node.args[0], ctx=ast.Load())
            return node

        def visit_Attribute(self, node):
            self.generic_visit(node)
            if node.attr in roles:
                node.attr = roles[node.attr]
            return node

        def visit_Compare(self, node):
            self.generic_visit(node)
            if len(node.ops) > 1:                      # a < b < c  ->  a < b and b < c
                parts, left = [], node.left
                for op, right in zip(node.ops, node.comparators):
                    parts.append(self.orient(ast.Compare(left=left, ops=[op], comparators=[right])))
                    left = right
                return ast.BoolOp(op=ast.And(), values=parts)
            return self.orient(node)

        @staticmethod
        def orient(c):
            if isinstance(c.left, ast.Constant) and not isinstance(c.comparators[0], ast.Constant) and type(c.ops[0]) in FLIP:
                return ast.Compare(left=c.comparators[0], ops=[FLIP[type(c.ops[0])]()], comparators=[c.left])
            return c

        def visit_UnaryOp(self, node):
            self.generic_visit(node)
            if isinstance(node.op, ast.Not):
                return negate(node.operand)
            return node

    def subst(body, name, repl):
        class S(ast.NodeTransformer):
            def visit_Name(self, node):
                if node.id == name and isinstance(node.ctx, ast.Load):
                    return copy.deepcopy(repl)
                return node
        return [S().visit(b) for b in body]

    def terminates(stmts):
        if not stmts:
            return False
        last = stmts[-1]
        if isinstance(last, ast.If):
            return bool(last.orelse) and terminates(last.body) and terminates(last.orelse)
        return isinstance(last, (ast.Raise, ast.Return, ast.Continue, ast.Break))

    def size(stmts):
        return sum(1 + sum(size(getattr(st, f, []) or []) for f in ("body", "orelse")) for st in stmts)

    def nonneg_source(e):
        return ((isinstance(e, ast.Call) and isinstance(e.func, ast.Name) and e.func.id == "len")
                or (isinstance(e, ast.Subscript) and isinstance(e.value, ast.Attribute) and e.value.attr == "shape"))

    single = {}      # locals assigned exactly once, from `len(...)` / `x.shape[i]`
    for n in ast.walk(fn):
        if isinstance(n, ast.Name) and isinstance(n.ctx, ast.Store):
            single[n.id] = single.get(n.id, 0) + 1
    nonneg = {t.id for n in ast.walk(fn) if isinstance(n, ast.Assign) and len(n.targets) == 1
              for t in n.targets if isinstance(t, ast.Name) and single.get(t.id) == 1 and nonneg_source(n.value)}

    def nn_const(e):
        return isinstance(e, ast.Constant) and isinstance(e.value, int) and not isinstance(e.value, bool) and e.value >= 0
    stores = {}      # counters: every store is `= <int >= 0>` or `+= <int >= 0>`
    for n in ast.walk(fn):
        if isinstance(n, ast.Assign):
            for t in n.targets:
                for nm in [x for x in ast.walk(t) if isinstance(x, ast.Name)]:
                    stores.setdefault(nm.id, []).append(len(n.targets) == 1 and isinstance(t, ast.Name) and nn_const(n.value))
        elif isinstance(n, ast.AugAssign) and isinstance(n.target, ast.Name):
            stores.setdefault(n.target.id, []).append(isinstance(n.op, ast.Add) and nn_const(n.value))
        elif isinstance(n, (ast.For, ast.comprehension)):
            for nm in [x for x in ast.walk(n.target) if isinstance(x, ast.Name)]:
                stores.setdefault(nm.id, []).append(False)
    params_all = {a.arg for a in fn.args.posonlyargs + fn.args.args + fn.args.kwonlyargs}
    nonneg |= {k for k, v in stores.items() if v and all(v) and k not in params_all}

    def vacuous_assert(st, prev):
        t = st.test
        if isinstance(t, ast.Compare) and len(t.ops) == 1 and isinstance(t.ops[0], ast.GtE) and isinstance(
                t.comparators[0], ast.Constant) and t.comparators[0].value == 0:
            left = t.left           # len(x) >= 0, x.shape[i] >= 0 (directly or through a local): cannot fire
            if isinstance(left, ast.Name) and left.id in nonneg:
                return True
            if isinstance(left, ast.Call) and isinstance(left.func, ast.Name) and left.func.id == "len":
                return True
            if isinstance(left, ast.Subscript) and isinstance(left.value, ast.Attribute) and left.value.attr == "shape":
                return True
        # `assert x.ndim == k` right after `if x.shape != (<k items>): raise …`
        if (isinstance(prev, ast.If) and not prev.orelse and terminates(prev.body) and isinstance(prev.test, ast.Compare)
                and len(prev.test.ops) == 1 and isinstance(prev.test.ops[0], ast.NotEq)
                and isinstance(prev.test.left, ast.Attribute) and prev.test.left.attr == "shape"
                and isinstance(prev.test.comparators[0], ast.Tuple)
                and isinstance(t, ast.Compare) and len(t.ops) == 1 and isinstance(t.ops[0], ast.Eq)
                and isinstance(t.left, ast.Attribute) and t.left.attr == "ndim"
                and ast.dump(t.left.value) == ast.dump(prev.test.left.value)
                and isinstance(t.comparators[0], ast.Constant) and t.comparators[0].value == len(prev.test.comparators[0].elts)):
            return True
        # `assert isinstance(x, Sequence)` right after `if not isinstance(x, Sequence): x = list(x)`
        if (isinstance(prev, ast.If) and not prev.orelse and len(prev.body) == 1 and isinstance(prev.body[0], ast.Assign)
                and isinstance(prev.body[0].value, ast.Call) and isinstance(prev.body[0].value.func, ast.Name)
                and prev.body[0].value.func.id in ("list", "tuple")
                and isinstance(t, ast.Call) and isinstance(t.func, ast.Name) and t.func.id == "isinstance" and len(t.args) == 2
                and isinstance(t.args[1], ast.Name) and t.args[1].id in ("Sequence", "Iterable", "Collection", "Sized")
                and ast.dump(negate(copy.deepcopy(prev.test))) == ast.dump(t)
                and len(prev.body[0].targets) == 1 and ast.dump(prev.body[0].targets[0])[:-13] == ast.dump(t.args[0])[:-12]):
            return True
        # `assert c` right after `if not c: raise …`
        if isinstance(prev, ast.If) and not prev.orelse and terminates(prev.body):
            return ast.dump(negate(copy.deepcopy(prev.test))) == ast.dump(t) or ast.dump(prev.test) == ast.dump(negate(copy.deepcopy(t)))
        return False

    def block(stmts):
        out = []
        for st in stmts:
            if isinstance(st, ast.Expr) and isinstance(st.value, ast.Constant) and isinstance(st.value.value, str):
                continue
            if isinstance(st, ast.For):
                it = st.iter
                if (isinstance(st.target, ast.Tuple) and len(st.target.elts) == 2 and isinstance(it, ast.Call)
                        and isinstance(it.func, ast.Attribute) and it.func.attr == "items" and not it.args
                        and all(isinstance(e, ast.Name) for e in st.target.elts)):
                    k, v = st.target.elts
                    d = it.func.value
                    stores = [n for b in st.body for n in ast.walk(b) if isinstance(n, ast.Name) and n.id == v.id and isinstance(n.ctx, ast.Store)]
                    if not stores:
                        st = ast.For(target=k, iter=d, orelse=st.orelse, body=subst(
                            st.body, v.id, ast.Subscript(value=copy.deepcopy(d), slice=ast.Name(id=k.id, ctx=ast.Load()), ctx=ast.Load())))
                st.body = block(st.body)
                out.append(st)
            elif isinstance(st, ast.While):
                st.body = block(st.body)
                out.append(st)
            elif isinstance(st, ast.Try):
                st.body = block(st.body)
                for h in st.handlers:
                    h.body = block(h.body)
                out.append(st)
            elif isinstance(st, ast.If):
                body, orelse = block(st.body), block(st.orelse)
                tb, to = terminates(body), bool(orelse) and terminates(orelse)
                if tb and to:                              # both leave: the smaller branch (a lone raise first) is the guard
                    key = lambda b: (size(b), 0 if isinstance(b[-1], ast.Raise) else 1)  # noqa: E731
                    to = key(orelse) < key(body)
                    tb = not to
                elif orelse and not tb and not to and isinstance(st.test, ast.UnaryOp) and isinstance(st.test.op, ast.Not):
                    st = ast.If(test=st.test.operand, body=st.orelse, orelse=st.body)     # positive test first
                    body, orelse = orelse, body
                if orelse and to:                          # if c: A else: <raise>   ->   if not c: <raise>; A
                    out.append(ast.If(test=negate(st.test), body=orelse, orelse=[]))
                    out.extend(body)
                elif orelse and tb:                        # if c: <return> else: B  ->   if c: <return>; B
                    out.append(ast.If(test=st.test, body=body, orelse=[]))
                    out.extend(orelse)
                else:
                    out.append(ast.If(test=st.test, body=body, orelse=orelse))
            elif isinstance(st, ast.Assert):
                if not vacuous_assert(st, out[-1] if out else None):
                    out.append(st)
            else:
                out.append(st)
        # `if c: return False` + `return True`  ->  `return not c`
        if (len(out) >= 2 and isinstance(out[-1], ast.Return) and isinstance(out[-1].value, ast.Constant)
                and out[-1].value.value is True and isinstance(out[-2], ast.If) and not out[-2].orelse
                and len(out[-2].body) == 1 and isinstance(out[-2].body[0], ast.Return)
                and isinstance(out[-2].body[0].value, ast.Constant) and out[-2].body[0].value.value is False):
            out[-2:] = [ast.Return(value=negate(out[-2].test))]
        # adjacent guards with the same leaving body: `if a: X` `if b: X`  ->  `if a or b: X`
        merged = []
        for st in out:
            if (merged and isinstance(st, ast.If) and isinstance(merged[-1], ast.If) and not st.orelse and not merged[-1].orelse
                    and terminates(st.body) and [ast.dump(x) for x in st.body] == [ast.dump(x) for x in merged[-1].body]):
                prev = merged[-1]
                vals = (prev.test.values if isinstance(prev.test, ast.BoolOp) and isinstance(prev.test.op, ast.Or) else [prev.test]) + \
                       (st.test.values if isinstance(st.test, ast.BoolOp) and isinstance(st.test.op, ast.Or) else [st.test])
                merged[-1] = ast.If(test=ast.BoolOp(op=ast.Or(), values=vals), body=prev.body, orelse=[])
            else:
                merged.append(st)
        return merged

    def tail_guard(stmts):
        """top level only: `if c: return` + rest  ->  `if not c: rest` (falling off the end returns None as well)"""
        for i, st in enumerate(stmts):
            if (isinstance(st, ast.If) and not st.orelse and len(st.body) == 1 and isinstance(st.body[0], ast.Return)
                    and st.body[0].value is None and i + 1 < len(stmts) and not any(
                        isinstance(n, ast.Return) and n.value is not None for r in stmts[i + 1:] for n in ast.walk(r))):
                return stmts[:i] + [ast.If(test=negate(st.test), body=tail_guard(stmts[i + 1:]), orelse=[])]
        return stmts

    counter = [0]

    def assigned(stmts):
        return {n.id for b in stmts for n in ast.walk(b) if isinstance(n, ast.Name) and isinstance(n.ctx, (ast.Store, ast.Del))}

    def rename(stmts, mapping):
        class R(ast.NodeTransformer):
            def visit_Name(self, node):
                if node.id in mapping:
                    node.id = mapping[node.id]
                return node
        return [R().visit(b) for b in stmts]

    def split_locals(stmts, seen):
        """A local first assigned inside a branch that ends in return/raise cannot flow out of it: it is a variable of
        its own (the same spelling reused in another branch, or two spellings for two branches, mean the same)."""
        for st in stmts:
            if isinstance(st, ast.If):
                for blk_name in ("body", "orelse"):
                    blk = getattr(st, blk_name)
                    if blk and terminates(blk):
                        fresh = {v for v in assigned(blk) if v not in seen}
                        if fresh:
                            counter[0] += 1
                            setattr(st, blk_name, rename(blk, {v: f"{v}@{counter[0]}" for v in fresh}))
                        split_locals(getattr(st, blk_name), set(seen))
                    else:
                        split_locals(blk, seen)
                        seen |= assigned(blk)
            elif isinstance(st, (ast.For, ast.While, ast.Try)):
                seen |= assigned([st])
                for blk in [st.body] + [h.body for h in getattr(st, "handlers", [])]:
                    split_locals(blk, seen)
            else:
                seen |= assigned([st])

    fn = Expr().visit(fn)
    fn.body = tail_guard(block(fn.body))
    params = {a.arg for a in fn.args.posonlyargs + fn.args.args + fn.args.kwonlyargs}
    split_locals(fn.body, set(params))
    return ast.fix_missing_locations(fn)


def _py_skeleton(fn, roles=None):
    """Normalised control-flow skeleton of a function: one line per statement, indentation as depth, docstrings and
    message strings dropped, local names alpha-renamed by first occurrence (a rename, a comment, another message stay
    quiet; an operator, constant, attribute, helper, exception class, default value or the order of steps does not)."""
    import ast
    fn = _normalise_function(fn, roles or {})
    local = {}
    args = fn.args
    for a in args.posonlyargs + args.args + args.kwonlyargs + ([args.vararg] if args.vararg else []) + ([args.kwarg] if args.kwarg else []):
        if a.arg != "self":
            local[a.arg] = f"v{len(local) + 1}"
    for n in ast.walk(fn):
        if isinstance(n, ast.Name) and isinstance(n.ctx, (ast.Store, ast.Del)) and n.id not in local and n.id != "self":
            local[n.id] = None
    class First(ast.NodeVisitor):      # first occurrence in source order (depth-first)
        def visit_Name(self, node):
            if node.id in local and local[node.id] is None:
                local[node.id] = f"v{sum(1 for v in local.values() if v) + 1}"
    First().visit(fn)

    class Norm(ast.NodeTransformer):
        def visit_Name(self, node):
            return ast.copy_location(ast.Name(id=local.get(node.id, node.id), ctx=node.ctx), node)

        def visit_arg(self, node):
            node.arg = local.get(node.arg, node.arg)
            return node

        def visit_JoinedStr(self, node):
            return ast.copy_location(ast.Constant(value="…"), node)

        def visit_Constant(self, node):
            if isinstance(node.value, str) and (len(node.value) > 12 or " " in node.value):
                return ast.copy_location(ast.Constant(value="…"), node)
            return node

    def u(node):
        return ast.unparse(Norm().visit(ast.fix_missing_locations(__import__("copy").deepcopy(node))))

    out = ["def(" + ", ".join(
        (local.get(a.arg, a.arg)) + ("=" + u(d) if d is not None else "")
        for a, d in zip(args.args, [None] * (len(args.args) - len(args.defaults)) + list(args.defaults)))
        + (", *" + local[args.vararg.arg] if args.vararg else "") + (", **" + local[args.kwarg.arg] if args.kwarg else "") + ")"]

    def block(stmts, depth):
        ind = "  " * depth
        for st in stmts:
            if isinstance(st, ast.Expr) and isinstance(st.value, ast.Constant) and isinstance(st.value.value, str):
                continue                                    # docstring
            if isinstance(st, ast.If):
                out.append(f"{ind}if {u(st.test)}")
                block(st.body, depth + 1)
                if st.orelse:
                    out.append(f"{ind}else")
                    block(st.orelse, depth + 1)
            elif isinstance(st, (ast.For, ast.While)):
                out.append(f"{ind}for {u(st.target)} in {u(st.iter)}" if isinstance(st, ast.For) else f"{ind}while {u(st.test)}")
                block(st.body, depth + 1)
            elif isinstance(st, ast.Try):
                out.append(f"{ind}try")
                block(st.body, depth + 1)
                for h in st.handlers:
                    out.append(f"{ind}except {u(h.type) if h.type else ''}")
                    block(h.body, depth + 1)
            elif isinstance(st, ast.Raise):
                exc = st.exc.func if isinstance(st.exc, ast.Call) else st.exc
                out.append(f"{ind}raise {u(exc) if exc is not None else ''}")
            elif isinstance(st, ast.FunctionDef):
                out.append(f"{ind}def {st.name}")
            else:
                out.append(ind + u(st).replace("\n", " "))
    block(fn.body, 1)
    return out


def _pyx_skeleton(src, name):
    """Code lines of one function of a .pyx (comments, docstrings, blank lines removed), up to the next `def`/`cdef`
    at the same or a lower indentation."""
    m = re.search(r"^([ \t]*)(?:def|cdef[^\n(]*?|cpdef[^\n(]*?)\s*\b" + re.escape(name) + r"\s*\(", src, re.M)
    if not m:
        raise ValueError(f"bonds.pyx: function {name} not found")
    ind = len(m.group(1).expandtabs(4))
    lines = src[m.start():].split("\n")
    out, in_doc = [], False
    for k, ln in enumerate(lines):
        stripped = ln.strip()
        if k > 0 and stripped and not in_doc:
            cur = len(ln.expandtabs(4)) - len(ln.expandtabs(4).lstrip())
            if cur <= ind and not stripped.startswith((")", "]", "#")):
                break
        if in_doc:
            if '"""' in stripped:
                in_doc = False
            continue
        if stripped.startswith('"""'):
            if stripped.count('"""') == 1:
                in_doc = True
            continue
        code = re.sub(r"\s+#.*$", "", ln.rstrip()) if not stripped.startswith("#") else ""
        if code.strip():
            depth = (len(code.expandtabs(4)) - len(code.expandtabs(4).lstrip()) - ind) // 4
            out.append("  " * max(depth, 0) + re.sub(r"f?\"[^\"]*\"", '"…"', code.strip()))
    return out


def _skeletons():
    import ast
    from common import paths
    res = []
    trees = {}
    for file, cls, fn in SKEL_PY:
        if file not in trees:
            trees[file] = ast.parse(open(os.path.join(paths.SRC, "biotite", file)).read())
        body = trees[file].body
        label = (cls + "." if cls else "") + fn
        try:
            if cls is not None:
                c = next((n for n in body if isinstance(n, ast.ClassDef) and n.name == cls), None)
                if c is None:
                    raise ValueError(f"class {cls} not found")
                body = c.body
            roles = _private_roles(trees[file]) if file == "structure/atoms.py" else {}
            if _is_private(fn) and fn in [lab for _, _, lab in ROLE_SITES] and fn not in roles.values():
                raise ValueError("private helper not found by its caller")
            actual = next((k for k, v in roles.items() if v == fn), fn)       # private helpers are found by their role
            f = next((n for n in body if isinstance(n, ast.FunctionDef) and n.name == actual), None)
            if f is None:
                raise ValueError("function not found")
            res.append((label, _py_skeleton(f, roles)))
        except Exception as e:  # noqa: BLE001  (never crash: the named obligation of this function breaks instead)
            res.append((label, [f"<not found: {type(e).__name__}: {str(e)[:80]}>"]))
    pyx = open(os.path.join(paths.SRC, "biotite/structure/bonds.pyx")).read()
    for fn in SKEL_PYX:
        try:
            res.append(("bonds.pyx:" + fn, _pyx_skeleton(pyx, fn)))
        except Exception as e:  # noqa: BLE001
            res.append(("bonds.pyx:" + fn, [f"<not found: {str(e)[:80]}>"]))
    # decorators of the BondList class that switch off bounds checking (basis of the `ub` outcome)
    m = re.search(r"((?:^@cython\.[a-z]+\([A-Za-z]+\)\n)*)^class BondList", pyx, re.M)
    res.append(("bonds.pyx:BondList-decorators", [x for x in m.group(1).split("\n") if x] if m else ["<not found>"]))
    return res


def _lean_str(x):
    return '"' + x.replace("\\", "\\\\").replace('"', '\\"') + '"'


def _skel_ident(name):
    return "skel_" + re.sub(r"[^A-Za-z0-9]", "_", name)


def _skel_lean(ns):
    """Lean source with one `def skel_<function> : List String` per anchored function (namespace Gen or Expected)."""
    sk = _skeletons()
    lines = [("/- REGENERATED on every run by harness/props/c01.py (normalised skeletons of atoms.py, copyable.py, "
              "bonds.pyx). Do not edit. -/") if ns == "Gen" else
             ("/- What the hand-written model of C01 was written against: produced ONCE by `python -c \"import sys; "
              "sys.path[:0]=['/verif/harness','/repo/src']; from props import c01; c01.write_expected()\"` and then owned by "
              "hand (re-run only after reviewing an intended change of the source, e.g. a fix: commit). -/"),
             f"namespace BiotiteModel.{ns}.C01Skel"]
    for name, body in sk:
        lines.append(f"def {_skel_ident(name)} : List String := [" + ",\n  ".join(_lean_str(x) for x in body) + "]")
    lines.append("def names : List String := [" + ", ".join(_lean_str(n) for n, _ in sk) + "]")
    lines.append("/-- exception classes raised, in source order -/")
    lines.append("def raises : List (String × List String) := [" + ",\n  ".join(
        "(" + _lean_str(n) + ", [" + ", ".join(_lean_str(x.strip()[6:].split("(")[0]) for x in b if x.strip().startswith("raise ")) + "])"
        for n, b in sk if any(x.strip().startswith("raise ") for x in b)) + "]")
    lines += [f"end BiotiteModel.{ns}.C01Skel", ""]
    return "\n".join(lines)


def write_expected():
    from common import paths
    path = os.path.join(paths.LEAN, "BiotiteModel/Proofs/C01Expected.lean")
    with open(path, "w") as f:
        f.write(_skel_lean("Expected"))
    print("wrote", path)

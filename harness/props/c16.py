"""C16 — Superimposition minimises RMSD with a proper rotation.

Two kinds of cases (see harness/README.md for the plugin contract):

* exact streams (`ops` present): inputs on which float32/float64 arithmetic is exact (small integers /
  dyadic rationals, integer-norm displacements, centroids that divide evenly).  Every number is printed
  as an exact rational, so the real code and the Lean model (over `Rat`) must agree to the last bit.
    apply / matrix   AffineTransformation.apply / as_matrix incl. broadcasting and both error branches
    rot              the real `_get_rotation_matrices` with `np.linalg.svd` replaced by a table
                     (covariance, reflection test, column flip, v @ w run for real)
    sup              the real `superimpose` (mask, centring, transformation construction, apply), svd table
    woo              the real `superimpose_without_outliers` loop with the inner `superimpose` replaced by
                     the identity fit (anchor bookkeeping, quantiles, threshold, terminations)
    hom              the real `superimpose_homologs` index composition (backbone indices and alignment given)
* float cases (oracle only): the unmodified functions on random / degenerate point sets, checked against
  the property statement with explicit tolerances (see `oracle`).
"""
import ast
import contextlib
import importlib
import math
import os
from fractions import Fraction

PROP = "C16"
PROPS_MODULE = "BiotiteModel.Props.C16"
DRIVER_MODULE = "BiotiteModel.Driver.C16"
EXT_MODULES = []
GEN_FILES = ["BiotiteModel/Gen/C16.lean"]
RULE = ("exact streams: seeded small-integer/dyadic transformations (float32/float64 and integer rotation arrays with "
        "fractional translations), stacks (m=1..4, n=0..12), masks, "
        "broadcast combinations and malformed shapes through apply/as_matrix/_get_rotation_matrices/"
        "superimpose (svd tabulated) and the outlier/homolog anchor loops (inner fit stubbed), compared "
        "bit-exactly with the Lean model; float stream: random, planar, collinear, single-atom, duplicate, "
        "symmetric and mirrored point sets (coordinate extents 1e-3..1e4, float32/float64 input) with rigid motions, "
        "noise 0..10, masks (unselected atoms also NaN/inf/huge), multi-step histories on one transformation object, stack/array "
        "combinations through the unmodified functions; multi-chain protein/RNA complexes (2-4 chains, missing "
        "terminal/internal residues in any chain of either structure, rigid copies, single models and stacks) through "
        "the unmodified superimpose_homologs with a synthetic CCD, and their _find_matching_anchors result against "
        "the Lean offset model; refused calls (snapshots of all arguments), rigid motions made by every public function of "
        "transform.py, every array/scalar argument in several spellings (F-order, strided, read-only, byte-swapped, float64, "
        "NumPy scalars), all optional parameters of superimpose_homologs; judged by the property oracle (orthonormal, det +1, "
        "matrix form, reproduction, model-wise action, RMSD not above an independent float64 quaternion "
        "optimum nor above 200+ perturbed placements, anchors). non-trivial = >= 2 atoms with a non-identity "
        "motion or an error branch; distinct = different ops / different float input")
TRUSTED = ["numpy float32/float64 arithmetic is exact on the small-integer/dyadic inputs of the exact streams",
           "LAPACK SVD (np.linalg.svd) is external: validated per output by the oracle, not modelled",
           "independent float64 quaternion (Horn) optimum used by the oracle as RMSD reference",
           "unittest-style patching of module globals (np.linalg.svd table, inner superimpose stub) in the exact streams"]
ASSUMPTIONS = ["RMSD tolerance of the oracle: 4e-6*scale plus the float32 conditioning term min(delta^2/g, 4*delta)/n on squared deviations (see _allowed_rmsd)",
               "Kabsch optimality is proved over Q GIVEN an SVD (IsSVD contract); that np.linalg.svd meets the contract is not proved, it is checked per output with tolerances",
               "float rounding is not modelled: theorems are over exact rationals / commutative rings",
               "superimpose_homologs: the per-chain sequence alignment (C08) is an input of the model (taken from the real code on single chain pairs); the backbone filter runs for real on a synthetic CCD (fixtures/C16/components.bcif)"]
LEVEL_TEXT = ("partial: the SVD computation itself (LAPACK, float32) is external; GIVEN an SVD (explicit contract IsSVD: "
              "orthogonal factors, H = V·diag(s)·W, s1 >= s2 >= s3 >= 0) the optimality is a theorem: the sum of squared "
              "deviations is spread - 2·trace(R^T H) (C16_rmsd_trace), trace(M·diag s) <= s1+s2+s3 for orthogonal M and "
              "<= s1+s2-s3 when det M = -1 (C16_trace_bound, C16_trace_bound_reflected), hence the matrix the code "
              "returns (last column of V flipped iff det V·det W < 0) maximises the trace over all proper rotations in "
              "both cases and, with the centroid translation, no proper rigid-body placement has a lower RMSD "
              "(C16_kabsch_optimal, C16_kabsch_optimal_superimpose for the model's superimpose). Further Lean theorems "
              "(all inputs): 4x4 matrix form = apply over any commutative ring, model-wise "
              "action on stacks incl. broadcasting and error branches, reproduction of the fitted coordinates, "
              "reflection correction yields an orthogonal matrix of determinant +1 for every orthogonal SVD output, "
              "centroid-to-centroid translation is optimal for any rotation (over Q), anchor set of the outlier/"
              "homolog variants is a shrinking sublist never below min_anchors and the returned transformation is "
              "the fit on exactly the returned anchors, the anchor pairs _find_matching_anchors returns for chain k are "
              "its local alignment columns offset by the cumulative lengths of the respective structure's previous "
              "chains and stay inside both structures (C16_homolog_offsets, _in_range). NOT proved: that LAPACK's "
              "output meets the IsSVD contract, and anything about float rounding — both validated per output by the "
              "oracle with tolerances (independent quaternion optimum, perturbations, certificate).")
LEVEL_NOTE = "LAPACK SVD, float rounding, numpy broadcasting/quantile semantics are modelled or validated, not verified"
TECHNIQUE = "Lean 4 proof (ring identities, completing the square, Kabsch optimality from an SVD contract via trace bounds, loop invariant by induction on iterations) + exact-rational correspondence + tolerance oracle"

_S = None


_AA = "ACDEFGHIKLMNPQRSTVWY"
_NUC = "ACGU"


def _install_ccd():
    """The sandbox has no internal CCD: a minimal one (20 amino acids, 4 ribonucleotides) lives in
    fixtures/C16/components.bcif (rebuilt deterministically if absent) and is installed through the public
    `info.set_ccd_path()` so that `superimpose_homologs` can find backbone atoms and sequences."""
    import numpy as np
    import biotite.structure.info as info
    import biotite.structure.io.pdbx as pdbx
    from biotite.sequence import ProteinSequence
    from common import paths
    path = os.path.join(paths.FIXTURES, "C16", "components.bcif")
    if not os.path.exists(path):
        three = [ProteinSequence.convert_letter_1to3(c) for c in _AA] + list(_NUC)
        one = list(_AA) + list(_NUC)
        typ = ["L-PEPTIDE LINKING"] * len(_AA) + ["RNA LINKING"] * len(_NUC)
        order = sorted(range(len(three)), key=lambda i: three[i])
        file = pdbx.BinaryCIFFile()
        file["components"] = pdbx.BinaryCIFBlock({"chem_comp": pdbx.BinaryCIFCategory({
            "id": np.array([three[i] for i in order]), "type": np.array([typ[i] for i in order]),
            "one_letter_code": np.array([one[i] for i in order]), "name": np.array([three[i] for i in order])})})
        os.makedirs(os.path.dirname(path), exist_ok=True)
        file.write(path)
    info.set_ccd_path(path)


def _mod():
    """The module object of structure/superimpose.py (the package attribute of that name is the function)."""
    global _S
    if _S is None:
        _install_ccd()
        _S = importlib.import_module("biotite.structure.superimpose")
        if not hasattr(_S, "AffineTransformation") or not hasattr(_S, "np"):
            import sys
            _S = sys.modules["biotite.structure.superimpose"]
    return _S


# ---------------------------------------------------------------- exact number formatting
def _fr(x):
    f = Fraction(float(x))
    return str(f.numerator) if f.denominator == 1 else f"{f.numerator}/{f.denominator}"


def _flat(a):
    import numpy as np
    a = np.asarray(a, dtype=np.float64).ravel()
    if not np.all(np.isfinite(a)):
        return "NONFINITE"
    return ",".join(_fr(v) for v in a) if a.size else "_"


def _q(x):
    """Fraction/str -> protocol token."""
    f = Fraction(x)
    return str(f.numerator) if f.denominator == 1 else f"{f.numerator}/{f.denominator}"


def _toks(xs):
    xs = list(xs)
    return ",".join(_q(x) for x in xs) if xs else "_"


def _parse(s, shape, dtype="float32"):
    import numpy as np
    vals = [] if s == "_" else [float(Fraction(t)) for t in s.split(",")]
    return np.array(vals, dtype=dtype).reshape(shape)


# ---------------------------------------------------------------- the same value in another spelling
_LAYOUTS = ["c", "c", "f", "strided", "readonly", "swapped", "f64"]


def _spell(a, layout):
    """The same array values as C-/F-ordered, strided view, read-only, byte-swapped or float64 array."""
    import numpy as np
    a = np.asarray(a)
    if layout == "f":
        return np.asfortranarray(a)
    if layout == "strided":
        big = np.zeros(a.shape[:-1] + (a.shape[-1] * 2,), dtype=a.dtype)
        big[..., ::2] = a
        return big[..., ::2]
    if layout == "readonly":
        b = a.copy()
        b.setflags(write=False)
        return b
    if layout == "swapped":
        return a.astype(a.dtype.newbyteorder())
    if layout == "f64" and a.dtype.kind == "f":
        return a.astype(np.float64)
    return a


def _spell_scalar(x, how):
    import numpy as np
    return {"py": lambda v: v, "i8": np.int8, "u8": np.uint8, "i16": np.int16, "i32": np.int32, "i64": np.int64,
            "u64": np.uint64, "f16": np.float16, "f32": np.float32, "f64": np.float64}[how](x)


def _snapshot(obj):
    """Content snapshot of an argument (ndarray / AtomArray / AtomArrayStack / list / None)."""
    import numpy as np
    if obj is None:
        return None
    if isinstance(obj, (list, tuple)):
        return ("seq", type(obj), list(obj))
    if isinstance(obj, np.ndarray):
        return ("nd", obj.dtype.str, obj.shape, obj.tobytes())
    return ("atoms", type(obj), obj.coord.dtype.str, obj.coord.shape, obj.coord.tobytes(),
            tuple(sorted((c, obj.get_annotation(c).tobytes()) for c in obj.get_annotation_categories())))


def _t_snapshot(T):
    return tuple((getattr(T, a).dtype.str, getattr(T, a).shape, getattr(T, a).tobytes())
                 for a in ("center_translation", "rotation", "target_translation"))


# ---------------------------------------------------------------- translator (Gen)
def _find_func(tree, name, cls=None):
    for node in ast.walk(tree):
        if cls and isinstance(node, ast.ClassDef) and node.name == cls:
            for sub in node.body:
                if isinstance(sub, ast.FunctionDef) and sub.name == name:
                    return sub
        if not cls and isinstance(node, ast.FunctionDef) and node.name == name:
            return node
    raise ValueError(f"function {cls + '.' if cls else ''}{name} not found in superimpose.py")


def _cmp_name(op):
    return type(op).__name__


# ---------------------------------------------------------------- private helpers are found by structure, not by name
_HELPER_CACHE = {}


def _call_name(node):
    return ast.unparse(node.func).replace(" ", "") if isinstance(node, ast.Call) else None


def _locate(tree, cmp_tree=None):
    """Tolerant front end of `_locate_strict`: a helper that cannot be found is `None` (the groups / ops that need it
    then fail by name or fall back), the others are still found."""
    H = {}
    for role in ("expand", "identity", "reshape", "matmul", "rotation", "backbone", "matching", "sqeuclid"):
        try:
            H[role] = _locate_strict(tree, cmp_tree, role)
        except Exception as e:  # noqa: BLE001
            H[role] = None
            _GEN_ERRORS.append(f"helper `{role}` not located: {e}")
    return H


def _locate_strict(tree, cmp_tree, role):
    """role -> current name of the module-private helpers of superimpose.py (and `_sq_euclidian` of compare.py), found by
    where they are CALLED from the public API; a rename of a private helper therefore changes nothing."""
    H = {}
    want = lambda r: role == r                                       # noqa: E731
    if want("expand"):
        init = _find_func(tree, "__init__", "AffineTransformation")
        fs = {_call_name(st.value) for st in init.body if isinstance(st, ast.Assign) and isinstance(st.value, ast.Call)
              and isinstance(st.targets[0], ast.Attribute) and len(st.value.args) == 2}
        if len(fs) != 1:
            raise ValueError("AffineTransformation.__init__ does not store its three arguments through one helper(arg, ndim)")
        H["expand"] = fs.pop()
    if want("identity"):
        asm = _find_func(tree, "as_matrix", "AffineTransformation")
        cand = {}
        for n in ast.walk(asm):
            if isinstance(n, ast.Call) and isinstance(n.func, ast.Name) and len(n.args) == 2 and isinstance(n.args[1], ast.Constant):
                cand[n.func.id] = cand.get(n.func.id, 0) + 1
        ident = [k for k, c in cand.items() if c >= 1]
        if len(ident) != 1:
            raise ValueError("as_matrix does not build its identity stacks through one helper(count, <literal size>)")
        H["identity"] = ident[0]
    if want("reshape") or want("matmul"):
        app = _find_func(tree, "apply", "AffineTransformation")
        xs = [st.targets[0].id for st in app.body if isinstance(st, ast.Assign) and isinstance(st.targets[0], ast.Name)
              and ast.unparse(st.value).replace(" ", "") == "coord(atoms)"]
        if len(xs) != 1:
            raise ValueError("apply does not start from coord(atoms)")
        rs = [_call_name(st.value) for st in app.body if isinstance(st, ast.Assign) and isinstance(st.value, ast.Call)
              and isinstance(st.value.func, ast.Name) and [ast.unparse(a) for a in st.value.args] == [xs[0]]
              and isinstance(st.targets[0], ast.Name) and st.targets[0].id == xs[0]]
        if len(rs) != 1:
            raise ValueError("apply does not pass its coordinates through one reshape helper")
        H["reshape"] = rs[0]
        mm = [_call_name(n) for n in ast.walk(app) if isinstance(n, ast.Call) and isinstance(n.func, ast.Name) and len(n.args) == 2
              and ast.unparse(n.args[0]) == "self.rotation"]
        if len(mm) != 1:
            raise ValueError("apply does not multiply through one helper(self.rotation, coordinates)")
        H["matmul"] = mm[0]
    if want("rotation"):
        sup = _find_func(tree, "superimpose")
        ctor = [n for n in ast.walk(sup) if isinstance(n, ast.Call) and _call_name(n) == "AffineTransformation" and len(n.args) == 3]
        if len(ctor) != 1 or not isinstance(ctor[0].args[1], ast.Name):
            raise ValueError("superimpose does not build AffineTransformation(-c, rotation, t)")
        rot = [_call_name(st.value) for st in sup.body if isinstance(st, ast.Assign) and isinstance(st.targets[0], ast.Name)
               and st.targets[0].id == ctor[0].args[1].id and isinstance(st.value, ast.Call) and len(st.value.args) == 2]
        if len(rot) != 1:
            raise ValueError("superimpose: the rotation is not the result of one helper(fixed_centred, mobile_centred)")
        H["rotation"] = rot[0]
    if want("backbone") or want("matching"):
        hom = _find_func(tree, "superimpose_homologs")
        bb, ma = set(), set()
        for n in ast.walk(hom):
            if isinstance(n, ast.Call) and isinstance(n.func, ast.Name):
                a = [ast.unparse(x).replace(" ", "") for x in n.args]
                if a in (["fixed"], ["mobile"]):
                    bb.add(n.func.id)
                if len(a) == 5 and a[0].startswith("fixed[...,") and a[1].startswith("mobile[...,"):
                    ma.add(n.func.id)
        if len(bb) != 1 or len(ma) != 1:
            raise ValueError("superimpose_homologs: backbone-index / anchor-matching helpers not found")
        H["backbone"], H["matching"] = bb.pop(), ma.pop()
    if want("sqeuclid"):
        if cmp_tree is not None:
            r = [st for st in _find_func(cmp_tree, "rmsd").body if isinstance(st, ast.Return)]
            sq = [n.func.id for n in ast.walk(r[0].value) if isinstance(n, ast.Call) and isinstance(n.func, ast.Name)
                  and [ast.unparse(x) for x in n.args] == ["reference", "subject"]] if r else []
            if len(sq) != 1:
                raise ValueError("rmsd does not reduce one helper(reference, subject)")
            H["sqeuclid"] = sq[0]
    return H[role]


def _helpers():
    """Names of the private helpers in the tree under test (for the adapter: never call a private helper by a fixed name)."""
    from common import paths
    key = paths.SRC
    if key not in _HELPER_CACHE:
        tree = ast.parse(open(os.path.join(paths.SRC, "biotite/structure/superimpose.py")).read())
        cmp_tree = ast.parse(open(os.path.join(paths.SRC, "biotite/structure/compare.py")).read())
        _HELPER_CACHE[key] = _locate(tree, cmp_tree)
    return _HELPER_CACHE[key]


_CONVENTIONAL = {"expand": "_expand_dims", "identity": "_3d_identity", "reshape": "_reshape_to_3d", "matmul": "_multi_matmul",
                 "rotation": "_get_rotation_matrices", "backbone": "_get_backbone_anchor_indices",
                 "matching": "_find_matching_anchors", "sqeuclid": "_sq_euclidian"}


class HelperNotFound(Exception):
    pass


def _hname(role):
    n = _helpers().get(role) or _CONVENTIONAL[role]
    if not hasattr(_mod(), n):
        raise HelperNotFound(f"private helper for `{role}` not found in the tree under test")
    return n


def _hp(role):
    return getattr(_mod(), _hname(role))


def _alpha(f):
    """Alpha-normalised copy of a PRIVATE function: parameters P0.., assigned locals L0.. (source order), docstring,
    annotations and the arguments of `raise` dropped — what is left is structure, literals, operators and public names."""
    import copy
    g = copy.deepcopy(f)
    ren = {a.arg: f"P{i}" for i, a in enumerate(g.args.args)}
    for a in g.args.args:
        a.annotation = None
    g.returns = None
    if g.body and isinstance(g.body[0], ast.Expr) and isinstance(g.body[0].value, ast.Constant) and isinstance(g.body[0].value.value, str):
        g.body = g.body[1:]

    class Coll(ast.NodeVisitor):
        def visit_Name(self, n):
            if isinstance(n.ctx, ast.Store) and n.id not in ren and n.id != "_":
                ren[n.id] = f"L{sum(1 for v in ren.values() if v[0] == 'L')}"
    Coll().visit(g)

    class Ren(ast.NodeTransformer):
        def visit_Name(self, n):
            n.id = ren.get(n.id, n.id)
            return n

        def visit_arg(self, n):
            n.arg = ren.get(n.arg, n.arg)
            return n

        def visit_Raise(self, n):
            if isinstance(n.exc, ast.Call):
                n.exc.args, n.exc.keywords = [], []
            return n
    return Ren().visit(g)


def _ndim_table(f, lo=0, hi=5):
    """Semantic table of a function that dispatches on `<param>.ndim`: for every ndim the first action reached
    (`raise:<Exc>`, `newaxis`, `identity`) — independent of the order / nesting of the tests."""
    g = _alpha(f)
    table = []
    for k in range(lo, hi + 1):
        def ev(test):
            if isinstance(test, ast.Compare) and _u(test.left) == "P0.ndim" and len(test.ops) == 1:
                c = ast.literal_eval(test.comparators[0])
                return {"Lt": k < c, "LtE": k <= c, "Gt": k > c, "GtE": k >= c, "Eq": k == c, "NotEq": k != c}[_cmp_name(test.ops[0])]
            raise ValueError("unexpected test in the ndim dispatch: " + ast.unparse(test))

        def run(stmts):
            for st in stmts:
                if isinstance(st, ast.If):
                    r = run(st.body) if ev(st.test) else run(st.orelse)
                    if r is not None:
                        return r
                elif isinstance(st, ast.Raise):
                    return "raise:" + ast.unparse(st.exc.func)
                elif isinstance(st, ast.Return):
                    v = _u(st.value)
                    if v == "P0":
                        return "identity"
                    if v == "P0[np.newaxis,...]":
                        return "newaxis"
                    raise ValueError("unexpected return in the ndim dispatch: " + v)
                else:
                    raise ValueError("unexpected statement in the ndim dispatch: " + ast.unparse(st))
            return None
        table.append(f"{k}:{run(g.body)}")
    return table


def gen_lean():
    """Extract the guards/constants of superimpose.py the model hard-codes (never guessed: raise if absent)."""
    from common import paths
    src = open(os.path.join(paths.SRC, "biotite/structure/superimpose.py")).read()
    tree = ast.parse(src)
    cmp_tree = ast.parse(open(os.path.join(paths.SRC, "biotite/structure/compare.py")).read())
    H = _locate(tree, cmp_tree)

    del _GEN_ERRORS[:]

    def _p1():
        # --- _get_rotation_matrices: reflected_mask = det(v) * det(w) < 0 ; v[reflected_mask, :, -1] *= -1 ; matmul(v, w)
        f = _find_func(tree, H["rotation"])
        refl_cmp = refl_const = flip_axis = flip_factor = det_names = None
        flip_target = None
        mat_args = None
        for node in ast.walk(f):
            if isinstance(node, ast.Compare) and isinstance(node.left, ast.BinOp) and isinstance(node.left.op, ast.Mult):
                c = node
                sides = [c.left.left, c.left.right]
                if all(isinstance(x, ast.Call) and ast.unparse(x.func) == "np.linalg.det" and len(x.args) == 1
                       and isinstance(x.args[0], ast.Name) for x in sides):
                    refl_cmp = _cmp_name(c.ops[0])
                    refl_const = ast.literal_eval(c.comparators[0])
                    det_names = sorted(x.args[0].id for x in sides)
            if isinstance(node, ast.AugAssign) and isinstance(node.target, ast.Subscript):
                sl = node.target.slice
                if isinstance(sl, ast.Tuple) and len(sl.elts) == 3:
                    flip_target = ast.unparse(node.target.value)
                    if not (isinstance(sl.elts[1], ast.Slice) and sl.elts[1].lower is None and sl.elts[1].upper is None):
                        raise ValueError("flip does not address a whole column: " + ast.unparse(node.target))
                    flip_axis = ast.literal_eval(sl.elts[2])
                    if not isinstance(node.op, ast.Mult):
                        raise ValueError("flip is not a multiplication")
                    flip_factor = ast.literal_eval(node.value)
            # equivalent form: X[:, :, c] = np.where(mask[...], -col, col) with col = X[:, :, c]
            if isinstance(node, ast.Assign) and isinstance(node.targets[0], ast.Subscript) and isinstance(node.value, ast.Call) \
                    and ast.unparse(node.value.func) == "np.where" and len(node.value.args) == 3:
                tgt, (cnd, a1, a2) = node.targets[0], node.value.args
                sl = tgt.slice
                if isinstance(sl, ast.Tuple) and len(sl.elts) == 3 and all(isinstance(e, ast.Slice) and e.lower is None and e.upper is None for e in sl.elts[:2]) \
                        and isinstance(a1, ast.UnaryOp) and isinstance(a1.op, ast.USub) and ast.unparse(a1.operand) == ast.unparse(a2):
                    src_col = [ast.unparse(st.value) for st in ast.walk(f) if isinstance(st, ast.Assign) and ast.unparse(st.targets[0]) == ast.unparse(a2)]
                    if src_col == [ast.unparse(tgt)] or ast.unparse(a2) == ast.unparse(tgt):
                        flip_target = ast.unparse(tgt.value)
                        flip_axis = ast.literal_eval(sl.elts[2])
                        flip_factor = -1
            if isinstance(node, ast.Call) and ast.unparse(node.func) in ("np.matmul",) and len(node.args) == 2:
                mat_args = [ast.unparse(a) for a in node.args]
        svd_names = None
        for node in ast.walk(f):
            if isinstance(node, ast.Assign) and isinstance(node.value, ast.Call) and ast.unparse(node.value.func) == "np.linalg.svd":
                svd_names = [ast.unparse(e) for e in node.targets[0].elts]
        if None in (refl_cmp, refl_const, flip_axis, flip_factor, flip_target, mat_args, svd_names, det_names):
            raise ValueError("could not extract the reflection correction of _get_rotation_matrices")
        # position of the flipped matrix in the svd result (0 = u) and the product order
        if det_names != sorted([svd_names[0], svd_names[2]]) or flip_target not in svd_names or any(a not in svd_names for a in mat_args):
            raise ValueError("reflection test / flip / product do not refer to the svd factors")
        flip_pos = svd_names.index(flip_target)
        prod = [svd_names.index(a) for a in mat_args]

        # --- as_matrix: return target @ rot @ center
        f = _find_func(tree, "as_matrix", "AffineTransformation")
        prods = [n for n in ast.walk(f) if isinstance(n, ast.BinOp) and isinstance(n.op, ast.MatMult)
                 and isinstance(n.left, ast.BinOp) and isinstance(n.left.op, ast.MatMult)]
        if len(prods) != 1:
            raise ValueError("as_matrix does not contain exactly one left-nested product of three matrices")
        ret = prods[0]          # returned directly or stored first: either way this is the matrix handed out
        order = []

        def walk_mm(e):
            if isinstance(e, ast.BinOp) and isinstance(e.op, ast.MatMult):
                walk_mm(e.left)
                order.append(ast.unparse(e.right))
            else:
                order.append(ast.unparse(e))
        walk_mm(ret)
        if len(order) != 3 or not isinstance(ret.left, ast.BinOp):
            raise ValueError("as_matrix does not return a left-nested product of three matrices")
        # which attribute was assigned into which matrix
        assigned = {}
        for node in ast.walk(f):
            if isinstance(node, ast.Assign) and isinstance(node.targets[0], ast.Subscript) and \
                    isinstance(node.value, ast.Attribute):
                assigned[ast.unparse(node.targets[0].value)] = (node.value.attr, ast.unparse(node.targets[0].slice).replace(" ", ""))
        try:
            order_attr = [assigned[o][0] for o in order]
            slices = [assigned[o][1] for o in order]
        except KeyError as e:
            raise ValueError(f"as_matrix: matrix {e} has no block assignment")

        # --- apply: order of the three array operations
        f = _find_func(tree, "apply", "AffineTransformation")
        steps = []
        for node in f.body:
            if isinstance(node, ast.AugAssign) and isinstance(node.op, ast.Add):
                steps.append("add:" + [n.attr for n in ast.walk(node.value) if isinstance(n, ast.Attribute) and n.attr.endswith("translation")][0])
            if isinstance(node, ast.Assign) and isinstance(node.value, ast.Call) and ast.unparse(node.value.func) == H["matmul"]:
                steps.append("matmul:" + ast.unparse(node.value.args[0]).replace("self.", ""))
        if len(steps) != 3:
            raise ValueError("apply: expected add / matmul / add, found " + repr(steps))

        # --- superimpose: AffineTransformation(-mob_centroid, rotation, fix_centroid)
        f = _find_func(tree, "superimpose")
        params = {a.arg for a in f.args.args}
        deps = {p: {p} for p in params}             # local name -> parameters it is computed from (source order)
        for node in sorted((n for n in ast.walk(f) if isinstance(n, ast.Assign)), key=lambda n: n.lineno):
            used = set()
            for n in ast.walk(node.value):
                if isinstance(n, ast.Name) and n.id in deps:
                    used |= deps[n.id]
            for tgt in node.targets:
                for n in ast.walk(tgt):
                    if isinstance(n, ast.Name):
                        deps[n.id] = deps.get(n.id, set()) | used if isinstance(tgt, ast.Subscript) else set(used)
        ctor = None
        for node in ast.walk(f):
            if isinstance(node, ast.Call) and ast.unparse(node.func) == "AffineTransformation":
                ctor = []
                for a in node.args:
                    neg = isinstance(a, ast.UnaryOp) and isinstance(a.op, ast.USub)
                    core = a.operand if neg else a
                    if not isinstance(core, ast.Name) or core.id not in deps:
                        raise ValueError("superimpose: unexpected AffineTransformation argument " + ast.unparse(a))
                    ctor.append(("-" if neg else "") + "+".join(sorted(deps[core.id] & {"fixed", "mobile"})))
        if ctor is None:
            raise ValueError("superimpose: AffineTransformation(...) construction not found")

        # --- superimpose_without_outliers: defaults and the three comparisons, returned mask
        f = _find_func(tree, "superimpose_without_outliers")
        names = [a.arg for a in f.args.args]
        defaults = dict(zip(names[-len(f.args.defaults):], [ast.literal_eval(d) for d in f.args.defaults]))
        inlier_cmp = min_cmp = iter_cmp = iter_const = returned = None
        fit_masks = set()
        rets = [n for n in ast.walk(f) if isinstance(n, ast.Return)]
        if len(rets) != 1 or not isinstance(rets[0].value, ast.Tuple) or len(rets[0].value.elts) != 3 \
                or not isinstance(rets[0].value.elts[2], ast.Name):
            raise ValueError("superimpose_without_outliers does not return (fitted, transform, <anchor indices>)")
        ret_anchor_name = rets[0].value.elts[2].id          # whatever the local is called
        for node in ast.walk(f):
            # the inlier test: `mask[mask] = (sq_dist <= bound)` — a comparison assigned through a subscript
            if isinstance(node, ast.Assign) and isinstance(node.targets[0], ast.Subscript) and isinstance(node.value, ast.Compare):
                inlier_cmp = _cmp_name(node.value.ops[0])
                bound = node.value.comparators[0]
                if not (isinstance(bound, ast.BinOp) and isinstance(bound.op, ast.Add)
                        and any(isinstance(x, ast.BinOp) and isinstance(x.op, ast.Mult) and
                                "outlier_threshold" in (ast.unparse(x.left), ast.unparse(x.right)) for x in (bound.left, bound.right))):
                    raise ValueError("inlier bound is not `q_upper + outlier_threshold * ipr`: " + ast.unparse(bound))
            if isinstance(node, ast.Compare):
                left = ast.unparse(node.left)
                right = ast.unparse(node.comparators[0])
                if right == "min_anchors":
                    min_cmp = _cmp_name(node.ops[0])
                    if not left.startswith("np.count_nonzero("):
                        raise ValueError("min_anchors test changed: " + left)
                elif left == "max_iterations":
                    iter_cmp, iter_const = _cmp_name(node.ops[0]), ast.literal_eval(node.comparators[0])
            # masks used to select the coordinates that are fitted: coord[..., MASK, :]
            if isinstance(node, ast.Subscript) and isinstance(node.slice, ast.Tuple) and len(node.slice.elts) == 3 and \
                    isinstance(node.slice.elts[0], ast.Constant) and node.slice.elts[0].value is Ellipsis and \
                    isinstance(node.slice.elts[1], ast.Name):
                fit_masks.add(node.slice.elts[1].id)
            if isinstance(node, ast.Assign) and isinstance(node.targets[0], ast.Name) and node.targets[0].id == ret_anchor_name:
                names = [n.id for n in ast.walk(node.value) if isinstance(n, ast.Name) and n.id != "np"]
                if not (ast.unparse(node.value).startswith("np.where(") and ast.unparse(node.value).endswith("[0]")
                        or ast.unparse(node.value).startswith("np.flatnonzero(")) or len(names) != 1:
                    raise ValueError("anchor_indices is not np.where(<mask>)[0]")
                returned = names[0]
        if None in (inlier_cmp, min_cmp, iter_cmp, iter_const, returned) or len(fit_masks) != 1:
            raise ValueError("could not extract the guards of superimpose_without_outliers")
        returned = "fitted-mask" if returned in fit_masks else "other:" + returned

        def s(x):
            return '"' + str(x) + '"'

        def rat(x):
            fr = Fraction(x).limit_denominator(10**6)
            return f"(({fr.numerator} : Int), ({fr.denominator} : Nat))"

        q = defaults.get("quantiles", (None, None))
        body = [
            "/- REGENERATED on every run by harness/props/c16.py from structure/superimpose.py. Do not edit. -/",
            "namespace BiotiteModel.Gen.C16",
            "/-- `_get_rotation_matrices`: comparison and constant of the reflection test on `det(v)*det(w)`. -/",
            f"def reflectCmp : String := {s(refl_cmp)}",
            f"def reflectConst : Int := {int(refl_const)}",
            "/-- position (in the svd result tuple) of the matrix whose column is flipped, the column index, the factor. -/",
            f"def flipMatrixPos : Nat := {flip_pos}",
            f"def flipColumn : Int := {int(flip_axis)}",
            f"def flipFactor : Int := {int(flip_factor)}",
            "/-- svd result positions multiplied, in order. -/",
            f"def productOrder : List Nat := [{', '.join(map(str, prod))}]",
            "/-- `as_matrix`: attributes in the order of the (left-nested) product and the block each one is assigned to. -/",
            f"def matrixOrder : List String := [{', '.join(s(o) for o in order_attr)}]",
            f"def matrixBlocks : List String := [{', '.join(s(o) for o in slices)}]",
            "/-- `apply`: the three array operations in order. -/",
            f"def applySteps : List String := [{', '.join(s(o) for o in steps)}]",
            "/-- `superimpose`: arguments of the `AffineTransformation` it returns. -/",
            f"def ctorArgs : List String := [{', '.join(s(o) for o in ctor)}]",
            "/-- `superimpose_without_outliers`: comparisons and defaults. -/",
            f"def inlierCmp : String := {s(inlier_cmp)}",
            f"def minAnchorsCmp : String := {s(min_cmp)}",
            f"def maxIterCmp : String := {s(iter_cmp)}",
            f"def maxIterConst : Int := {int(iter_const)}",
            f"def returnedAnchors : String := {s(returned)}",
            f"def defaultMinAnchors : Nat := {int(defaults['min_anchors'])}",
            f"def defaultMaxIterations : Nat := {int(defaults['max_iterations'])}",
            f"def defaultQuantiles : List (Int × Nat) := [{rat(q[0])}, {rat(q[1])}]",
            f"def defaultThreshold : Int × Nat := {rat(defaults['outlier_threshold'])}"]
        return body[2:]
    body = ["/- REGENERATED on every run by harness/props/c16.py from structure/superimpose.py. Do not edit. -/",
            "namespace BiotiteModel.Gen.C16"] + _safe_group(_p1, [('reflectCmp', 'String'), ('reflectConst', 'Int'), ('flipMatrixPos', 'Nat'), ('flipColumn', 'Int'), ('flipFactor', 'Int'), ('productOrder', 'List Nat'), ('matrixOrder', 'List String'), ('matrixBlocks', 'List String'), ('applySteps', 'List String'), ('ctorArgs', 'List String'), ('inlierCmp', 'String'), ('minAnchorsCmp', 'String'), ('maxIterCmp', 'String'), ('maxIterConst', 'Int'), ('returnedAnchors', 'String'), ('defaultMinAnchors', 'Nat'), ('defaultMaxIterations', 'Nat'), ('defaultQuantiles', 'List (Int × Nat)'), ('defaultThreshold', 'Int × Nat')], "guards of the rotation step / as_matrix / apply / outlier loop", _GEN_ERRORS)
    geo_tree = ast.parse(open(os.path.join(paths.SRC, "biotite/structure/geometry.py")).read())
    body += _gen_structure(tree, cmp_tree, geo_tree, H)
    body += ["end BiotiteModel.Gen.C16", ""]
    return {"BiotiteModel/Gen/C16.lean": "\n".join(body)}


# ---------------------------------------------------------------- translator, part 2 (pass 7: structural facts)
def _u(node):
    return ast.unparse(node).replace(" ", "")


def _us(node, env):
    """unparse with local names replaced by what they stand for (robust against renaming locals)."""
    import copy

    class T(ast.NodeTransformer):
        def visit_Name(self, n):
            return ast.parse(env[n.id], mode="eval").body if n.id in env else n
    return _u(T().visit(copy.deepcopy(node)))


def _need(cond, msg):
    if not cond:
        raise ValueError("superimpose.py no longer has the expected shape: " + msg)


def _raise_class(stmts):
    for st in stmts:
        if isinstance(st, ast.Raise) and isinstance(st.exc, ast.Call):
            return ast.unparse(st.exc.func)
    return None


def _sig_defaults(f):
    names = [a.arg for a in f.args.args]
    ds = f.args.defaults
    return names, {n: ast.literal_eval(d) for n, d in zip(names[len(names) - len(ds):], ds)}


_GEN_ERRORS = []          # groups whose shape was not recognised in the last gen_lean() (reported through the obligations)
_SENTINEL = {"String": '"UNRECOGNISED"', "List String": '["UNRECOGNISED"]', "Nat": "0", "Int": "0", "Bool": "false",
             "List Nat": "[]", "List Int": "[]", "List (String × String)": "[]", "List (String × String × Nat)": "[]",
             "List (Int × Nat)": "[]", "Int × Nat": "((0 : Int), (1 : Nat))"}


def _safe_group(fn, defs, title, errors):
    """Run one extraction group; if the source no longer has the shape the group looks for, do not crash the translator:
    emit the group's definitions with sentinel values, so that the *named* Lean obligation of that group fails."""
    try:
        return fn()
    except Exception as e:  # noqa: BLE001
        errors.append(f"{title}: {type(e).__name__}: {e}")
        return [f"/- NOT RECOGNISED ({title}): {str(e)[:200].replace('-/', '- /')} -/"] + \
               [f"def {n} : {t.strip()} := {_SENTINEL[t.strip()]}" for n, t in defs]


def _gen_structure(tree, cmp_tree, geo_tree, H):
    """Structural facts of the anchored source the hand-written model hard-codes, as Lean definitions."""
    L = []
    errors = _GEN_ERRORS
    S = lambda x: '"' + str(x) + '"'                                  # noqa: E731
    SL = lambda xs: "[" + ", ".join(S(x) for x in xs) + "]"             # noqa: E731
    IL = lambda xs: "[" + ", ".join(str(int(x)) for x in xs) + "]"      # noqa: E731

    def _g0():
        L = []
        # ---- AffineTransformation.__init__ : parameter order and the dimensionalities of _expand_dims
        f = _find_func(tree, "__init__", "AffineTransformation")
        params = [a.arg for a in f.args.args][1:]
        dims = {}
        for st in f.body:
            if isinstance(st, ast.Assign) and isinstance(st.value, ast.Call) and _u(st.value.func) == H["expand"]:
                dims[st.targets[0].attr] = (ast.unparse(st.value.args[0]), ast.literal_eval(st.value.args[1]))
        _need(len(dims) == 3, "__init__ does not store three _expand_dims(...) results")
        L += ["/-- constructor parameters (the adapter passes them positionally) and `attr := _expand_dims(param, n)`. -/",
              f"def ctorParams : List String := {SL(params)}",
              "def ctorStores : List (String × String × Nat) := [" + ", ".join(f"({S(a)}, {S(dims[a][0])}, {dims[a][1]})" for a in sorted(dims)) + "]"]
        g = _alpha(_find_func(tree, H["expand"]))
        w = [st for st in g.body if isinstance(st, (ast.While, ast.For))]
        ok = len(w) == 1 and len(w[0].body) == 1 and _u(w[0].body[0]) == "P0=P0[np.newaxis,...]" and _u(g.body[-1]) == "returnP0" and (
            (isinstance(w[0], ast.While) and _u(w[0].test) == "P0.ndim<P1")
            or (isinstance(w[0], ast.For) and _u(w[0].iter) == "range(P1-P0.ndim)"))        # the same number of prepended axes
        _need(ok, "the dimension-expanding helper does not prepend axes until ndim == n")
        L += ['def expandDims : String := "prepend-axes-while-ndim<n"']
        return L
    L += _safe_group(_g0, [('ctorParams', 'List String'), ('ctorStores', 'List (String × String × Nat)'), ('expandDims', 'String')], 'AffineTransformation.__init__ ', errors)

    def _g1():
        L = []
        # ---- apply: model-count guard, copy of the input, result reshaped to the input shape
        f = _find_func(tree, "apply", "AffineTransformation")
        guard = [st for st in f.body if isinstance(st, ast.If) and _raise_class(st.body)]
        _need(len(guard) == 1 and isinstance(guard[0].test, ast.Compare), "apply has not exactly one raising guard")
        t = guard[0].test
        xs = [st.targets[0].id for st in f.body if isinstance(st, ast.Assign) and _u(st.value) == "coord(atoms)"]
        _need(len(xs) == 1, "apply does not start from coord(atoms)")
        X = xs[0]                                           # the local holding the coordinates, whatever it is called
        _need(_u(t.left) == f"{X}.shape[0]" and isinstance(t.comparators[0], ast.Subscript), "apply guard does not compare <coordinates>.shape[0]")
        attr = [n.attr for n in ast.walk(t.comparators[0]) if isinstance(n, ast.Attribute) and isinstance(n.value, ast.Name) and n.value.id == "self"]
        _need(len(attr) == 1 and _u(t.comparators[0]) == f"self.{attr[0]}.shape[0]", "apply guard right-hand side is not self.<attr>.shape[0]")
        copies = any(isinstance(st, ast.Assign) and _u(st.value) == f"{X}.copy()" for st in f.body)
        shp = [st.targets[0].id for st in f.body if isinstance(st, ast.Assign) and isinstance(st.targets[0], ast.Name)
               and _u(st.value) == f"{X}.shape"]              # the local remembering the input shape, whatever it is called
        reshape = len(shp) == 1 and any(isinstance(st, ast.Assign) and _u(st.value).endswith(f".reshape({shp[0]})") for st in f.body)
        pre = [_us(st.value, {X: "mobile_coord"}) for st in f.body if isinstance(st, ast.Assign) and isinstance(st.targets[0], ast.Name)
               and st.targets[0].id == X]
        pre = [x.replace(H["reshape"] + "(", "RESHAPE3D(") for x in pre]
        L += ["/-- `apply`: `if mobile_coord.shape[0] <cmp> self.<attr>.shape[0]: raise <exc>`; works on a copy; reshapes back. -/",
              f"def applyGuard : List String := {SL([_cmp_name(t.ops[0]), attr[0], _raise_class(guard[0].body)])}",
              f"def applyCopiesInput : Bool := {'true' if copies else 'false'}",
              f"def applyReshapesBack : Bool := {'true' if reshape else 'false'}",
              f"def applyInput : List String := {SL(pre)}"]
        return L
    L += _safe_group(_g1, [('applyGuard', 'List String'), ('applyCopiesInput', 'Bool'), ('applyReshapesBack', 'Bool'), ('applyInput', 'List String')], 'apply', errors)

    def _g2():
        L = []
        # ---- _reshape_to_3d: the ndim ladder
        f = _find_func(tree, H["reshape"])
        ladder = _ndim_table(f)

        L += ["/-- `_reshape_to_3d`: what happens for ndim = 0..5 (semantic table, independent of the order of the tests). -/", f"def reshapeLadder : List String := {SL(ladder)}"]
        return L
    L += _safe_group(_g2, [('reshapeLadder', 'List String')], '_reshape_to_3d', errors)

    def _g3():
        L = []
        # ---- as_matrix: size of the identity matrices, where the model count comes from; _3d_identity
        f = _find_func(tree, "as_matrix", "AffineTransformation")
        calls = [n for n in ast.walk(f) if isinstance(n, ast.Call) and _u(n.func) == H["identity"]]
        _need(len(calls) == 3 and all(len(c.args) == 2 and not c.keywords for c in calls), "as_matrix does not build three _3d_identity(m, n)")
        sizes = sorted({ast.literal_eval(c.args[1]) for c in calls})
        cnt = {_u(c.args[0]) for c in calls}
        _need(len(sizes) == 1 and len(cnt) == 1, "the three identity matrices differ")
        cnt_name = next(iter(cnt))
        cnt_src = [_u(st.value) for st in f.body if isinstance(st, ast.Assign) and _u(st.targets[0]) == cnt_name]
        _need(len(cnt_src) == 1, "model count of as_matrix not found")
        g = _alpha(_find_func(tree, H["identity"]))
        z = [n for n in ast.walk(g) if isinstance(n, ast.Call) and _u(n.func) in ("np.zeros", "np.eye")]
        _need(len(z) == 1 and [k.arg for k in z[0].keywords] == ["dtype"], "identity helper: one np.zeros/np.eye(..., dtype=…) expected")
        if _u(z[0].func) == "np.zeros":          # zeros((m,n,n)) + diagonal := 1
            diag = [st for st in g.body if isinstance(st, ast.Assign) and isinstance(st.targets[0], ast.Subscript)]
            rng_ = [st for st in g.body if isinstance(st, ast.Assign) and _u(st.value) == "np.arange(P1)"]
            _need(_u(z[0].args[0]) == "(P0,P1,P1)" and len(diag) == 1 and len(rng_) == 1 and ast.literal_eval(diag[0].value) == 1
                  and _u(diag[0].targets[0]) == "L0[:,{0},{0}]".format(rng_[0].targets[0].id), "identity helper: zeros + unit diagonal")
        else:                                       # broadcast_to(eye(n), (m,n,n)).copy()
            _need(_u(g.body[-1]) == "returnnp.broadcast_to(np.eye(P1,dtype=" + _u(z[0].keywords[0].value) + "),(P0,P1,P1)).copy()",
                  "identity helper: broadcast eye form")
        L += ["/-- `as_matrix`: identity size, source of the model count; `_3d_identity`: dtype of the zeros, diagonal value 1. -/",
              f"def matrixSize : Nat := {sizes[0]}", f"def matrixCount : String := {S(cnt_src[0])}",
              f"def identityDtype : String := {S(_u(z[0].keywords[0].value))}"]
        return L
    L += _safe_group(_g3, [('matrixSize', 'Nat'), ('matrixCount', 'String'), ('identityDtype', 'String')], 'as_matrix', errors)

    def _g4():
        L = []
        # ---- superimpose: mask indexing, centroids of the FILTERED arrays, centring, argument order of the rotation, return
        f = _find_func(tree, "superimpose")
        names, dflt = _sig_defaults(f)
        maskif = [st for st in f.body if isinstance(st, ast.If) and _u(st.test) in ("atom_maskisnotNone", "atom_maskisNone")]
        _need(len(maskif) == 1, "superimpose: `if atom_mask is (not) None` not found")
        masked_branch, plain_branch = (maskif[0].body, maskif[0].orelse) if _u(maskif[0].test) == "atom_maskisnotNone" \
            else (maskif[0].orelse, maskif[0].body)
        filt = {}
        for st in masked_branch:
            _need(isinstance(st, ast.Assign) and isinstance(st.value, ast.Subscript), "mask branch is not a pair of subscript assignments")
            sl = st.value.slice
            _need(isinstance(sl, ast.Tuple) and [_u(e) for e in sl.elts] == [":", "atom_mask", ":"], "mask is not applied as [:, atom_mask, :]")
            filt[st.targets[0].id] = ast.unparse(st.value.value)
        unf = {st.targets[0].id: _u(st.value) for st in plain_branch if isinstance(st, ast.Assign)}
        _need(set(unf) == set(filt) and all(unf[k] == f"np.copy({filt[k]})" for k in filt), "unmasked branch is not np.copy of the same arrays")
        src3d = {st.targets[0].id: _u(st.value) for st in f.body if isinstance(st, ast.Assign) and isinstance(st.targets[0], ast.Name)
                 and _u(st.value).startswith(H["reshape"] + "(coord(")}
        role = {k: src3d[v][len(H["reshape"] + "(coord("):-2] for k, v in filt.items()}        # filtered var -> fixed/mobile
        _need(sorted(role.values()) == ["fixed", "mobile"], "filtered arrays do not come from coord(fixed) / coord(mobile)")
        cents, centred = {}, {}
        for st in f.body:
            if isinstance(st, ast.Assign) and isinstance(st.value, ast.Call) and _u(st.value.func) == "centroid":
                a = _u(st.value.args[0])
                _need(a in role, f"centroid is taken of `{a}`, not of a mask-filtered array")
                cents[st.targets[0].id] = role[a]
            if isinstance(st, ast.Assign) and isinstance(st.value, ast.BinOp) and isinstance(st.value.op, ast.Sub):
                l, r = _u(st.value.left), _u(st.value.right)
                _need(l in role and r.endswith("[:,np.newaxis,:]") and cents.get(r.split("[")[0]) == role[l],
                      f"centring `{ast.unparse(st.value)}` does not subtract the array's own centroid")
                centred[st.targets[0].id] = role[l]
        rc = [n for n in ast.walk(f) if isinstance(n, ast.Call) and _u(n.func) == H["rotation"]]
        _need(len(rc) == 1 and len(rc[0].args) == 2 and all(_u(a) in centred for a in rc[0].args), "rotation is not computed from the two centred arrays")
        ret = [st for st in f.body if isinstance(st, ast.Return)][-1].value
        tn = [st.targets[0].id for st in f.body if isinstance(st, ast.Assign) and isinstance(st.value, ast.Call)
              and _u(st.value.func) == "AffineTransformation"]
        _need(len(tn) == 1, "superimpose: one AffineTransformation(...) assignment")
        tname = tn[0]
        L += ["/-- `superimpose`: signature, mask application, what the centroids are taken of, centring, rotation arguments, result. -/",
              f"def supParams : List String := {SL(names)}",
              f"def supDefaults : List (String × String) := [" + ", ".join(f"({S(k)}, {S(v)})" for k, v in dflt.items()) + "]",
              f"def supMaskSlice : String := {S('[:,atom_mask,:]')}",
              f"def supCentroidOf : List String := {SL(sorted('filtered-' + v for v in cents.values()))}",
              f"def supCentred : List String := {SL(sorted(centred.values()))}",
              f"def supRotationArgs : List String := {SL([centred[_u(a)] for a in rc[0].args])}",
              f"def supReturn : String := {S(_us(ret, {tname: 'transform'}))}"]
        return L
    L += _safe_group(_g4, [('supParams', 'List String'), ('supDefaults', 'List (String × String)'), ('supMaskSlice', 'String'), ('supCentroidOf', 'List String'), ('supCentred', 'List String'), ('supRotationArgs', 'List String'), ('supReturn', 'String')], 'superimpose', errors)

    def _g5():
        L = []
        # ---- _get_rotation_matrices: the covariance expression and that it reaches svd unchanged
        f = _find_func(tree, H["rotation"])
        fparams = [a.arg for a in f.args.args]
        body = [st for st in f.body if not (isinstance(st, ast.Expr) and isinstance(st.value, ast.Constant))]
        _need(isinstance(body[0], ast.Assign) and isinstance(body[0].value, ast.Call) and _u(body[0].value.func) == "np.sum",
              "first statement of _get_rotation_matrices is not cov = np.sum(...)")
        c = body[0].value
        _need(len(c.args) == 1 and isinstance(c.args[0], ast.BinOp) and isinstance(c.args[0].op, ast.Mult)
              and [k.arg for k in c.keywords] == ["axis"], "covariance is not np.sum(a * b, axis=…)")
        fac = []
        for side in (c.args[0].left, c.args[0].right):
            _need(isinstance(side, ast.Subscript) and isinstance(side.value, ast.Name) and isinstance(side.slice, ast.Tuple), "covariance factor is not name[...]")
            el = [_u(e) for e in side.slice.elts]
            _need(el.count("np.newaxis") == 1 and all(e in (":", "np.newaxis") for e in el) and len(el) == 4, "covariance factor slice")
            fac.append(f"{fparams.index(side.value.id)}@{el.index('np.newaxis')}")
        cov_name = body[0].targets[0].id
        _need(isinstance(body[1], ast.Assign) and isinstance(body[1].value, ast.Call) and _u(body[1].value.func) == "np.linalg.svd"
              and [_u(a) for a in body[1].value.args] == [cov_name] and not body[1].value.keywords,
              "the covariance does not go straight (next statement, unmodified, no keywords) into np.linalg.svd")
        L += ["/-- `_get_rotation_matrices(fixed, mobile)`: `cov = np.sum(p0[..newaxis@i] * p1[..newaxis@j], axis=k)` handed directly to svd. -/",
              f"def rotParams : List String := {SL(['fixed', 'mobile'] if len(fparams) == 2 else fparams)}",  # called as (fixed, mobile): supRotationArgs
              f"def covFactors : List String := {SL(fac)}", f"def covAxis : Int := {ast.literal_eval(c.keywords[0].value)}",
              "def covDirectlyToSvd : Bool := true"]
        return L
    L += _safe_group(_g5, [('rotParams', 'List String'), ('covFactors', 'List String'), ('covAxis', 'Int'), ('covDirectlyToSvd', 'Bool')], '_get_rotation_matrices', errors)

    def _g6():
        L = []
        # ---- _multi_matmul
        f = _alpha(_find_func(tree, H["matmul"]))
        r = [st for st in f.body if isinstance(st, ast.Return)][0].value
        _need(_u(r) == "np.transpose(np.matmul(P0,np.transpose(P1,axes=(0,2,1))),axes=(0,2,1))", "the batched matmul helper changed: " + ast.unparse(r))
        L += ['def multiMatmul : String := "transpose(matmul(matrices, transpose(vectors,(0,2,1))),(0,2,1))"']
        return L
    L += _safe_group(_g6, [('multiMatmul', 'String')], '_multi_matmul', errors)

    def _g7():
        L = []
        # ---- superimpose_without_outliers: everything the loop model hard-codes
        f = _find_func(tree, "superimpose_without_outliers")
        names, dflt = _sig_defaults(f)
        g0 = [st for st in f.body if isinstance(st, ast.If)][0]
        q = [st for st in f.body if isinstance(st, ast.Assign) and _u(st.targets[0]) == "quantiles"]
        init = [st for st in f.body if isinstance(st, ast.Assign) and _u(st.value).startswith("np.ones(")]
        loop = [st for st in f.body if isinstance(st, ast.For)]
        _need(len(loop) == 1 and len(init) == 1 and len(q) == 1, "outlier loop / initial mask / quantile sorting not found")
        lb = loop[0].body
        sq = [st for st in lb if isinstance(st, ast.Assign) and isinstance(st.value, ast.BinOp) and isinstance(st.value.op, ast.Pow)]
        _need(len(sq) == 1 and isinstance(sq[0].value.left, ast.Call), "squared distance expression not found")
        dcall = sq[0].value.left
        sup_call = [st for st in lb if isinstance(st, ast.Assign) and isinstance(st.value, ast.Call) and _u(st.value.func) == "superimpose"]
        _need(len(sup_call) == 1 and len(sup_call[0].value.args) == 2 and not sup_call[0].value.keywords, "inner superimpose(fixed_sel, mobile_sel) call")
        sel = {}
        for st in lb:
            if isinstance(st, ast.Assign) and isinstance(st.value, ast.Subscript) and isinstance(st.value.slice, ast.Tuple) \
                    and len(st.value.slice.elts) == 3 and _u(st.value.slice.elts[0]) == "...":
                sel[st.targets[0].id] = _u(st.value.value)
        coord_src = {st.targets[0].id: _u(st.value) for st in f.body if isinstance(st, ast.Assign) and _u(st.value).startswith("coord(")}
        inner = [coord_src.get(sel.get(_u(a), ""), "?") for a in sup_call[0].value.args]
        fit_out = [_u(e) for e in sup_call[0].targets[0].elts]
        d_args = [(_u(a) == fit_out[0] and "superimposed") or coord_src.get(sel.get(_u(a), ""), "?") for a in dcall.args]
        meanif = [st for st in lb if isinstance(st, ast.If) and "ndim" in _u(st.test)]
        _need(len(meanif) == 1 and isinstance(meanif[0].test, ast.Compare), "mean over models not found")
        mcall = meanif[0].body[0].value
        qcall = [st for st in lb if isinstance(st, ast.Assign) and isinstance(st.value, ast.Call) and _u(st.value.func) == "np.quantile"]
        _need(len(qcall) == 1 and isinstance(qcall[0].targets[0], ast.Tuple), "np.quantile call")
        qn = [_u(e) for e in qcall[0].targets[0].elts]
        ipr = [st for st in lb if isinstance(st, ast.Assign) and isinstance(st.value, ast.BinOp) and isinstance(st.value.op, ast.Sub)
               and {_u(st.value.left), _u(st.value.right)} == set(qn)]
        _need(len(ipr) == 1, "ipr = upper - lower not found")
        bound = [st for st in lb if isinstance(st, ast.Assign) and isinstance(st.targets[0], ast.Subscript) and isinstance(st.value, ast.Compare)][0].value.comparators[0]
        bl = [_u(x) for x in (bound.left, bound.right)]
        _need(qn[1] in bl, "the bound does not start from the UPPER quantile")
        mult = bound.right if _u(bound.left) == qn[1] else bound.left
        _need({_u(mult.left), _u(mult.right)} == {"outlier_threshold", ipr[0].targets[0].id}, "the bound is not upper + outlier_threshold * ipr")
        breaks = []
        for st in lb:
            if isinstance(st, ast.If) and any(isinstance(x, ast.Break) for x in st.body):
                # `if A: break` `if B: break`  ==  `if A or B: break` (same short-circuit order)
                for t_ in (st.test.values if isinstance(st.test, ast.BoolOp) and isinstance(st.test.op, ast.Or) else [st.test]):
                    breaks.append("all" if _u(t_).startswith("np.all(") else ("min_anchors" if "min_anchors" in _u(t_) else _u(t_)))
        ret = [st for st in f.body if isinstance(st, ast.Return)][-1].value
        L += ["/-- `superimpose_without_outliers`: signature, first guard, loop, squared distance, mean over models, quantiles, bound, exits, result. -/",
              f"def wooParams : List String := {SL(names)}",
              f"def wooFirstGuard : List String := {SL([_u(g0.test), _raise_class(g0.body)])}",
              f"def wooQuantilePrep : String := {S(_u(q[0].value))}",
              f"def wooInitialMask : String := {S(_us(init[0].value, coord_src))}",
              f"def wooLoop : String := {S(_u(loop[0].iter))}",
              f"def wooInnerFit : List String := {SL(inner)}",
              f"def wooSqDist : List String := {SL([_u(dcall.func)] + d_args + ['**' + _u(sq[0].value.right)])}",
              f"def wooMeanOverModels : List String := {SL([_cmp_name(meanif[0].test.ops[0]), ast.literal_eval(meanif[0].test.comparators[0]), _u(mcall.func)] + [k.arg + '=' + _u(k.value) for k in mcall.keywords])}",
              f"def wooQuantileCall : List String := {SL([_us(a, {sq[0].targets[0].id: 'SQ_DIST'}) for a in qcall[0].value.args] + [k.arg for k in qcall[0].value.keywords])}",
              f"def wooIprIsSecondMinusFirst : Bool := {'true' if (_u(ipr[0].value.left), _u(ipr[0].value.right)) == (qn[1], qn[0]) else 'false'}",
              f"def wooBreaks : List String := {SL(breaks)}",
              f"def wooReturn : String := {S(_us(ret, {ret.elts[2].id: 'anchor_indices', fit_out[1]: 'transform'}) if isinstance(ret, ast.Tuple) and len(ret.elts) == 3 and isinstance(ret.elts[2], ast.Name) else _u(ret))}"]
        return L
    L += _safe_group(_g7, [('wooParams', 'List String'), ('wooFirstGuard', 'List String'), ('wooQuantilePrep', 'String'), ('wooInitialMask', 'String'), ('wooLoop', 'String'), ('wooInnerFit', 'List String'), ('wooSqDist', 'List String'), ('wooMeanOverModels', 'List String'), ('wooQuantileCall', 'List String'), ('wooIprIsSecondMinusFirst', 'Bool'), ('wooBreaks', 'List String'), ('wooReturn', 'String')], 'superimpose_without_outliers', errors)

    def _g8():
        L = []
        # ---- superimpose_homologs and its helpers
        f = _find_func(tree, "superimpose_homologs")
        names, dflt = _sig_defaults(f)
        guards = []
        for st in ast.walk(f):
            if isinstance(st, ast.If) and _raise_class(st.body):
                t = st.test
                if isinstance(t, ast.BoolOp):
                    guards.append(type(t.op).__name__ + ":" + ",".join(_cmp_name(x.ops[0]) + ":" + _u(x.comparators[0]) for x in t.values) + ":" + _raise_class(st.body))
                else:
                    guards.append(_cmp_name(t.ops[0]) + ":" + _u(t.comparators[0]) + ":" + _raise_class(st.body))
        env = {}
        for st in f.body:
            if isinstance(st, ast.Assign) and isinstance(st.value, ast.Call) and isinstance(st.targets[0], ast.Name):
                fn = _u(st.value.func)
                if fn == H["backbone"]:
                    env[st.targets[0].id] = f"BACKBONE_{_u(st.value.args[0])}"
                elif fn == H["matching"]:
                    env[st.targets[0].id] = "MATCHED"
        _need(sorted(env.values()) == ["BACKBONE_fixed", "BACKBONE_mobile", "MATCHED"], "backbone indices / matched anchors assignments")
        guards = []
        for st in ast.walk(f):
            if isinstance(st, ast.If) and _raise_class(st.body):
                t = st.test
                parts = t.values if isinstance(t, ast.BoolOp) else [t]
                guards.append((type(t.op).__name__ + ":" if isinstance(t, ast.BoolOp) else "") +
                              ",".join(_us(x.left, env) + " " + _cmp_name(x.ops[0]) + " " + _us(x.comparators[0], env) for x in parts)
                              + ":" + _raise_class(st.body))
        fb = [st for st in f.body if isinstance(st, ast.If) and not _raise_class(st.body)]
        _need(len(fb) == 1 and isinstance(fb[0].test, ast.Compare), "fallback test not found")
        cols = {}
        for st in fb[0].orelse:
            if isinstance(st, ast.Assign):
                cols[_us(st.value.value, env)] = _us(st.value.slice, env)
        wc = [n for n in ast.walk(f) if isinstance(n, ast.Call) and _u(n.func) == "superimpose_without_outliers"]
        _need(len(wc) == 1, "call of superimpose_without_outliers")
        L += ["/-- `superimpose_homologs`: signature + defaults, raising guards in order, fallback test, alignment columns, forwarded arguments. -/",
              f"def homParams : List String := {SL(names + (['**' + f.args.kwarg.arg] if f.args.kwarg else []))}",
              f"def homDefaults : List (String × String) := [" + ", ".join(f"({S(k)}, {S(v)})" for k, v in dflt.items()) + "]",
              f"def homGuards : List String := {SL(guards)}",
              f"def homFallbackTest : List String := {SL([_us(fb[0].test.left, env), _cmp_name(fb[0].test.ops[0]), _us(fb[0].test.comparators[0], env)])}",
              f"def homColumns : List (String × String) := [" + ", ".join(f"({S(k)}, {S(v)})" for k, v in sorted(cols.items())) + "]",
              f"def homWooArgs : List String := {SL([_u(a) for a in wc[0].args[2:]] + [('**' if k.arg is None else k.arg + '=') + _u(k.value) for k in wc[0].keywords])}"]
        f = _find_func(tree, H["backbone"])
        strs = [n.value for n in ast.walk(f) if isinstance(n, ast.Constant) and isinstance(n.value, str) and len(n.value) < 4]
        fl = [_u(n.func) for n in ast.walk(f) if isinstance(n, ast.Call) and _u(n.func).startswith("filter_")]
        L += [f"def backboneAtoms : List String := {SL(sorted(zip(fl, strs)) and [a + ':' + b for a, b in sorted(zip(fl, strs))])}"]
        f = _find_func(tree, H["matching"])
        loop = [st for st in f.body if isinstance(st, ast.For)][0]
        _need(_u(loop.iter.func) == "zip" and isinstance(loop.target, ast.Tuple) and len(loop.target.elts) == 2, "chain loop is not `for a, b in zip(...)`")
        zip_kw = [k.arg + "=" + _u(k.value) for k in loop.iter.keywords]
        zpos = {e.id: i for i, e in enumerate(loop.target.elts)}
        seq_of = {}
        for st in loop.body:
            if isinstance(st, ast.Assign) and "to_sequence(" in _u(st.value):
                arg = [n for n in ast.walk(st.value) if isinstance(n, ast.Call) and _u(n.func) == "to_sequence"][0].args[0]
                seq_of[st.targets[0].id] = zpos[_u(arg)]
        add = [st for st in loop.body if isinstance(st, ast.AugAssign) and isinstance(st.value, ast.Tuple)]
        _need(len(add) == 1 and isinstance(add[0].op, ast.Add) and len(add[0].value.elts) == 2, "`anchors += off_a, off_b` not found")
        col_of = {_u(e): i for i, e in enumerate(add[0].value.elts)}
        incs = []
        for st in loop.body:
            if isinstance(st, ast.AugAssign) and _u(st.target) in col_of:
                _need(isinstance(st.op, ast.Add) and isinstance(st.value, ast.Call) and _u(st.value.func) == "len", "offset increment is not += len(seq)")
                incs.append(f"{col_of[_u(st.target)]}<-{seq_of[_u(st.value.args[0])]}")
        inits = {st.targets[0].id: ast.literal_eval(st.value) for st in f.body if isinstance(st, ast.Assign) and _u(st.targets[0]) in col_of}
        score = [n.slice for n in ast.walk(loop) if isinstance(n, ast.Subscript) and isinstance(n.value, ast.Attribute)
             and n.value.attr == "trace" and isinstance(n.slice, ast.Compare) and isinstance(n.slice.left, ast.Subscript)]
        _need(len(score) == 1, "positive-score filter not found")
        al = [n for n in ast.walk(loop) if isinstance(n, ast.Call) and _u(n.func) == "align_optimal"][0]
        L += ["/-- `_find_matching_anchors`: column c of the anchors is offset by a counter advanced by the length of the sequence",
              "    of zip position p (`c<-p`), counters start at 0, zip is strict, only positively scoring columns, one alignment. -/",
              f"def anchorOffsetIncrements : List String := {SL(sorted(incs))}",
              f"def anchorOffsetStart : List Int := {IL(inits[k] for k in sorted(inits))}",
              f"def chainZip : List String := {SL(zip_kw)}",
              f"def scoreFilter : List String := {SL([_cmp_name(score[0].ops[0]), _u(score[0].comparators[0])])}",
              f"def alignKeywords : List String := {SL(sorted(k.arg + '=' + _u(k.value) for k in al.keywords))}",
              f"def alignArgs : List String := {SL([str(seq_of.get(_u(a), _u(a))) for a in al.args])}"]
        return L
    L += _safe_group(_g8, [('homParams', 'List String'), ('homDefaults', 'List (String × String)'), ('homGuards', 'List String'), ('homFallbackTest', 'List String'), ('homColumns', 'List (String × String)'), ('homWooArgs', 'List String'), ('backboneAtoms', 'List String'), ('anchorOffsetIncrements', 'List String'), ('anchorOffsetStart', 'List Int'), ('chainZip', 'List String'), ('scoreFilter', 'List String'), ('alignKeywords', 'List String'), ('alignArgs', 'List String')], 'superimpose_homologs and its helpers', errors)

    def _g9():
        L = []
        # ---- compare.rmsd / _sq_euclidian, geometry.centroid
        f = _find_func(cmp_tree, "rmsd")
        r = [st for st in f.body if isinstance(st, ast.Return)][0].value
        g = _find_func(cmp_tree, H["sqeuclid"])
        gg = [st for st in g.body if isinstance(st, ast.If)][0]
        dif = [st for st in g.body if isinstance(st, ast.Assign) and isinstance(st.value, ast.BinOp) and isinstance(st.value.op, ast.Sub)][0]
        h = _find_func(geo_tree, "centroid")
        hr = [st for st in h.body if isinstance(st, ast.Return)][0].value
        cenv = {st.targets[0].id: _u(st.value) for st in g.body if isinstance(st, ast.Assign) and _u(st.value).startswith("coord(")}
        L += ["/-- `rmsd`, `_sq_euclidian` (compare.py) and `centroid` (geometry.py). -/",
              f"def rmsdExpr : String := {S(_u(r).replace(H['sqeuclid'] + '(', 'SQ_EUCLID('))}",
              f"def sqEuclidGuard : List String := {SL([_us(gg.test, cenv), _raise_class(gg.body)])}",
              f"def sqEuclidDiff : String := {S(_us(dif.value, cenv))}",
              f"def centroidExpr : String := {S(_u(hr))}"]
        return L
    L += _safe_group(_g9, [('rmsdExpr', 'String'), ('sqEuclidGuard', 'List String'), ('sqEuclidDiff', 'String'), ('centroidExpr', 'String')], 'compare.rmsd / _sq_euclidian, geometry.centroid', errors)

    return L


# ---------------------------------------------------------------- stubs for the exact streams
class _LinalgShim:
    def __init__(self, pairs):
        self.pairs = pairs

    def svd(self, cov):
        import numpy as np
        m = cov.shape[0]
        v = np.empty((m, 3, 3), dtype=cov.dtype)
        w = np.empty((m, 3, 3), dtype=cov.dtype)
        for k in range(m):
            idx = int(math.floor(float(cov[k, 0, 0]))) % len(self.pairs)
            v[k], w[k] = self.pairs[idx]
        return v, np.zeros((m, 3), dtype=cov.dtype), w

    def __getattr__(self, name):
        import numpy as np
        return getattr(np.linalg, name)


class _NpShim:
    def __init__(self, pairs, log):
        self.linalg = _LinalgShim(pairs)
        self._log = log

    def sum(self, a, *args, **kw):          # records the cross-covariance (the only np.sum in the module)
        import numpy as np
        r = np.sum(a, *args, **kw)
        self._log.append(r)
        return r

    def __getattr__(self, name):
        import numpy as np
        return getattr(np, name)


class _SpyLinalg:
    """np.linalg with a recording `svd` (the real LAPACK call; inputs and outputs are copied at call time,
    because `_get_rotation_matrices` flips a column of `v` in place afterwards)."""
    def __init__(self, log):
        self._log = log

    def svd(self, a, *args, **kw):
        import numpy as np
        r = np.linalg.svd(a, *args, **kw)
        self._log.append((np.array(a, copy=True), np.array(r[0], copy=True), np.array(r[1], copy=True), np.array(r[2], copy=True)))
        return r

    def __getattr__(self, name):
        import numpy as np
        return getattr(np.linalg, name)


class _SpyNp:
    def __init__(self, log):
        self.linalg = _SpyLinalg(log)

    def __getattr__(self, name):
        import numpy as np
        return getattr(np, name)


def _check_svd_contract(log, v):
    """The assumption of the Lean theorem `C16_kabsch_optimal` (`IsSVD`), checked on what LAPACK actually returned:
    orthogonal factors, H = V·diag(s)·W, singular values descending and non-negative (float32 tolerances)."""
    import numpy as np
    for H, V, sv, W in log:
        H, V, sv, W = (np.asarray(x, dtype=np.float64) for x in (H, V, sv, W))
        for k in range(H.shape[0]):
            scale = max(1e-30, float(np.abs(H[k]).max()))
            eye = np.eye(3)
            if not (np.all(np.isfinite(V[k])) and np.all(np.isfinite(W[k])) and np.all(np.isfinite(sv[k]))):
                v.append(("C16/svd-contract/non-finite", f"model {k}: svd returned non-finite values for H={H[k].tolist()}"))
                return
            dev = max(np.abs(V[k].T @ V[k] - eye).max(), np.abs(W[k] @ W[k].T - eye).max())
            if dev > 2e-5:
                v.append(("C16/svd-contract/factors-not-orthogonal", f"model {k}: max deviation {dev:.3g}"))
                return
            rec = np.abs((V[k] * sv[k]) @ W[k] - H[k]).max()
            if rec > 2e-5 * scale:
                v.append(("C16/svd-contract/does-not-reconstruct", f"model {k}: |V·diag(s)·W - H| = {rec:.3g} (scale {scale:.3g})"))
                return
            if not (sv[k][0] >= sv[k][1] >= sv[k][2] >= 0):
                v.append(("C16/svd-contract/singular-values-not-sorted", f"model {k}: s = {sv[k].tolist()}"))
                return


@contextlib.contextmanager
def _patched(**attrs):
    S = _mod()
    old = {k: getattr(S, k) for k in attrs}
    try:
        for k, v in attrs.items():
            setattr(S, k, v)
        yield S
    finally:
        for k, v in old.items():
            setattr(S, k, v)


def _identity_sup(fixed, mobile, atom_mask=None):
    import numpy as np
    S = _mod()
    mob = S.coord(mobile)
    k = _hp("reshape")(mob).shape[0]
    eye = np.zeros((k, 3, 3), dtype=np.float32)
    eye[:, [0, 1, 2], [0, 1, 2]] = 1
    T = S.AffineTransformation(np.zeros((k, 3), dtype=np.float32), eye, np.zeros((k, 3), dtype=np.float32))
    return mob.copy(), T


# ---------------------------------------------------------------- implementation adapter
def _err(e):
    return "ERR:" + type(e).__name__


def _coords(dim, m, n, s, layout="c"):
    a = _parse(s, (m, n, 3))
    return _spell(a[0] if dim == "2" else a, layout)


def _transform(w, dt, layout="c"):
    import numpy as np
    S = _mod()
    k, c, m, r, l, t = w
    k, m, l = int(k), int(m), int(l)
    return S.AffineTransformation(_spell(_parse(c, (k, 3), dt[0]), layout), _spell(_parse(r, (m, 3, 3), dt[1]), layout),
                                  _spell(_parse(t, (l, 3), dt[2]), layout))


def run_impl(case):
    import numpy as np
    S = _mod()
    out = []
    dt = case.get("dt", ["float32", "float32", "float32"])
    lay = case.get("layout", "c")           # same values, another memory layout / byte order / width
    for op in case["ops"]:
        w = op.split()
        try:
            if w[0] == "apply":
                T = _transform(w[1:7], dt, lay)
                X = _coords(w[7], int(w[8]), int(w[9]), w[10], lay)
                # applied twice to the SAME object: the model is pure, so the second result must equal the first
                if case.get("atoms"):
                    X = _as_atoms(X)
                    T.apply(X)
                    out.append("ok " + _flat(T.apply(X).coord))
                else:
                    T.apply(X)
                    out.append("ok " + _flat(T.apply(X)))
            elif w[0] == "matrix":
                out.append("ok " + _flat(_transform(w[1:7], dt, lay).as_matrix()))
            elif w[0] == "rot":
                mf, mm = int(w[1]), int(w[2])
                nf, nm = (int(x) for x in (w[3].split(":") if ":" in w[3] else (w[3], w[3])))
                F, M = _parse(w[4], (mf, nf, 3)), _parse(w[5], (mm, nm, 3))
                pairs = _parse(w[7], (int(w[6]), 2, 3, 3))
                log = []
                with _patched(np=_NpShim(pairs, log)):
                    R = _hp("rotation")(F, M)
                out.append(f"ok cov={_flat(log[0])} R={_flat(R)}")
            elif w[0] == "sup":
                mask = None if w[1] == "-" else np.array([ch == "1" for ch in w[1]])
                n = int(w[6])
                F, M = _coords(w[2], int(w[3]), n, w[7], lay), _coords(w[4], int(w[5]), n, w[8], lay)
                if mask is not None and case.get("mask_as") == "list":
                    mask = mask.tolist()
                elif mask is not None and case.get("mask_as") == "readonly":
                    mask.setflags(write=False)
                elif mask is not None and case.get("mask_as") == "index" and len(mask) == n:
                    mask = np.where(mask)[0]          # the same selection as an integer index array
                pairs = _parse(w[10], (int(w[9]), 2, 3, 3))
                if case.get("atoms"):
                    F, M = _as_atoms(F), _as_atoms(M)
                with _patched(np=_NpShim(pairs, [])):
                    fit, T = S.superimpose(F, M, atom_mask=mask)
                fit = fit if isinstance(fit, np.ndarray) else fit.coord
                out.append(f"ok fit={_flat(fit)} c={_flat(T.center_translation)} R={_flat(T.rotation)} t={_flat(T.target_translation)}")
            elif w[0] == "woo":
                n = int(w[5])
                F, M = _coords(w[1], int(w[2]), n, w[6], lay), _coords(w[3], int(w[4]), n, w[7], lay)
                if case.get("atoms"):
                    F, M = _as_atoms(F), _as_atoms(M)
                sc = case.get("scalars", ["py", "py", "py", "tuple"])     # the same numbers as NumPy scalars
                minA = _spell_scalar(int(w[8]), sc[0]) if (int(w[8]) >= 0 or sc[0][0] == "i") else int(w[8])
                maxI = _spell_scalar(int(w[9]), sc[1]) if int(w[9]) >= 0 else int(w[9])
                qs = [_spell_scalar(float(Fraction(w[10])), sc[2] if sc[2][0] == "f" else "py"),
                      _spell_scalar(float(Fraction(w[11])), sc[2] if sc[2][0] == "f" else "py")]
                qs = {"tuple": tuple(qs), "list": qs, "ndarray": np.array(qs)}[sc[3]]
                thr = _spell_scalar(float(Fraction(w[12])), sc[2] if sc[2][0] == "f" else "py")
                snap = (_snapshot(F), _snapshot(M))
                with _patched(superimpose=_identity_sup):
                    try:
                        _, _, anchors = S.superimpose_without_outliers(
                            F, M, min_anchors=minA, max_iterations=maxI, quantiles=qs, outlier_threshold=thr)
                    finally:
                        if (_snapshot(F), _snapshot(M)) != snap:
                            out.append("INPUT-MODIFIED")
                            continue
                out.append("ok " + (",".join(str(int(i)) for i in anchors) if len(anchors) else "_"))
            elif w[0] == "hom":
                F = _as_atoms(_coords(w[1], int(w[2]), int(w[3]), w[7]))
                M = _as_atoms(_coords(w[4], int(w[5]), int(w[6]), w[8]))
                FI = np.array([] if w[9] == "_" else [int(x) for x in w[9].split(",")], dtype=int)
                MI = np.array([] if w[10] == "_" else [int(x) for x in w[10].split(",")], dtype=int)
                A = np.array([] if w[11] == "_" else [int(x) for x in w[11].split(",")], dtype=int).reshape(-1, 2)
                calls = []

                def backbone(atoms):
                    calls.append(1)
                    return (FI if len(calls) == 1 else MI).copy()
                with _patched(**{"superimpose": _identity_sup, _hname("backbone"): backbone,
                                 _hname("matching"): (lambda *a, **k: A.copy())}):
                    _, _, fi, mi = S.superimpose_homologs(
                        F, M, min_anchors=int(w[12]), max_iterations=int(w[13]),
                        quantiles=(float(Fraction(w[14])), float(Fraction(w[15]))), outlier_threshold=float(Fraction(w[16])))
                lst = lambda a: ",".join(str(int(i)) for i in a) if len(a) else "_"   # noqa: E731
                out.append(f"ok fi={lst(fi)} mi={lst(mi)}")
            elif w[0] == "fma":
                F, M = _atoms_from(case["fixed_atoms"]), _atoms_from(case["mobile_atoms"])
                FI, MI = _hp("backbone")(F), _hp("backbone")(M)
                A = _hp("matching")(F[..., FI], M[..., MI], None, -10, False)
                out.append("ok " + (",".join(str(int(x)) for x in np.asarray(A).ravel()) if len(A) else "_"))
            else:
                out.append("bad-op")
        except Exception as e:  # noqa: BLE001
            out.append(_err(e))
    return out


def _atoms_from(d):
    """AtomArray / AtomArrayStack from the JSON description of a `homc` case."""
    import numpy as np
    import biotite.structure as struc
    coord = np.array(d["coord"], dtype=np.float32)
    n = coord.shape[-2]
    a = struc.AtomArray(n) if coord.ndim == 2 else struc.AtomArrayStack(coord.shape[0], n)
    a.coord = coord
    a.atom_name = np.array(d["atom_name"])
    a.res_name = np.array(d["res_name"])
    a.chain_id = np.array(d["chain_id"])
    a.res_id = np.array(d["res_id"])
    a.element = np.array([x[0] for x in d["atom_name"]])
    return a


def _as_atoms(X):
    import biotite.structure as struc
    if X.ndim == 2:
        a = struc.AtomArray(X.shape[0])
        a.coord = X
        return a
    a = struc.AtomArrayStack(X.shape[0], X.shape[1])
    a.coord = X
    return a


# ---------------------------------------------------------------- generator: exact streams
_SIGNED_PERMS = None


def _signed_perms():
    global _SIGNED_PERMS
    if _SIGNED_PERMS is None:
        import itertools
        out = []
        for p in itertools.permutations(range(3)):
            for sg in itertools.product([1, -1], repeat=3):
                out.append([[sg[i] if p[i] == j else 0 for j in range(3)] for i in range(3)])
        _SIGNED_PERMS = out
    return _SIGNED_PERMS


def _det3(a):
    return (a[0][0] * (a[1][1] * a[2][2] - a[1][2] * a[2][1]) - a[0][1] * (a[1][0] * a[2][2] - a[1][2] * a[2][0])
            + a[0][2] * (a[1][0] * a[2][1] - a[1][1] * a[2][0]))


def _small(rng, dyadic=True):
    r = rng.random()
    if r < 0.6 or not dyadic:
        return Fraction(rng.randint(-4, 4))
    if r < 0.85:
        return Fraction(rng.randint(-9, 9), 2)
    return Fraction(rng.randint(-17, 17), 4)


def _mat(rng):
    r = rng.random()
    if r < 0.5:
        return [[Fraction(v) for v in row] for row in rng.choice(_signed_perms())]
    while True:
        a = [[Fraction(rng.randint(-2, 2)) for _ in range(3)] for _ in range(3)]
        if r < 0.8 or _det3(a) != 0:
            return a


def _flatten(x):
    if isinstance(x, (list, tuple)):
        for y in x:
            yield from _flatten(y)
    else:
        yield x


def _gen_apply(rng):
    m = rng.choice([1, 1, 2, 3])
    r = rng.random()
    k = m if r < 0.5 else 1
    ll = m if rng.random() < 0.5 else 1
    if rng.random() < 0.08:
        k = rng.choice([0, 2, 4])           # malformed centre translation
    if rng.random() < 0.08:
        ll = rng.choice([0, 2, 4])
    dim = "2" if (m == 1 and rng.random() < 0.5) else "3"
    mx = m
    if rng.random() < 0.1:
        mx = rng.choice([1, 2, 3])          # possibly mismatching model count
        dim = "3" if mx > 1 else rng.choice(["2", "3"])
    n = rng.choice([0, 1, 1, 2, 3, 5])
    c = [[_small(rng) for _ in range(3)] for _ in range(k)]
    R = [_mat(rng) for _ in range(m)]
    t = [[_small(rng) for _ in range(3)] for _ in range(ll)]
    X = [[[_small(rng) for _ in range(3)] for _ in range(n)] for _ in range(mx)]
    # special transformations: pure translation (zero centring AND identity rotation), identity, and each alone
    sp = rng.random()
    eye = [[Fraction(int(i == j)) for j in range(3)] for i in range(3)]
    if sp < 0.12:
        c = [[Fraction(0)] * 3 for _ in range(k)]
        R = [eye for _ in range(m)]
        if sp < 0.03:
            t = [[Fraction(0)] * 3 for _ in range(ll)]
    elif sp < 0.17:
        c = [[Fraction(0)] * 3 for _ in range(k)]
    elif sp < 0.22:
        R = [eye for _ in range(m)]
    head = f"{k} {_toks(_flatten(c))} {m} {_toks(_flatten(R))} {ll} {_toks(_flatten(t))}"
    dts = rng.choice([["float32"] * 3, ["float64"] * 3, ["float32", "float64", "float32"], ["float64", "float32", "float64"],
                      # integer rotation arrays (axis permutations / quarter turns as in the class docstring) with
                      # fractional float translations
                      ["float64", "int64", "float64"], ["float32", "int64", "float64"], ["float64", "int32", "float32"]])
    if dts[1].startswith("int") and sp >= 0.22:
        c = [[_small(rng) + Fraction(rng.choice([1, 3, 5, 7]), rng.choice([2, 4, 8])) for _ in range(3)] for _ in range(k)]
        t = [[_small(rng) + Fraction(rng.choice([1, 3, 5, 7]), rng.choice([2, 4, 8])) for _ in range(3)] for _ in range(ll)]
        head = f"{k} {_toks(_flatten(c))} {m} {_toks(_flatten(R))} {ll} {_toks(_flatten(t))}"
    return {"kind": "apply", "dt": dts, "atoms": rng.random() < 0.25, "layout": rng.choice(_LAYOUTS),
            "ops": [f"apply {head} {dim} {mx} {n} {_toks(_flatten(X))}", f"matrix {head}"]}


def _pairs(rng):
    npairs = rng.choice([1, 1, 2, 3])
    ps = []
    for _ in range(npairs):
        while True:
            v, w = _mat(rng), _mat(rng)
            if _det3(v) != 0 and _det3(w) != 0:
                break
        ps.append([v, w])
    return npairs, ps


def _gen_rot(rng):
    mf, mm = rng.choice([(1, 1), (1, 1), (2, 2), (3, 3), (1, 3), (3, 1), (2, 3), (1, 2)])
    n = nm = rng.choice([1, 2, 3, 4])
    ntok = str(n)
    if rng.random() < 0.1:
        # different atom counts, neither a single atom: numpy cannot broadcast -> ValueError (a single atom on one side
        # would be repeated silently; that contradicts the documented atom correspondence and is not generated)
        n, nm = rng.sample([2, 3, 4, 5], 2)
        ntok = f"{n}:{nm}"
    F = [[[Fraction(rng.randint(-5, 5)) for _ in range(3)] for _ in range(n)] for _ in range(mf)]
    M = [[[Fraction(rng.randint(-5, 5)) for _ in range(3)] for _ in range(nm)] for _ in range(mm)]
    npairs, ps = _pairs(rng)
    return {"kind": "rot", "ops": [f"rot {mf} {mm} {ntok} {_toks(_flatten(F))} {_toks(_flatten(M))} {npairs} {_toks(_flatten(ps))}"]}


def _gen_sup(rng):
    shape = rng.choice(["aa", "aa", "as", "ss", "ss1", "sa", "s1a", "bad"])
    mf, dimF, mm, dimM = {"aa": (1, "2", 1, "2"), "as": (1, "2", 3, "3"), "ss": (2, "3", 2, "3"),
                          "ss1": (1, "3", 2, "3"), "sa": (2, "3", 1, "2"), "s1a": (1, "3", 1, "2"),
                          "bad": (2, "3", 3, "3")}[shape]
    n = rng.choice([1, 2, 3, 4, 6])
    mask = None
    if rng.random() < 0.5:
        while True:
            mask = [rng.random() < 0.6 for _ in range(n)]
            if any(mask):
                break
    sel = sum(mask) if mask else n
    # multiples of the selected count: every centroid is an integer, float32 mean is exact
    F = [[[Fraction(sel * rng.randint(-3, 3)) for _ in range(3)] for _ in range(n)] for _ in range(mf)]
    M = [[[Fraction(sel * rng.randint(-3, 3)) for _ in range(3)] for _ in range(n)] for _ in range(mm)]
    mstr = "-" if mask is None else "".join("1" if b else "0" for b in mask)
    if mask is not None and rng.random() < 0.06:
        mstr += "1"                          # malformed: mask longer than the structure
    npairs, ps = _pairs(rng)
    return {"kind": "sup", "atoms": rng.random() < 0.3, "layout": rng.choice(_LAYOUTS),
            "mask_as": rng.choice(["ndarray", "ndarray", "list", "readonly", "index"]),
            "ops": [f"sup {mstr} {dimF} {mf} {dimM} {mm} {n} {_toks(_flatten(F))} {_toks(_flatten(M))} {npairs} {_toks(_flatten(ps))}"]}


_INT_NORM = [(0, 0, 0), (1, 0, 0), (0, 1, 0), (0, 0, 1), (3, 4, 0), (0, 3, 4), (1, 2, 2), (2, 3, 6), (4, 0, 3), (2, 1, 2), (6, 2, 3)]


def _displaced(rng, n, m_f, m_m):
    """fixed (m_f,n,3) small integers; mobile = fixed + displacement of integer length (so sqrt(.)**2 is exact)."""
    base = [[rng.randint(-6, 6) for _ in range(3)] for _ in range(n)]
    F = [[list(p) for p in base] for _ in range(m_f)]
    style = rng.choice(["few-outliers", "few-outliers", "graded", "none", "all-equal"])
    M = []
    for _ in range(m_m):
        pts = []
        for i, p in enumerate(base):
            if style == "none":
                d, s = (0, 0, 0), 0
            elif style == "all-equal":
                d, s = (1, 2, 2), 1
            elif style == "graded":
                d, s = rng.choice(_INT_NORM), rng.choice([0, 1, 1, 2, 3])
            else:
                d, s = rng.choice(_INT_NORM), (rng.choice([4, 7, 10]) if rng.random() < 0.25 else rng.choice([0, 0, 1]))
            sg = rng.choice([1, -1])
            pts.append([p[j] + sg * s * d[j] for j in range(3)])
        M.append(pts)
    return F, M


_QUANT = [("1/4", "3/4"), ("1/4", "3/4"), ("3/4", "1/4"), ("0", "1"), ("1/2", "1/2"), ("1/8", "7/8"), ("0", "1/2"), ("1/4", "1")]
_THR = ["3/2", "3/2", "0", "1", "3", "1/2"]


def _cfg(rng, malformed):
    minA = rng.choice([0, 1, 2, 3, 3, 3, 4, 6, -1, -3])     # negative: can never stop the loop, behaves like 0
    maxI = rng.choice([1, 2, 3, 10, 10, 10])
    q = rng.choice(_QUANT)
    if malformed and rng.random() < 0.5:
        maxI = rng.choice([0, -1])
    elif malformed:
        q = rng.choice([("-1/4", "3/4"), ("1/4", "5/4")])
    return minA, maxI, q, rng.choice(_THR)


def _gen_woo(rng):
    shape = rng.choice(["aa", "aa", "aa", "as", "ss", "ss1", "s1a", "sa4"])
    mf, dimF, mm, dimM = {"aa": (1, "2", 1, "2"), "as": (1, "2", 2, "3"), "ss": (2, "3", 2, "3"),
                          "ss1": (1, "3", 4, "3"), "s1a": (1, "3", 1, "2"), "sa4": (4, "3", 1, "2")}[shape]
    n = rng.choice([1, 2, 3, 4, 5, 6, 8, 9, 12])
    F, M = _displaced(rng, n, mf, mm)
    minA, maxI, q, thr = _cfg(rng, rng.random() < 0.06)
    return {"kind": "woo", "atoms": rng.random() < 0.3, "layout": rng.choice(_LAYOUTS),
            "scalars": [rng.choice(["py", "py", "i8", "u8", "i16", "i64", "u64"]), rng.choice(["py", "py", "i8", "u8", "i32", "i64"]),
                        rng.choice(["py", "py", "f16", "f32", "f64"]), rng.choice(["tuple", "tuple", "list", "ndarray"])],
            "ops": [f"woo {dimF} {mf} {dimM} {mm} {n} {_toks(_flatten(F))} {_toks(_flatten(M))} {minA} {maxI} {q[0]} {q[1]} {thr}"]}


def _gen_hom(rng):
    mf, dimF, mm, dimM = rng.choice([(1, "2", 1, "2"), (1, "2", 1, "2"), (2, "3", 2, "3"), (1, "2", 2, "3")])
    k = rng.choice([0, 2, 3, 4, 5, 7])                     # matched pairs before trimming
    nF = k + rng.randint(0, 4)
    nM = k + rng.randint(0, 4)
    # backbone atoms: every second/third atom of a larger structure
    FI = sorted(rng.sample(range(nF * 2 + 1), nF))
    MI = sorted(rng.sample(range(nM * 2 + 2), nM))
    totF, totM = nF * 2 + 1, nM * 2 + 2
    ai = sorted(rng.sample(range(nF), k)) if k else []
    aj = sorted(rng.sample(range(nM), k)) if k else []
    A = list(zip(ai, aj))
    base = {i: [rng.randint(-6, 6) for _ in range(3)] for i in range(max(totF, totM) + 1)}
    Fx = [[list(base[i]) for i in range(totF)] for _ in range(mf)]
    Mx = [[[rng.randint(-6, 6) for _ in range(3)] for _ in range(totM)] for _ in range(mm)]
    minA, maxI, q, thr = _cfg(rng, rng.random() < 0.04)
    if k == 0 and minA <= 0:
        minA = 1          # zero anchors (np.quantile of an empty array) is outside the property (n >= 1): unmodelled
    # the atoms that will be anchors (matched pairs, or same-rank backbone atoms in the fallback):
    # fixed position + integer-length displacement, so that sqrt(.)**2 is exact in float32
    pairs = [(FI[a], MI[b]) for a, b in A] if len(A) >= minA else (list(zip(FI, MI)) if nF == nM else [])
    for fi, mi in pairs:
        d, s = rng.choice(_INT_NORM), (rng.choice([5, 9]) if rng.random() < 0.25 else rng.choice([0, 0, 1]))
        for mod in Mx:
            mod[mi] = [Fx[0][fi][j] + s * d[j] for j in range(3)]
    lst = lambda a: ",".join(str(i) for i in a) if a else "_"   # noqa: E731
    return {"kind": "hom",
            "ops": [f"hom {dimF} {mf} {totF} {dimM} {mm} {totM} {_toks(_flatten(Fx))} {_toks(_flatten(Mx))} "
                    f"{lst(FI)} {lst(MI)} {lst(list(_flatten(A)))} {minA} {maxI} {q[0]} {q[1]} {thr}"]}


def _gen_homc(rng, force_multichain=False):
    """Multi-chain complexes for `superimpose_homologs` / `_find_matching_anchors` on the real code (CCD installed):
    the mobile structure is a rigid copy of the complex; in each structure some residues of some chains (also
    non-last ones) are missing (N-/C-terminal stretches, short unambiguous internal deletions), in both directions.
    `ops`: chain lengths + the local anchors of every chain pair (obtained from the real function on that single
    chain pair, where no offset is involved) -> the Lean model composes them; the real multi-chain call must agree."""
    import numpy as np
    import biotite.structure as struc
    from biotite.sequence import ProteinSequence
    S = _mod()
    n_chains = rng.choice([2, 2, 3, 4]) if (force_multichain or rng.random() < 0.85) else 1
    nuc = rng.random() < 0.15
    chains = []          # per chain: list of residue dicts
    pos = np.zeros(3)
    for ci in range(n_chains):
        L = rng.randint(20, 34) if nuc else rng.randint(12, 30)   # long enough that the overlap aligns uniquely
        letters = [rng.choice(_NUC if nuc else _AA) for _ in range(L)]
        for i in range(1, L):                      # no equal neighbours: gap placement is unambiguous
            while letters[i] == letters[i - 1]:
                letters[i] = rng.choice(_NUC if nuc else _AA)
        res = []
        for i, ch in enumerate(letters):
            step = np.array([rng.gauss(0, 1) for _ in range(3)])
            pos = pos + step * (3.8 / (np.linalg.norm(step) or 1.0))
            res.append({"chain": chr(ord("A") + ci), "res_id": i + 1, "letter": ch,
                        "res_name": ch if nuc else ProteinSequence.convert_letter_1to3(ch), "ca": pos.copy()})
        chains.append(res)

    # Per chain at most ONE of the two structures misses residues (which one varies, so both directions — mobile chain
    # longer / shorter, also in non-last chains — occur).  Deletions in BOTH structures of the same chain interact: with two
    # gaps a few residues apart the optimal alignment legitimately prefers a run of mismatches over the two gaps (found
    # on the unchanged tree: K E - E K G D M / K E S E K G - M scores -4, the shifted gap-free pairing -2) and a
    # positively scoring mismatch becomes an anchor.  That is the sequence method's business (stream `homamb`), not a defect.
    thinned = [rng.choice(["f", "m", "f", "m", "none"]) for _ in chains]

    def thin(direction):
        """residues present in one of the two structures"""
        keep = []
        for ci, res in enumerate(chains):
            L = len(res)
            present = [True] * L
            r = rng.random() if thinned[ci] == direction else 1.0
            dmax = max(1, min(5, L // 5))      # short deletions: a sequence method cannot pair residues uniquely
            # with terminal_penalty=True terminal gaps are not free: the first/last resolved residue may pair equally
            # well with an identical residue inside the missing stretch (the gap splits at no cost).  Such deletions are
            # ambiguous for any sequence method and are not generated: the resolved neighbour must not recur in the stretch
            if r < 0.35:                       # when the remaining overlap is short / low-complexity (not a code defect)
                ds = [d for d in range(1, dmax + 1) if res[d]["letter"] not in [x["letter"] for x in res[:d]]]
                for i in range(rng.choice(ds) if ds else 0):   # N-terminal residues not resolved
                    present[i] = False
            elif r < 0.55:
                ds = [d for d in range(1, dmax + 1) if res[L - 1 - d]["letter"] not in [x["letter"] for x in res[L - d:]]]
                for i in range(rng.choice(ds) if ds else 0):   # C-terminal
                    present[L - 1 - i] = False
            elif r < 0.65 and L >= 20:
                i0 = rng.randint(8, L - 10)                    # one internal residue, long flanks
                present[i0] = False
            keep.append(present)
        return keep
    keepF, keepM = thin("f"), thin("m")
    back = "P" if nuc else "CA"
    extra = ["C4'", "N1"] if nuc else ["N", "C"]

    def build(keep, with_side_atoms):
        names, resn, chain, resid, coords = [], [], [], [], []
        for res, present in zip(chains, keep):
            for r, p in zip(res, present):
                if not p:
                    continue
                atoms = ([extra[0]] if with_side_atoms else []) + [back] + ([extra[1]] if with_side_atoms else [])
                for k, an in enumerate(atoms):
                    names.append(an)
                    resn.append(r["res_name"])
                    chain.append(r["chain"])
                    resid.append(r["res_id"])
                    off = np.zeros(3) if an == back else np.array([0.7 * (k - 1), 0.9, 0.3 * (k + 1)])
                    coords.append(r["ca"] + off)
        return names, resn, chain, resid, np.array(coords)
    side = rng.random() < 0.6
    fn, frn, fch, fid, fco = build(keepF, side)
    mn, mrn, mch, mid, mco = build(keepM, side)
    stack_m = rng.choice([0, 0, 0, 2])
    motions = [(_rand_rotation(rng), np.array([rng.gauss(0, 1) for _ in range(3)]) * 30) for _ in range(max(stack_m, 1))]
    moved = [mco @ Q.T + t for Q, t in motions]
    mob_coord = np.stack(moved) if stack_m else moved[0]
    if n_chains >= 2 and rng.random() < 0.04:       # malformed: the mobile structure lacks the last chain
        last = chains[-1][0]["chain"]
        sel = [c != last for c in mch]
        mn, mrn, mch, mid = ([x for x, k in zip(lst, sel) if k] for lst in (mn, mrn, mch, mid))
        mob_coord = mob_coord[..., np.array(sel), :]
    fixed = {"coord": fco.astype(np.float32).tolist(), "atom_name": fn, "res_name": frn, "chain_id": fch, "res_id": fid}
    mobile = {"coord": mob_coord.astype(np.float32).tolist(), "atom_name": list(mn), "res_name": list(mrn),
              "chain_id": list(mch), "res_id": list(mid)}
    # every optional parameter of superimpose_homologs (and those forwarded to superimpose_without_outliers) non-default
    kw = {}
    if rng.random() < 0.5:
        kw["substitution_matrix"] = rng.choice([("NUC" if nuc else "BLOSUM62"), ("NUC" if nuc else "BLOSUM50"), "object"])
    if rng.random() < 0.4:
        kw["gap_penalty"] = rng.choice([-8, -12, [-10, -1], [-12, -2]])
    if rng.random() < 0.3:
        kw["terminal_penalty"] = True
    if rng.random() < 0.4:
        kw["max_iterations"] = rng.choice([1, 2, 5])
    if rng.random() < 0.3:
        kw["quantiles"] = rng.choice([[0.1, 0.9], [0.75, 0.25]])
    if rng.random() < 0.3:
        kw["outlier_threshold"] = rng.choice([3.0, 0.5])
    case = {"kind": "homc", "fixed_atoms": fixed, "mobile_atoms": mobile, "nuc": nuc,
            "min_anchors": rng.choice([3, 3, 3, 1, 5]), "n_chains": n_chains, "hom_kwargs": kw}
    # the op line: chain lengths and per-chain local anchors from the real code on single chain pairs
    try:
        F, M = _atoms_from(fixed), _atoms_from(mobile)
        Fb, Mb = F[..., _hp("backbone")(F)], M[..., _hp("backbone")(M)]
        fchains, mchains = list(struc.chain_iter(Fb)), list(struc.chain_iter(Mb))
        lf = [c.array_length() for c in fchains]
        lm = [c.array_length() for c in mchains]
        loc = []
        for fc, mc in zip(fchains, mchains):
            A = _hp("matching")(fc, mc, None, -10, False)
            loc.append(",".join(str(int(x)) for x in np.asarray(A).ravel()) if len(A) else "_")
        case["ops"] = [f"fma {','.join(map(str, lf)) or '_'} {','.join(map(str, lm)) or '_'} {';'.join(loc) or '_'}"]
    except Exception:  # noqa: BLE001
        pass        # the single-chain reference calls failed on the tree under test: oracle-only case
    return case


# ---------------------------------------------------------------- generator: float stream (oracle only)
def _rand_rotation(rng):
    """Uniform random proper rotation (float64) from a unit quaternion."""
    import numpy as np
    q = np.array([rng.gauss(0, 1) for _ in range(4)])
    q /= np.linalg.norm(q)
    a, b, c, d = q
    return np.array([[a * a + b * b - c * c - d * d, 2 * (b * c - a * d), 2 * (b * d + a * c)],
                     [2 * (b * c + a * d), a * a - b * b + c * c - d * d, 2 * (c * d - a * b)],
                     [2 * (b * d - a * c), 2 * (c * d + a * b), a * a - b * b - c * c + d * d]])


def _point_set(rng, shape, n):
    import numpy as np
    g = lambda *s: np.array([rng.gauss(0, 1) for _ in range(int(np.prod(s)))]).reshape(s)   # noqa: E731
    if shape == "generic":
        P = g(n, 3)
    elif shape == "planar":
        P = g(n, 3)
        P[:, 2] = 0
        P = P @ _rand_rotation(rng).T
    elif shape == "collinear":
        P = np.outer(g(n), g(3))
    elif shape == "identical":
        P = np.tile(g(1, 3), (n, 1))
    elif shape == "lattice":
        P = np.array([[rng.randint(-3, 3) for _ in range(3)] for _ in range(n)], dtype=float)
    elif shape == "polygon":                     # symmetric, planar: mirror image = rotated copy
        k = max(n, 3)
        ang = np.arange(k) * 2 * math.pi / k
        P = np.stack([np.cos(ang), np.sin(ang), np.zeros(k)], axis=1)[:n] @ _rand_rotation(rng).T
    elif shape == "cube":                        # many symmetric optima
        P = np.array([[x, y, z] for x in (-1, 1) for y in (-1, 1) for z in (-1, 1)], dtype=float)
        P = np.concatenate([P] * (n // 8 + 1))[:n]
    else:
        raise ValueError(shape)
    return P


def _gen_fit(rng, search=False):
    import numpy as np
    shape = rng.choice(["generic", "generic", "generic", "planar", "collinear", "identical", "lattice", "polygon", "cube"])
    n = rng.choice([1, 1, 2, 3, 4, 5, 8, 13, 30])
    # coordinate extents from 1e-3 (nm / fractional units) to 1e4; everything else is relative to the extent
    scale = rng.choice([0.5, 1, 1, 5, 20, 1e-3, 1e-2, 0.1, 1e3, 1e4, 1e-6, 1e6, 1e8])
    offset = scale * rng.choice([0, 0, 10, 100])
    combo = rng.choice(["aa", "aa", "aa", "as", "as", "ss", "ss", "s1s1", "s1a", "as1", "sa"])
    mf = {"aa": 0, "as": 0, "ss": rng.choice([2, 3]), "s1s1": 1, "s1a": 1, "as1": 0, "sa": rng.choice([2, 3])}[combo]
    mm = {"aa": 0, "as": rng.choice([2, 4]), "ss": mf, "s1s1": 1, "s1a": 0, "as1": 1, "sa": 0}[combo]
    noise = rng.choice([0, 0, 0, 1e-3, 0.1, 1, 10])
    mirror = rng.random() < (0.5 if search else 0.25)
    # motion class "tiny": an exact rigid copy whose orientation differs by 1e-6 .. 1e-2 rad only (every atom moves by
    # far less than the precision of a structure file) combined with an arbitrary translation; the fixed set stays
    # near the origin so that float32 resolves the rotation.  A fit must still find the placement with RMSD ~ rounding.
    tiny = rng.random() < (0.3 if search else 0.17)
    tiny_angle = 10 ** rng.uniform(-6, -2)
    if tiny:
        noise, mirror, offset = 0, False, 0
        scale = rng.choice([0.5, 1, 1, 2, 5, 5, 20, 0.1, 100])
    base = _point_set(rng, shape, n) * scale
    n = len(base)

    def moved(P, nz):
        Q = P.copy()
        if mirror:
            Q = Q * np.array([1, 1, -1])
        if nz:
            Q = Q + np.array([rng.gauss(0, 1) for _ in range(Q.size)]).reshape(Q.shape) * nz * scale
        if tiny:
            ax = np.array([rng.gauss(0, 1) for _ in range(3)])
            ax /= np.linalg.norm(ax) or 1.0
            K = np.array([[0, -ax[2], ax[1]], [ax[2], 0, -ax[0]], [-ax[1], ax[0], 0]])
            Rt = np.eye(3) + math.sin(tiny_angle) * K + (1 - math.cos(tiny_angle)) * K @ K
            return Q @ Rt.T + np.array([rng.gauss(0, 1) for _ in range(3)]) * scale * rng.choice([0, 0.3, 1, 3])
        return Q @ _rand_rotation(rng).T + np.array([rng.gauss(0, 1) for _ in range(3)]) * (offset + scale)

    fixed_models = [base + (np.array([rng.gauss(0, 1) for _ in range(base.size)]).reshape(base.shape) * 0.3 * scale if i else 0) + offset
                    for i in range(max(mf, 1))]
    fixed = np.stack(fixed_models) if mf else fixed_models[0]
    if mm:
        mobile = np.stack([moved(fixed_models[i % len(fixed_models)] - offset, noise) for i in range(mm)])
    else:
        mobile = moved(fixed_models[0] - offset, noise)
    mask = None
    if rng.random() < 0.35 and n >= 2:
        while True:
            mask = [rng.random() < 0.6 for _ in range(n)]
            if any(mask):
                break
    fixed32 = fixed.astype(np.float32)
    mobile32 = mobile.astype(np.float32)
    rigid = (noise == 0) and (not mirror or shape in ("planar", "collinear", "identical", "polygon") or n <= 3) \
        and combo in ("aa", "as", "s1s1", "s1a", "as1")
    # an exact rigid copy must be exact *after* the float32 rounding of the inputs: tolerance covers that
    case = {"kind": "fit", "shape": shape, "combo": combo, "noise": noise, "mirror": mirror, "rigid": rigid,
            "scale": scale, "dtype": rng.choice(["float32", "float32", "float64"]), "tiny": tiny_angle if tiny else None,
            "fixed": fixed32.tolist(), "mobile": mobile32.tolist(), "mask": mask,
            "atoms": rng.random() < 0.3, "pseed": rng.randint(0, 2**31)}
    case["layout"] = rng.choice(_LAYOUTS)
    case["mask_as"] = rng.choice(["ndarray", "ndarray", "list", "readonly", "index"])
    if mask is not None and not all(mask):
        # atoms OUTSIDE the mask must not matter: unresolved atoms often carry NaN / inf / placeholder coordinates
        outside = [i for i, b in enumerate(mask) if not b]
        case["poison"] = {"where": rng.choice(["fixed", "mobile", "both"]),
                          "idx": sorted(rng.sample(outside, rng.randint(1, len(outside)))),
                          "value": rng.choice(["nan", "nan", "inf", "-inf", "huge", "other"])}
    return case


# around and beyond the usual block sizes (1024 .. 8192), mostly with a large remainder modulo each of them
_BIG_N = [1500, 3000, 4097, 5000, 6143, 7000, 9001, 10000, 11000, 13000, 4096, 8191]


def _gen_fit_large(rng):
    """Large structures (atom counts around and beyond typical block sizes, not multiples of them) that differ by MORE than
    a rigid motion (noise, a hinge: the trailing 40 % of the atoms moved as a second rigid body, or different models), so
    that every atom matters for the rotation.  Only the parameters are stored; `_large_arrays` rebuilds the coordinates."""
    combo = rng.choice(["aa", "aa", "as", "ss"])
    p = {"n": rng.choice(_BIG_N), "seed": rng.randint(0, 2**31), "scale": rng.choice([1, 5, 20]),
         "mode": rng.choice(["noise", "hinge", "hinge", "hinge", "both", "both", "rigid"]), "noise": rng.choice([0.05, 0.3, 1.0]),
         "mf": {"aa": 0, "as": 0, "ss": 2}[combo], "mm": {"aa": 0, "as": 2, "ss": 2}[combo],
         "mask": rng.choice(["none", "none", "none", "most", "most", "half"])}
    return {"kind": "fit", "large": p, "shape": "generic", "combo": combo, "noise": p["noise"] if p["mode"] != "rigid" else 0,
            "mirror": False, "rigid": p["mode"] == "rigid" and combo in ("aa", "as"), "scale": p["scale"],
            "dtype": rng.choice(["float32", "float64"]), "atoms": rng.random() < 0.3, "pseed": rng.randint(0, 2**31),
            "layout": rng.choice(_LAYOUTS), "npert": 40}


def _large_arrays(p):
    import numpy as np
    g = np.random.default_rng(p["seed"])
    n, sc = p["n"], p["scale"]

    def rot():
        q, r_ = np.linalg.qr(g.normal(size=(3, 3)))
        q = q * np.sign(np.diag(r_))
        if np.linalg.det(q) < 0:
            q[:, 0] = -q[:, 0]
        return q
    base = g.normal(size=(n, 3)) * sc

    def moved(P):
        Q = P.copy()
        if p["mode"] in ("hinge", "both"):
            k = int(0.6 * n)
            c = Q[k:].mean(axis=0)
            Q[k:] = (Q[k:] - c) @ rot().T + c + g.normal(size=3) * sc
        if p["mode"] in ("noise", "both"):
            Q = Q + g.normal(size=Q.shape) * p["noise"] * sc
        return Q @ rot().T + g.normal(size=3) * 3 * sc
    fixed_models = [base + (g.normal(size=base.shape) * 0.3 * sc if i else 0) for i in range(max(p["mf"], 1))]
    fixed = np.stack(fixed_models) if p["mf"] else fixed_models[0]
    mobile = np.stack([moved(fixed_models[i % len(fixed_models)]) for i in range(p["mm"])]) if p["mm"] else moved(fixed_models[0])
    mask = None
    if p["mask"] == "most":
        mask = g.random(n) < 0.93
    elif p["mask"] == "half":
        mask = g.random(n) < 0.55
    return fixed.astype(np.float32), mobile.astype(np.float32), mask


def _gen_rot_large(rng):
    """Exact covariance / rotation of a large structure (small integers: the float32 sums stay exact)."""
    n = rng.choice([4097, 4100, 5000, 8193])
    mf, mm = rng.choice([(1, 1), (1, 1), (2, 2), (1, 2)])
    F = [[[rng.randint(-3, 3) for _ in range(3)] for _ in range(n)] for _ in range(mf)]
    M = [[[rng.randint(-3, 3) for _ in range(3)] for _ in range(n)] for _ in range(mm)]
    npairs, ps = _pairs(rng)
    flat = lambda x: ",".join(str(v) for v in _flatten(x))   # noqa: E731
    return {"kind": "rot", "ops": [f"rot {mf} {mm} {n} {flat(F)} {flat(M)} {npairs} {_toks(_flatten(ps))}"]}


def _gen_woo_float(rng):
    import numpy as np
    n = rng.choice([3, 4, 5, 8, 12, 20, 40])
    combo = rng.choice(["aa", "aa", "as", "ss"])
    mf = {"aa": 0, "as": 0, "ss": 2}[combo]
    mm = {"aa": 0, "as": 3, "ss": 2}[combo]
    base = _point_set(rng, rng.choice(["generic", "generic", "planar", "lattice"]), n) * 5
    p_out = rng.choice([0, 0.1, 0.2, 0.4])
    outl = np.array([rng.random() < p_out for _ in range(n)])

    def moved(P):
        Q = P + np.array([rng.gauss(0, 1) for _ in range(P.size)]).reshape(P.shape) * rng.choice([0, 0.05, 0.5])
        Q[outl] += np.array([rng.gauss(0, 1) for _ in range(3)]) * rng.choice([5, 50])
        return Q @ _rand_rotation(rng).T + np.array([rng.gauss(0, 1) for _ in range(3)]) * 10
    fixed = np.stack([base] * mf) if mf else base
    mobile = np.stack([moved(base) for _ in range(mm)]) if mm else moved(base)
    return {"kind": "woof", "fixed": fixed.astype(np.float32).tolist(), "mobile": mobile.astype(np.float32).tolist(),
            "min_anchors": rng.choice([1, 3, 3, 3, 5, n, n + 2]), "max_iterations": rng.choice([1, 2, 3, 10, 10]),
            "quantiles": rng.choice([[0.25, 0.75], [0.25, 0.75], [0.75, 0.25], [0.1, 0.9], [0.0, 0.5]]),
            "threshold": rng.choice([1.5, 1.5, 0.0, 3.0, 0.5]), "atoms": rng.random() < 0.3, "combo": combo,
            "scalars": [rng.choice(["py", "py", "i8", "u8", "i64", "u64"]), rng.choice(["py", "py", "u8", "i32", "i64"]),
                        rng.choice(["py", "py", "f16", "f32", "f64"]), rng.choice(["tuple", "list", "ndarray"])]}


def _gen_homamb(rng):
    """What `_gen_homc` filters out: short / low-complexity chains, long and arbitrary deletions, equal neighbours,
    sequence differences.  A sequence method may legitimately pair non-corresponding residues here, so only what the
    property states for the homolog variant is demanded (oracle `_oracle_homamb`): the reported fit is the optimal fit of
    the reported anchor pairs."""
    import numpy as np
    from biotite.sequence import ProteinSequence
    nuc = rng.random() < 0.3
    alpha = (_NUC[:rng.choice([2, 4])] if nuc else _AA[:rng.choice([3, 6, 20])])
    n_chains = rng.choice([1, 2, 3])
    atoms = {"f": ([], [], [], [], []), "m": ([], [], [], [], [])}
    pos = np.zeros(3)
    for ci in range(n_chains):
        L = rng.randint(3, 14)
        letters = [rng.choice(alpha) for _ in range(L)]
        ca = []
        for _ in range(L):
            step = np.array([rng.gauss(0, 1) for _ in range(3)])
            pos = pos + step * (3.8 / (np.linalg.norm(step) or 1.0))
            ca.append(pos.copy())
        for key in ("f", "m"):
            keep = [rng.random() < rng.choice([1.0, 0.8, 0.5]) for _ in range(L)]
            if not any(keep):
                keep[rng.randrange(L)] = True
            for i in range(L):
                if keep[i]:
                    ch = letters[i] if rng.random() < 0.9 else rng.choice(alpha)       # point mutations
                    names, resn, chain, resid, coords = atoms[key]
                    names.append("P" if nuc else "CA")
                    resn.append(ch if nuc else ProteinSequence.convert_letter_1to3(ch))
                    chain.append(chr(ord("A") + ci))
                    resid.append(i + 1)
                    coords.append(ca[i] + (np.array([rng.gauss(0, 1) for _ in range(3)]) * rng.choice([0, 0, 0.3]) if key == "m" else 0))
    Q, t = _rand_rotation(rng), np.array([rng.gauss(0, 1) for _ in range(3)]) * 20
    out = {}
    for key in ("f", "m"):
        names, resn, chain, resid, coords = atoms[key]
        c = np.array(coords)
        if key == "m":
            c = c @ Q.T + t
        out[key] = {"coord": c.astype(np.float32).tolist(), "atom_name": names, "res_name": resn, "chain_id": chain, "res_id": resid}
    return {"kind": "homamb", "fixed_atoms": out["f"], "mobile_atoms": out["m"], "nuc": nuc,
            "min_anchors": rng.choice([1, 2, 3, 3, 5]), "n_chains": n_chains,
            "hom_kwargs": rng.choice([{}, {}, {"max_iterations": 1}, {"terminal_penalty": True}, {"gap_penalty": [-10, -1]}])}


def _gen_refuse(rng):
    """Calls that must be refused; afterwards every argument equals its snapshot (oracle `_oracle_refuse`)."""
    n = rng.choice([1, 2, 3, 5, 8])
    what = rng.choice(["mask-length", "model-counts", "stack-onto-single", "woo-iterations", "woo-quantiles",
                       "rmsd-reference", "mask-length", "apply-broadcast",
                       # regions the model abstains from / the theorems exclude by hypothesis (audit 6):
                       "atom-counts", "nonfinite-selected", "nonfinite-selected", "empty-selection", "woo-empty",
                       "overflowing-coordinates"])
    return {"kind": "refuse", "what": what, "n": n, "m": rng.choice([2, 3]), "atoms": rng.random() < 0.4,
            "seed": rng.randint(0, 2**31), "layout": rng.choice(_LAYOUTS)}


def _gen_rigidapi(rng):
    """A rigid copy produced by the public functions of structure/transform.py with variously spelled arguments."""
    return {"kind": "rigidapi", "fn": rng.choice(["translate", "rotate", "rotate_centered", "rotate_about_axis",
                                                  "rotate_about_axis+support", "orient_principal_components", "align_vectors",
                                                  "align_vectors+positions", "chain"]),
            "n": rng.choice([1, 2, 3, 4, 8, 20]), "stack": rng.choice([0, 0, 2]), "atoms": rng.random() < 0.4,
            "spell": rng.choice(["list", "tuple", "ndarray", "f32", "i64"]), "scale": rng.choice([0.1, 1, 1, 10, 100]),
            "seed": rng.randint(0, 2**31)}


def cases(rng, tier):
    k = 1 if tier == "quick" else 12
    for _ in range(150 * k):
        yield _gen_apply(rng)
    for _ in range(60 * k):
        yield _gen_rot(rng)
    for _ in range(90 * k):
        yield _gen_sup(rng)
    for _ in range(150 * k):
        yield _gen_woo(rng)
    for _ in range(70 * k):
        yield _gen_hom(rng)
    for _ in range(60 * k):
        yield _gen_homc(rng)
    for _ in range(500 * k):
        yield _gen_fit(rng)
    for _ in range(120 * k):
        yield _gen_woo_float(rng)
    for _ in range(16 * k):
        yield _gen_fit_large(rng)
    for _ in range(1 * k):
        yield _gen_rot_large(rng)
    for _ in range(60 * k):
        yield _gen_refuse(rng)
    for _ in range(50 * k):
        yield _gen_homamb(rng)
    for _ in range(80 * k):
        yield _gen_rigidapi(rng)


def corpus():
    out = [
        # docstring example of AffineTransformation (90 degree rotation about z)
        {"kind": "apply", "dt": ["float64"] * 3,
         "ops": ["apply 1 0,0,0 1 0,-1,0,1,0,0,0,0,1 1 0,0,0 2 1 5 0,1,2,3,4,5,6,7,8,9,10,11,12,13,14",
                 "matrix 1 0,0,0 1 0,-1,0,1,0,0,0,0,1 1 0,0,0"]},
        # the docstring rotation given as an *integer* array, fractional translations: as_matrix must not truncate them
        {"kind": "apply", "dt": ["float64", "int64", "float64"],
         "ops": ["apply 1 1/2,-1/4,3/2 1 0,-1,0,1,0,0,0,0,1 1 5/2,1/8,-7/4 2 1 3 0,1,2,3,4,5,6,7,8",
                 "matrix 1 1/2,-1/4,3/2 1 0,-1,0,1,0,0,0,0,1 1 5/2,1/8,-7/4"]},
        # pure translation (zero centring, identity rotation) and the identity transformation
        {"kind": "apply", "dt": ["float32"] * 3,
         "ops": ["apply 1 0,0,0 1 1,0,0,0,1,0,0,0,1 1 5/2,-1,3 2 1 2 1,2,3,4,5,6", "matrix 1 0,0,0 1 1,0,0,0,1,0,0,0,1 1 5/2,-1,3"]},
        {"kind": "apply", "dt": ["float64"] * 3, "atoms": True,
         "ops": ["apply 1 0,0,0 2 1,0,0,0,1,0,0,0,1,1,0,0,0,1,0,0,0,1 2 1,1,1,-2,0,1/2 3 2 2 1,2,3,4,5,6,7,8,9,10,11,12"]},
        {"kind": "apply", "dt": ["float32"] * 3,
         "ops": ["apply 1 0,0,0 1 1,0,0,0,1,0,0,0,1 1 0,0,0 2 1 2 1,2,3,4,5,6"]},
        # model-count mismatch -> IndexError; centre translation of 2 models for 3 rotations -> ValueError
        {"kind": "apply", "ops": ["apply 1 0,0,0 2 1,0,0,0,1,0,0,0,1,1,0,0,0,1,0,0,0,1 1 0,0,0 2 1 1 1,2,3",
                                  "apply 2 0,0,0,1,1,1 3 1,0,0,0,1,0,0,0,1,1,0,0,0,1,0,0,0,1,1,0,0,0,1,0,0,0,1 1 0,0,0 3 3 1 1,2,3,1,2,3,1,2,3"]},
        # reflection needed: v = I, w = diag(1,1,-1): the last column of v is negated
        {"kind": "rot", "ops": ["rot 1 1 2 1,0,0,-1,0,0 0,1,0,0,-1,0 1 1,0,0,0,1,0,0,0,1,1,0,0,0,1,0,0,0,-1"]},
        # outlier loop: two passes, stops at min_anchors
        {"kind": "woo", "ops": ["woo 2 1 2 1 5 0,0,0,0,0,0,0,0,0,0,0,0,0,0,0 0,0,0,1,0,0,0,0,0,0,0,0,9,0,0 3 10 1/4 3/4 3/2",
                                "woo 2 1 2 1 5 0,0,0,0,0,0,0,0,0,0,0,0,0,0,0 0,0,0,1,0,0,0,0,0,0,0,0,9,0,0 4 10 1/4 3/4 3/2",
                                "woo 2 1 2 1 5 0,0,0,0,0,0,0,0,0,0,0,0,0,0,0 0,0,0,1,0,0,0,0,0,0,0,0,9,0,0 3 1 1/4 3/4 3/2",
                                "woo 2 1 2 1 5 0,0,0,0,0,0,0,0,0,0,0,0,0,0,0 0,0,0,1,0,0,0,0,0,0,0,0,9,0,0 3 0 1/4 3/4 3/2"]},
    ]
    # literal degenerate rigid copies (float stream)
    sq = [[1, 1, 0], [-1, 1, 0], [-1, -1, 0], [1, -1, 0]]
    out.append({"kind": "fit", "shape": "polygon", "combo": "aa", "noise": 0, "mirror": True, "rigid": True,
                "fixed": sq, "mobile": [[p[1] + 5, p[0] - 2, 3.0] for p in sq], "mask": None, "atoms": False, "pseed": 1})
    line = [[float(i), 2.0 * i, -1.0 * i] for i in range(5)]
    out.append({"kind": "fit", "shape": "collinear", "combo": "aa", "noise": 0, "mirror": False, "rigid": True,
                "fixed": line, "mobile": [[-p[1] + 1, p[0], p[2] + 7] for p in line], "mask": None, "atoms": True, "pseed": 2})
    out.append({"kind": "fit", "shape": "identical", "combo": "aa", "noise": 0, "mirror": False, "rigid": True,
                "fixed": [[1.5, -2.0, 3.0]], "mobile": [[10.0, 20.0, 30.0]], "mask": None, "atoms": False, "pseed": 3})
    # a true mirror image of a chiral set: optimum is not zero, rotation must stay proper
    ch = [[0, 0, 0], [1, 0, 0], [0, 2, 0], [0, 0, 3]]
    out.append({"kind": "fit", "shape": "generic", "combo": "aa", "noise": 0, "mirror": True, "rigid": False,
                "fixed": ch, "mobile": [[p[0], p[1], -p[2]] for p in ch], "mask": None, "atoms": False, "pseed": 4})
    return out


# ---------------------------------------------------------------- property oracle (independent of the Lean model)
def _horn_min_ssd(X, Y):
    """Minimal sum of squared deviations of Y onto X over all proper rigid motions (float64, quaternion method:
    largest eigenvalue of Horn's 4x4 matrix) — an algorithm independent of the SVD route of the code."""
    import numpy as np
    X = np.asarray(X, dtype=np.float64)
    Y = np.asarray(Y, dtype=np.float64)
    Xc = X - X.mean(axis=0)
    Yc = Y - Y.mean(axis=0)
    Sm = Yc.T @ Xc                      # S[a][b] = sum y_a x_b  (rotate Y onto X)
    Sxx, Sxy, Sxz = Sm[0]
    Syx, Syy, Syz = Sm[1]
    Szx, Szy, Szz = Sm[2]
    N = np.array([[Sxx + Syy + Szz, Syz - Szy, Szx - Sxz, Sxy - Syx],
                  [Syz - Szy, Sxx - Syy - Szz, Sxy + Syx, Szx + Sxz],
                  [Szx - Sxz, Sxy + Syx, -Sxx + Syy - Szz, Syz + Szy],
                  [Sxy - Syx, Szx + Sxz, Syz + Szy, -Sxx - Syy + Szz]])
    lam = np.linalg.eigvalsh(N)[-1]
    return max(0.0, float((Xc ** 2).sum() + (Yc ** 2).sum() - 2 * lam))


def _rmsd64(a, b):
    import numpy as np
    d = np.asarray(a, dtype=np.float64) - np.asarray(b, dtype=np.float64)
    return float(np.sqrt((d * d).sum(axis=-1).mean()))


def _tol(*arrays):
    """Absolute tolerance on coordinates / RMSD for float32 pipelines on data of this magnitude."""
    import numpy as np
    s = max([1e-30] + [float(np.abs(np.asarray(a, dtype=np.float64)).max()) for a in arrays if np.size(a)])
    return 4e-6 * s        # relative to the coordinate magnitude (extents 1e-3 .. 1e4 are generated);
    #                        ~10x the largest error observed on the unchanged tree (calibrated over 1500 cases)


def _allowed_rmsd(X, Y0, ref_rmsd, tol):
    """Largest RMSD a float32 Kabsch fit of Y0 onto X may report when a placement with `ref_rmsd` exists.
    Besides the linear coordinate rounding `tol`, the float32 cross-covariance H carries an error
    delta ~ 16·eps32·|H|; a rotation in the plane of singular values (s_i, s_j) is determined only up to
    delta/(s_i+s_j), which costs at most min(delta²/g, 4·delta) in the sum of squared deviations, g being the
    smallest pairwise sum (s2 ± s3).  Negligible for well-conditioned sets, it is what 'up to float32 rounding'
    means for (nearly) collinear ones."""
    import numpy as np
    X = np.asarray(X, dtype=np.float64)
    Y0 = np.asarray(Y0, dtype=np.float64)
    Hm = (X - X.mean(axis=0)).T @ (Y0 - Y0.mean(axis=0))
    sv = np.linalg.svd(Hm, compute_uv=False)
    d = 1.0 if np.linalg.det(Hm) >= 0 else -1.0
    g = sv[1] + d * sv[2]
    delta = 16 * 6e-8 * float(np.sqrt((sv ** 2).sum()))
    excess = 4 * delta if g <= 0 else min(delta * delta / g, 4 * delta)
    return math.sqrt(ref_rmsd ** 2 + excess / len(X)) + tol


def _check_transform(T, X, tag, v, history=True):
    """matrix form == apply, and model-wise action, on the real objects (and, once, the multi-step history)."""
    import numpy as np
    S = _mod()
    X_before = np.array(S.coord(X), copy=True)
    Y = T.apply(X)
    Xc = S.coord(X)
    Yc = Y if isinstance(Y, np.ndarray) else Y.coord
    if Xc.shape != X_before.shape or not np.array_equal(Xc, X_before, equal_nan=True):
        v.append((f"C16/{tag}/apply-modifies-input",
                  f"apply() changed the coordinates it was given (max change {np.nanmax(np.abs(Xc - X_before)) if Xc.size else 0:.3g}; "
                  f"centre translation all zero: {not np.any(T.center_translation)}, rotation identity: "
                  f"{bool(np.array_equal(T.rotation, np.broadcast_to(np.eye(3), T.rotation.shape)))})"))
        return
    xarr = X if isinstance(X, np.ndarray) else X.coord
    if Yc.size and np.shares_memory(Yc, xarr):
        v.append((f"C16/{tag}/apply-returns-alias-of-input", "the coordinates returned by apply() share memory with the input"))
        return
    if Yc.shape != Xc.shape:
        v.append((f"C16/{tag}/apply-shape", f"apply changed the shape {Xc.shape} -> {Yc.shape}"))
        return
    X3 = Xc if Xc.ndim == 3 else Xc[None]
    Y3 = Yc if Yc.ndim == 3 else Yc[None]
    M = T.as_matrix()
    m = T.rotation.shape[0]
    if X3.shape[0] != m:
        v.append((f"C16/{tag}/model-count-mismatch-accepted",
                  f"apply() accepted {X3.shape[0]} model(s) for {m} rotation(s) (centre translations: {T.center_translation.shape[0]}, "
                  f"target translations: {T.target_translation.shape[0]}) instead of raising IndexError"))
        return
    tol = _tol(X3, Y3, T.center_translation, T.target_translation)
    if M.shape != (m, 4, 4):
        v.append((f"C16/{tag}/as_matrix-shape", f"as_matrix shape {M.shape} for {m} models"))
        return
    for k in range(m):
        h = np.concatenate([X3[k].astype(np.float64), np.ones((X3.shape[1], 1))], axis=1)
        y4 = (M[k].astype(np.float64) @ h.T).T
        if X3.shape[1] and (np.abs(y4[:, :3] - Y3[k]).max() > tol or np.abs(y4[:, 3] - 1).max() > 1e-6):
            v.append((f"C16/{tag}/as_matrix-differs-from-apply",
                      f"model {k}: max |M·[x;1] - apply(x)| = {np.abs(y4[:, :3] - Y3[k]).max():.3g} (tol {tol:.2g})"))
            break
        # model-wise: the k-th model is transformed by the k-th (broadcast) transformation only
        ck = T.center_translation[k if T.center_translation.shape[0] > 1 else 0].astype(np.float64)
        tk = T.target_translation[k if T.target_translation.shape[0] > 1 else 0].astype(np.float64)
        ref = (T.rotation[k].astype(np.float64) @ (X3[k].astype(np.float64) + ck).T).T + tk
        if X3.shape[1] and np.abs(ref - Y3[k]).max() > tol:
            v.append((f"C16/{tag}/not-model-wise", f"model {k}: apply differs from R_k(x + c_k) + t_k by {np.abs(ref - Y3[k]).max():.3g}"))
            break
    else:
        if history:
            _check_freshness(T, X, tag, v)


def _check_freshness(T, X, tag, v):
    """A multi-step history on ONE transformation object: results handed out are the caller's own (scribbling over
    them changes nothing later), inputs are not modified, and `as_matrix()` follows the public attributes."""
    import numpy as np
    S = _mod()
    Xc0 = np.array(S.coord(X), copy=True)
    T2 = S.AffineTransformation(np.array(T.center_translation, copy=True), np.array(T.rotation, copy=True),
                                np.array(T.target_translation, copy=True))
    M1 = np.array(T2.as_matrix(), copy=True)
    Y1 = T2.apply(X)
    Y1c = np.array(Y1 if isinstance(Y1, np.ndarray) else Y1.coord, copy=True)
    # scribble over everything that was handed out
    Ma = T2.as_matrix()
    Ma[...] = 12345.0
    Ya = T2.apply(X)
    (Ya if isinstance(Ya, np.ndarray) else Ya.coord)[...] = -777.0
    M2 = T2.as_matrix()
    Y2 = T2.apply(X)
    Y2c = Y2 if isinstance(Y2, np.ndarray) else Y2.coord
    same = lambda a, b: a.shape == b.shape and np.array_equal(a, b, equal_nan=True)   # noqa: E731
    if not same(np.asarray(M2), M1):
        v.append((f"C16/{tag}/as_matrix-returns-shared-array", "editing the array returned by as_matrix() changes the next as_matrix()"))
    if not same(np.asarray(Y2c), Y1c):
        v.append((f"C16/{tag}/apply-returns-shared-array", "editing the coordinates returned by apply() changes the next apply()"))
    if not same(np.asarray(S.coord(X)), Xc0):
        v.append((f"C16/{tag}/apply-modifies-input", "apply()/as_matrix() modified the input coordinates"))
    if v:
        return
    # one object reused with inputs of other sizes / kinds and a refused call in between == a fresh object each time
    X3 = Xc0 if Xc0.ndim == 3 else Xc0[None]
    m0 = T2.rotation.shape[0]
    fresh = lambda: S.AffineTransformation(np.array(T.center_translation, copy=True), np.array(T.rotation, copy=True),   # noqa: E731
                                           np.array(T.target_translation, copy=True))
    others = [np.concatenate([X3, X3[:, ::-1] * 2 + 1], axis=1), X3[:, :1], X3[:, :0]]
    if m0 == 1:
        others = others + [others[0][0]]                 # 2-d input on a 1-model transformation
    tsnap = _t_snapshot(T2)
    for Z in others:
        try:
            a, b = T2.apply(Z.copy()), fresh().apply(Z.copy())
        except Exception as e:  # noqa: BLE001
            v.append((f"C16/{tag}/history-unexpected-exception", f"{type(e).__name__}: {e} for coordinates of shape {Z.shape}"))
            return
        if not same(np.asarray(a), np.asarray(b)):
            v.append((f"C16/{tag}/state-across-calls", f"apply() on shape {Z.shape} after other calls on the same object differs from a fresh object"))
            return
        bad = np.zeros((m0 + 1,) + Z.shape[-2:], dtype=np.float32)      # wrong model count: must be refused ...
        bsnap = bad.tobytes()
        try:
            T2.apply(bad)
            v.append((f"C16/{tag}/model-count-mismatch-accepted", f"{m0 + 1} models applied to {m0} transformations"))
            return
        except IndexError:
            pass
        except Exception as e:  # noqa: BLE001
            v.append((f"C16/{tag}/model-count-mismatch-wrong-error", f"{type(e).__name__} instead of IndexError"))
            return
        if _t_snapshot(T2) != tsnap or bad.tobytes() != bsnap:   # ... and change nothing
            v.append((f"C16/{tag}/refused-call-changed-state", "a refused apply() modified the transformation or its argument"))
            return
    if not same(np.asarray(T2.as_matrix()), M1):
        v.append((f"C16/{tag}/state-across-calls", "as_matrix() after apply() calls of other sizes differs from the first result"))
        return
    # change each public attribute (re-assignment and in-place edit): as_matrix() must follow, i.e. still equal apply()
    m = T2.rotation.shape[0]
    perm = np.array([[0, 0, 1], [1, 0, 0], [0, 1, 0]], dtype=T2.rotation.dtype)
    steps = [("target_translation", lambda: setattr(T2, "target_translation", T2.target_translation + np.array([1.0, -2.0, 0.5], dtype=T2.target_translation.dtype))),
             ("center_translation", lambda: T2.center_translation.__iadd__(np.array([-0.25, 0.5, 2.0], dtype=T2.center_translation.dtype))),
             ("rotation", lambda: setattr(T2, "rotation", np.stack([perm @ T2.rotation[k] for k in range(m)])))]
    for name, change in steps:
        T2.as_matrix()
        change()
        before = len(v)
        _check_transform(T2, X, tag, v, history=False)
        if len(v) > before:
            v[before] = (f"C16/{tag}/as_matrix-stale-after-attribute-change",
                         f"after changing `{name}` of a transformation whose as_matrix() had been called: " + v[before][1])
            del v[before + 1:]
            return


def _perturbations(prng, count):
    import numpy as np
    mats = []
    for ax in range(3):                               # axis-aligned quarter and half turns
        for ang in (math.pi / 2, math.pi, -math.pi / 2):
            c, s = math.cos(ang), math.sin(ang)
            R = np.eye(3)
            i, j = [(1, 2), (0, 2), (0, 1)][ax]
            R[i, i], R[i, j], R[j, i], R[j, j] = c, -s, s, c
            mats.append(R)
    for i in range(count):
        ang = prng.choice([1e-3, 1e-2, 0.1, 1.0, math.pi]) * prng.random()
        ax = np.array([prng.gauss(0, 1) for _ in range(3)])
        ax /= np.linalg.norm(ax) or 1.0
        K = np.array([[0, -ax[2], ax[1]], [ax[2], 0, -ax[0]], [-ax[1], ax[0], 0]])
        mats.append(np.eye(3) + math.sin(ang) * K + (1 - math.cos(ang)) * K @ K)
    return mats


def _check_unmasked_irrelevant(case, fixed, mobile, mask):
    """Runs `_check_unmasked_irrelevant_inner` in a forked child: non-finite values that leak into LAPACK can make it
    spin forever; a hang or a dead process is a verdict with this case as the failing input, never a dead check."""
    from common import sandbox
    res = sandbox.run_forked(_check_unmasked_irrelevant_inner, case, fixed, mobile, mask, timeout=20)
    if res[0] == "ok":
        return res[1]
    p = case["poison"]
    what = {"timeout": "did not return within 20 s", "crash": f"killed the process (signal {res[1] if len(res) > 1 else '?'})"}.get(
        res[0], f"raised {res[1:]}")
    return [("C16/superimpose/unmasked-atoms-influence-fit",
             f"superimpose {what} with {p['value']} in {p['where']} atom(s) {p['idx']} OUTSIDE the mask; all selected atoms are finite")]


def _check_unmasked_irrelevant_inner(case, fixed, mobile, mask):
    """'No other placement has a lower RMSD over the MASKED atoms': atoms outside the mask must not matter.
    The transformation of the masked fit must be bit-identical to the fit of the selected sub-arrays alone, also
    when unselected atoms carry NaN / inf / huge / different coordinates."""
    import numpy as np
    S = _mod()
    p = case["poison"]
    val = {"nan": np.nan, "inf": np.inf, "-inf": -np.inf, "huge": 3e37}.get(p["value"])
    fx, mb = fixed.copy(), mobile.copy()
    for arr, name in ((fx, "fixed"), (mb, "mobile")):
        if p["where"] in (name, "both"):
            if val is None:
                arr[..., p["idx"], :] = arr[..., p["idx"], :][..., ::-1] * 1.5 + 3.0
            else:
                arr[..., p["idx"], :] = val
    try:
        with np.errstate(all="ignore"):
            _, Tm = S.superimpose(fx, mb, atom_mask=mask)
            _, Ts = S.superimpose(fixed[..., mask, :], mobile[..., mask, :])
    except Exception as e:  # noqa: BLE001
        return [("C16/superimpose/unmasked-atoms-influence-fit",
                 f"{type(e).__name__}: {e} — {p['value']} in {p['where']} atom(s) {p['idx']} OUTSIDE the mask; all selected atoms are finite")]
    for a, b, nm in ((Tm.rotation, Ts.rotation, "rotation"), (Tm.center_translation, Ts.center_translation, "center_translation"),
                     (Tm.target_translation, Ts.target_translation, "target_translation")):
        if a.shape != b.shape or not np.array_equal(a, b):
            return [("C16/superimpose/unmasked-atoms-influence-fit",
                     f"{nm} of the masked fit differs from the fit of the selected atoms alone ({p['value']} in {p['where']} "
                     f"atom(s) {p['idx']} outside the mask): {np.asarray(a).ravel()[:4].tolist()} vs {np.asarray(b).ravel()[:4].tolist()}")]
    return []


def _oracle_fit(case):
    import random
    import numpy as np
    S = _mod()
    v = []
    if case.get("large"):
        fixed, mobile, mask = _large_arrays(case["large"])
    else:
        fixed = np.array(case["fixed"], dtype=np.float32)
        mobile = np.array(case["mobile"], dtype=np.float32)
        mask = None if case.get("mask") is None else np.array(case["mask"], dtype=bool)
    dt = case.get("dtype", "float32")
    lay = case.get("layout", "c")
    F, M = (_spell(fixed.astype(dt), lay), _spell(mobile.astype(dt), lay)) if not case.get("atoms") \
        else (_as_atoms(fixed), _as_atoms(mobile))
    mask_arg = mask
    if mask is not None and case.get("mask_as") == "list":
        mask_arg = mask.tolist()
    elif mask is not None and case.get("mask_as") == "readonly":
        mask_arg = mask.copy()
        mask_arg.setflags(write=False)
    elif mask is not None and case.get("mask_as") == "index":
        mask_arg = np.where(mask)[0]
    snap = (_snapshot(F), _snapshot(M), _snapshot(mask_arg))
    f3 = fixed if fixed.ndim == 3 else fixed[None]
    m3 = mobile if mobile.ndim == 3 else mobile[None]
    expect_reject = m3.shape[0] == 1 and f3.shape[0] > 1
    if case.get("poison") and mask is not None and not expect_reject:
        pv = _check_unmasked_irrelevant(case, fixed, mobile, mask)
        if pv:
            return pv
    svd_log = []
    try:
        with _patched(np=_SpyNp(svd_log)):
            fitted, T = S.superimpose(F, M, atom_mask=mask_arg)
    except IndexError as e:
        if expect_reject:
            # one mobile model onto several fixed models: refused loudly (documented in notes) — and nothing changed
            if (_snapshot(F), _snapshot(M), _snapshot(mask_arg)) != snap:
                return [("C16/superimpose/refused-call-modified-arguments", "IndexError raised, but fixed/mobile/mask were modified")]
            return v
        return [("C16/superimpose/unexpected-exception", f"IndexError: {e}")]
    except Exception as e:  # noqa: BLE001
        return [("C16/superimpose/unexpected-exception", f"{type(e).__name__}: {e}")]
    if expect_reject:
        return [("C16/superimpose/broadcast-accepted", "fixed stack + single mobile model no longer raises; oracle needs review")]
    if (_snapshot(F), _snapshot(M), _snapshot(mask_arg)) != snap:
        return [("C16/superimpose/arguments-modified", f"superimpose() modified fixed, mobile or atom_mask (layout {lay})")]
    fc = fitted if isinstance(fitted, np.ndarray) else fitted.coord
    # the public rmsd() agrees with an independent float64 computation (reference must be a single model)
    if f3.shape[0] == 1:
        import biotite.structure as struc
        ref = F if (case.get("atoms") and fixed.ndim == 2) else (fixed if fixed.ndim == 2 else fixed[0])
        try:
            r_api = np.atleast_1d(struc.rmsd(ref, fitted))
            fit3_ = fc if fc.ndim == 3 else fc[None]
            r_ind = np.array([_rmsd64(f3[0], fit3_[k]) for k in range(fit3_.shape[0])])
            if r_api.shape != r_ind.shape or np.abs(r_api - r_ind).max() > 2 * _tol(f3, fit3_):
                v.append(("C16/rmsd/differs-from-definition", f"rmsd() = {r_api.tolist()[:4]} but sqrt(mean |d|^2) = {r_ind.tolist()[:4]}"))
        except Exception as e:  # noqa: BLE001
            v.append(("C16/rmsd/unexpected-exception", f"{type(e).__name__}: {e}"))
        if v:
            return v
    if type(fitted) is not type(M) or fc.shape != mobile.shape:
        v.append(("C16/superimpose/result-shape", f"fitted {type(fitted).__name__}{fc.shape} for mobile {type(M).__name__}{mobile.shape}"))
        return v
    # (0) the external SVD met the contract the optimality theorem assumes
    # (if a rewrite obtains its SVD differently nothing is recorded and only the output checks below apply)
    _check_svd_contract(svd_log, v)
    if v:
        return v
    # (1) proper rotation
    R = T.rotation.astype(np.float64)
    m = R.shape[0]
    if m != max(f3.shape[0], m3.shape[0]):
        v.append(("C16/superimpose/rotation-count", f"{m} rotations for {f3.shape[0]} fixed / {m3.shape[0]} mobile models"))
        return v
    for k in range(m):
        if not np.all(np.isfinite(R[k])):
            v.append(("C16/superimpose/non-finite-rotation", f"model {k}: {R[k].tolist()}"))
            return v
        dev = np.abs(R[k].T @ R[k] - np.eye(3)).max()
        det = np.linalg.det(R[k])
        if dev > 2e-5:
            v.append(("C16/superimpose/not-orthonormal", f"model {k}: max |RtR - I| = {dev:.3g}"))
        if det < 0:
            v.append(("C16/superimpose/improper-rotation", f"model {k}: det = {det:.6f} (shape {case.get('shape')}, mirror {case.get('mirror')})"))
        elif abs(det - 1) > 5e-5:
            v.append(("C16/superimpose/determinant-not-one", f"model {k}: det = {det:.6f}"))
    if v:
        return v
    # (2) reproduces the fitted coordinates, bit for bit; matrix form; model-wise
    again = T.apply(M)
    ac = again if isinstance(again, np.ndarray) else again.coord
    if not np.array_equal(ac, fc):
        v.append(("C16/superimpose/apply-does-not-reproduce-fitted", f"max diff {np.abs(ac - fc).max():.3g}"))
    _check_transform(T, M, "superimpose", v)
    # (3) optimality over the masked atoms, model by model
    sel = slice(None) if mask is None else mask
    fit3 = fc if fc.ndim == 3 else fc[None]
    prng = random.Random(case.get("pseed", 0))
    pert = _perturbations(prng, case.get("npert", 200))
    for k in range(m):
        X = f3[k if f3.shape[0] > 1 else 0][sel].astype(np.float64)       # fixed, selected
        Y0 = m3[k if m3.shape[0] > 1 else 0][sel].astype(np.float64)      # mobile before
        Y = fit3[k][sel].astype(np.float64)                              # mobile after
        n = len(X)
        tol = _tol(f3, m3, fit3)
        r0 = _rmsd64(X, Y)
        ropt = math.sqrt(_horn_min_ssd(X, Y0) / n)
        if r0 > _allowed_rmsd(X, Y0, ropt, tol):
            v.append(("C16/superimpose/rmsd-above-optimum",
                      f"model {k}: RMSD {r0:.6g} but a rigid placement with {ropt:.6g} exists (tol {tol:.2g}; "
                      f"shape {case.get('shape')}, n={n}, noise {case.get('noise')}, mirror {case.get('mirror')}, tiny rotation {case.get('tiny')})"))
            break
        if case.get("rigid") and r0 > _allowed_rmsd(X, Y0, 0.0, tol):
            v.append(("C16/superimpose/rigid-copy-rmsd-not-zero", f"model {k}: RMSD {r0:.6g} for an exact rigid copy (tol {tol:.2g}, shape {case.get('shape')})"))
            break
        # perturbed placements of the *fitted* coordinates: rotate about the fixed centroid, best translation
        cx = X.mean(axis=0)
        Yc = Y - Y.mean(axis=0)
        best = min(_rmsd64(X - cx, Yc @ Q.T) for Q in pert)
        if r0 > _allowed_rmsd(X, Y0, best, tol):
            v.append(("C16/superimpose/perturbation-improves-rmsd", f"model {k}: RMSD {r0:.6g}, a perturbed placement reaches {best:.6g}"))
            break
        # the translation part: centroids coincide
        if np.abs(Y.mean(axis=0) - cx).max() > tol:
            v.append(("C16/superimpose/centroids-differ", f"model {k}: centroid offset {np.abs(Y.mean(axis=0) - cx).max():.3g}"))
            break
        # first-order certificate: R·H symmetric with pairwise non-negative eigenvalue sums (H from centred sets)
        Hm = Yc.T @ (X - cx)                      # after fitting the optimal residual rotation is the identity
        asym = np.abs(Hm - Hm.T).max()
        hs = max(1e-300, np.abs(Hm).max(), np.abs(X - cx).max() * np.abs(Yc).max())
        # float32 SVD noise relative to |H|, plus the coordinate rounding (tol) propagated through H = Σ y·xᵀ
        cert_tol = 4e-5 * hs * max(1.0, math.sqrt(n)) + 4 * tol * n * max(np.abs(X - cx).max(), np.abs(Yc).max())
        if asym > cert_tol:
            v.append(("C16/superimpose/certificate-not-symmetric", f"model {k}: |H - Ht| = {asym:.3g} (scale {hs:.3g})"))
            break
        ev = np.linalg.eigvalsh((Hm + Hm.T) / 2)
        if ev[0] + ev[1] < -cert_tol:
            v.append(("C16/superimpose/certificate-negative", f"model {k}: eigenvalues {ev.tolist()}"))
            break
    return v


def _subseq_indices(whole, part):
    """Greedy match of the rows of `part` as a subsequence of the rows of `whole` (None if impossible)."""
    import numpy as np
    idx = []
    j = 0
    for row in part:
        while j < len(whole) and not np.array_equal(whole[j], row):
            j += 1
        if j == len(whole):
            return None
        idx.append(j)
        j += 1
    return idx


def _oracle_woo(case):
    import numpy as np
    S = _mod()
    v = []
    fixed = np.array(case["fixed"], dtype=np.float32)
    mobile = np.array(case["mobile"], dtype=np.float32)
    F, M = (fixed, mobile) if not case.get("atoms") else (_as_atoms(fixed), _as_atoms(mobile))
    n = fixed.shape[-2]
    minA, maxI = case["min_anchors"], case["max_iterations"]
    sc = case.get("scalars", ["py", "py", "py", "tuple"])
    qs = [_spell_scalar(q, sc[2]) for q in case["quantiles"]]
    qs = {"tuple": tuple(qs), "list": qs, "ndarray": np.array(qs)}[sc[3]]
    snap = (_snapshot(F), _snapshot(M))
    calls = []
    real = S.superimpose

    def spy(f, m, *a, **k):
        r = real(f, m, *a, **k)
        calls.append((np.array(S.coord(f)), r[1]))
        return r
    try:
        with _patched(superimpose=spy):
            fitted, T, anchors = S.superimpose_without_outliers(
                F, M, min_anchors=_spell_scalar(minA, sc[0]), max_iterations=_spell_scalar(maxI, sc[1]), quantiles=qs,
                outlier_threshold=_spell_scalar(case["threshold"], sc[2]))
    except Exception as e:  # noqa: BLE001
        return [("C16/without_outliers/unexpected-exception", f"{type(e).__name__}: {e} (scalars as {sc})")]
    if (_snapshot(F), _snapshot(M)) != snap:
        return [("C16/without_outliers/arguments-modified", "superimpose_without_outliers() modified fixed or mobile")]
    anchors = [int(i) for i in anchors]
    fc = fitted if isinstance(fitted, np.ndarray) else fitted.coord
    if sorted(set(anchors)) != anchors or (anchors and (anchors[0] < 0 or anchors[-1] >= n)):
        return [("C16/without_outliers/anchors-not-a-sorted-subset", f"anchors {anchors} for {n} atoms")]
    if len(anchors) < min(minA, n):
        v.append(("C16/without_outliers/fewer-than-min-anchors", f"{len(anchors)} anchors, min_anchors={minA}, n={n}"))
    # the anchor sets of successive fits only shrink; at most max_iterations fits
    if not (1 <= len(calls) <= maxI):
        v.append(("C16/without_outliers/iteration-count", f"{len(calls)} fits for max_iterations={maxI}"))
    f2 = fixed if fixed.ndim == 2 else fixed[0]
    prev = f2                      # rows the previous fit used (coordinates: duplicates make indices ambiguous)
    for i, (fc_i, _) in enumerate(calls):
        rows = fc_i if fc_i.ndim == 2 else fc_i[0]
        if _subseq_indices(prev, rows) is None or (i == 0 and len(rows) != n):
            v.append(("C16/without_outliers/anchors-not-shrinking", f"fit {i} used {len(rows)} atoms after {len(prev)}: not a sub-selection"))
            break
        prev = rows
        if i > 0 and len(prev) < min(minA, n):
            v.append(("C16/without_outliers/fit-below-min-anchors", f"fit {i} used {len(prev)} atoms, min_anchors={minA}"))
    if calls and not v and not np.array_equal(prev, f2[anchors]):
        v.append(("C16/without_outliers/returned-anchors-are-not-the-fitted-ones",
                  f"last fit used {len(prev)} atoms, returned anchors {anchors[:20]} select different coordinates"))
    # the returned transformation is the fit on exactly the returned anchors (deterministic -> bit-equal)
    if anchors:
        _, T2 = real(fixed[..., anchors, :], mobile[..., anchors, :])
        same = all(np.array_equal(a, b) for a, b in ((T.rotation, T2.rotation), (T.center_translation, T2.center_translation),
                                                     (T.target_translation, T2.target_translation)))
        if not same:
            v.append(("C16/without_outliers/transform-not-fitted-on-returned-anchors",
                      f"max rotation difference {np.abs(T.rotation - T2.rotation).max():.3g} for anchors {anchors[:12]}"))
        again = T.apply(M)
        ac = again if isinstance(again, np.ndarray) else again.coord
        if not np.array_equal(ac, fc):
            v.append(("C16/without_outliers/apply-does-not-reproduce-fitted", f"max diff {np.abs(ac - fc).max():.3g}"))
        # never worse on its own anchors than any other rigid placement (here: the optimum itself, independently)
        f3 = fixed if fixed.ndim == 3 else fixed[None]
        m3 = mobile if mobile.ndim == 3 else mobile[None]
        fit3 = fc if fc.ndim == 3 else fc[None]
        for k in range(fit3.shape[0]):
            X = f3[k if f3.shape[0] > 1 else 0][anchors]
            Y0 = m3[k if m3.shape[0] > 1 else 0][anchors]
            r0 = _rmsd64(X, fit3[k][anchors])
            ropt = math.sqrt(_horn_min_ssd(X, Y0) / len(anchors))
            tol = _tol(f3, m3, fit3)
            if r0 > _allowed_rmsd(X, Y0, ropt, tol):
                v.append(("C16/without_outliers/anchor-rmsd-above-optimum", f"model {k}: anchor RMSD {r0:.6g} > optimum {ropt:.6g} on {len(anchors)} anchors"))
                break
    return v


def _oracle_homc(case):
    """`superimpose_homologs` on a rigid multi-chain copy with missing residues: no IndexError, the anchors pair
    atoms that coincide after fitting, and all truly corresponding residues (same chain, residue number, atom name)
    coincide after fitting."""
    import numpy as np
    S = _mod()
    F, M = _atoms_from(case["fixed_atoms"]), _atoms_from(case["mobile_atoms"])
    fch, mch = sorted(set(F.chain_id.tolist())), sorted(set(M.chain_id.tolist()))
    try:
        kw = dict(case.get("hom_kwargs") or {})
        if isinstance(kw.get("gap_penalty"), list):
            kw["gap_penalty"] = tuple(kw["gap_penalty"])
        if kw.get("substitution_matrix") == "object":
            from biotite.sequence.align.matrix import SubstitutionMatrix
            kw["substitution_matrix"] = (SubstitutionMatrix.std_nucleotide_matrix() if case.get("nuc")
                                         else SubstitutionMatrix.std_protein_matrix())
        if "quantiles" in kw:
            kw["quantiles"] = tuple(kw["quantiles"])
        snap = (_snapshot(F), _snapshot(M))
        fitted, T, fi, mi = S.superimpose_homologs(F, M, min_anchors=case.get("min_anchors", 3), **kw)
        if (_snapshot(F), _snapshot(M)) != snap:
            return [("C16/homologs/arguments-modified", "superimpose_homologs() modified fixed or mobile")]
    except ValueError as e:
        if fch != mch:
            return []                 # different number of chains: refused (zip strict)
        # documented refusals, accepted only where their condition really holds (computed independently of the message):
        # fewer backbone anchors than min_anchors, or fewer matched anchors than min_anchors AND different backbone counts
        minA = case.get("min_anchors", 3)
        back = lambda a: int(np.count_nonzero(np.isin(a.atom_name, ["CA", "P"])))   # noqa: E731
        nF, nM = back(F), back(M)
        if nF < minA or nM < minA:
            return []
        isb = np.isin(F.atom_name, ["CA", "P"]), np.isin(M.atom_name, ["CA", "P"])
        nA = _count_matched_anchors(F[..., isb[0]], M[..., isb[1]], kw, case.get("nuc"))
        if nA is None or (nA < minA and nF != nM):
            return []          # documented refusal (or not determinable independently: not judged)
        return [("C16/homologs/valid-input-refused", f"ValueError: {e} ({nF}/{nM} backbone atoms, {nA} matched anchors, min_anchors={minA})")]
    except Exception as e:  # noqa: BLE001
        return [("C16/homologs/unexpected-exception", f"{type(e).__name__}: {e} ({case.get('n_chains')} chains)")]
    if fch != mch:
        return [("C16/homologs/chain-count-mismatch-accepted", f"chains {fch} vs {mch} were superimposed")]
    v = []
    fi, mi = [int(i) for i in fi], [int(i) for i in mi]
    if len(fi) != len(mi):
        v.append(("C16/homologs/anchor-lists-differ-in-length", f"{len(fi)} vs {len(mi)}"))
        return v
    fc = fitted.coord if fitted.coord.ndim == 3 else fitted.coord[None]
    tol = 10 * _tol(F.coord, M.coord, fc)
    # (1) the reported anchors coincide after fitting (the mobile structure is a rigid copy)
    d = np.sqrt(((fc[:, mi, :].astype(np.float64) - F.coord[fi].astype(np.float64)) ** 2).sum(axis=-1))
    if d.size and d.max() > tol:
        ids = lambda a, i: f"{a.chain_id[i]}{a.res_id[i]}"   # noqa: E731
        j = int(np.argmax(d.max(axis=0)))
        v.append(("C16/homologs/anchors-do-not-coincide-after-fitting",
                  f"anchor pair fixed {ids(F, fi[j])} / mobile {ids(M, mi[j])} is {d.max():.3f} apart after fitting "
                  f"(rigid copy, {len(fi)} anchors, {case.get('n_chains')} chains, tol {tol:.2g})"))
    # (2) anchors pair the same residue
    bad = [(j, F.chain_id[a], int(F.res_id[a]), M.chain_id[b], int(M.res_id[b])) for j, (a, b) in enumerate(zip(fi, mi))
           if (F.chain_id[a], F.res_id[a]) != (M.chain_id[b], M.res_id[b])]
    if bad:
        v.append(("C16/homologs/anchors-pair-different-residues",
                  f"{len(bad)} of {len(fi)} anchor pairs, e.g. fixed {bad[0][1]}{bad[0][2]} with mobile {bad[0][3]}{bad[0][4]}"))
    # (3) all truly corresponding atoms coincide after fitting
    key = lambda a: {(c, int(r), n): i for i, (c, r, n) in enumerate(zip(a.chain_id, a.res_id, a.atom_name))}   # noqa: E731
    kf, km = key(F), key(M)
    common = sorted(set(kf) & set(km))
    if common:
        ia, ib = [kf[k] for k in common], [km[k] for k in common]
        r = max(_rmsd64(F.coord[ia], fc[k][ib]) for k in range(fc.shape[0]))
        if r > tol:
            v.append(("C16/homologs/rigid-copy-rmsd-not-zero",
                      f"RMSD over the {len(common)} corresponding atoms is {r:.4g} after fitting a rigid copy "
                      f"({case.get('n_chains')} chains, {len(fi)} anchors, tol {tol:.2g})"))
    # (4) the fitted coordinates are apply() of the returned transformation
    again = T.apply(M)
    if not np.array_equal(again.coord, fitted.coord):
        v.append(("C16/homologs/apply-does-not-reproduce-fitted", f"max diff {np.abs(again.coord - fitted.coord).max():.3g}"))
    return v


def _oracle_refuse(case):
    """Forked for the classes that feed non-finite / empty data to LAPACK (a hang or crash is a verdict)."""
    if case.get("what") in ("nonfinite-selected", "empty-selection", "woo-empty", "overflowing-coordinates"):
        from common import sandbox
        res = sandbox.run_forked(_oracle_refuse_inner, case, timeout=20)
        if res[0] == "ok":
            return res[1]
        return [(f"C16/refuse/{case['what']}/hang-or-crash", f"the call `{case['what']}` ended as {res}")]
    return _oracle_refuse_inner(case)


def _oracle_refuse_inner(case):
    import random
    import numpy as np
    import biotite.structure as struc
    S = _mod()
    r = random.Random(case["seed"])
    n, m, what = case["n"], case["m"], case["what"]
    g = lambda *sh: np.array([r.gauss(0, 3) for _ in range(int(np.prod(sh)))], dtype=np.float32).reshape(sh)   # noqa: E731
    wrap = (lambda a: _as_atoms(a)) if case.get("atoms") else (lambda a: _spell(a, case.get("layout", "c")))
    T = None
    if what == "mask-length":
        args = [wrap(g(n, 3)), wrap(g(n, 3)), np.array([True] * (n + r.choice([1, 2])))]
        call, exp = (lambda: S.superimpose(args[0], args[1], atom_mask=args[2])), (IndexError,)
    elif what == "model-counts":
        args = [wrap(g(m, n, 3)), wrap(g(m + 1, n, 3))]
        call, exp = (lambda: S.superimpose(args[0], args[1])), (ValueError, IndexError)
    elif what == "stack-onto-single":
        args = [wrap(g(m, n, 3)), wrap(g(n, 3))]
        call, exp = (lambda: S.superimpose(args[0], args[1])), (IndexError,)
    elif what == "woo-iterations":
        args = [wrap(g(n, 3)), wrap(g(n, 3))]
        call, exp = (lambda: S.superimpose_without_outliers(args[0], args[1], max_iterations=r.choice([0, -1]))), (ValueError,)
    elif what == "woo-quantiles":
        args = [wrap(g(n, 3)), wrap(g(n, 3))]
        call, exp = (lambda: S.superimpose_without_outliers(args[0], args[1], quantiles=r.choice([(-0.25, 0.75), (0.25, 1.5)]))), (ValueError,)
    elif what == "rmsd-reference":
        args = [wrap(g(m, n, 3)), wrap(g(m, n, 3))]
        call, exp = (lambda: struc.rmsd(args[0], args[1])), (TypeError,)
    elif what == "atom-counts":
        # different atom counts, neither a single atom (which numpy would silently repeat: contradicts the documented
        # atom correspondence, not demanded either way): no fit may be reported
        na, nb = r.sample([2, 3, 4, 5, 7], 2)
        args = [wrap(g(na, 3)), wrap(g(nb, 3))]
        call, exp = (lambda: S.superimpose(args[0], args[1])), (ValueError,)
    elif what in ("nonfinite-selected", "empty-selection", "woo-empty", "overflowing-coordinates"):
        # not point sets with n >= 1 finite atoms: the call must be LOUD — an exception, or a result that is visibly
        # non-finite; a finite transformation would be a silently wrong fit
        n2 = max(n, 2)
        a, b = g(n2, 3), g(n2, 3)
        mask = None
        if what == "nonfinite-selected":
            bad = r.choice([np.nan, np.inf, -np.inf])
            (a if r.random() < 0.5 else b)[r.randrange(n2), r.randrange(3)] = bad
            if r.random() < 0.4:
                mask = np.ones(n2, dtype=bool)
        elif what == "overflowing-coordinates":
            a, b = a * np.float32(1e20), b * np.float32(1e20)     # squares overflow float32
        elif what == "empty-selection":
            if r.random() < 0.5:
                mask = np.zeros(n2, dtype=bool)
            else:
                a, b = a[:0], b[:0]
        else:
            a, b = a[:0], b[:0]
        args = [wrap(a), wrap(b)] + ([mask] if mask is not None else [])
        snap = [_snapshot(x) for x in args]
        import warnings
        try:
            with warnings.catch_warnings(), np.errstate(all="ignore"):
                warnings.simplefilter("ignore")
                if what == "woo-empty":
                    res = S.superimpose_without_outliers(args[0], args[1])
                else:
                    res = S.superimpose(args[0], args[1], atom_mask=mask)
        except (np.linalg.LinAlgError, ValueError, IndexError, FloatingPointError, ZeroDivisionError):
            res = None
        except Exception as e:  # noqa: BLE001
            return [(f"C16/refuse/{what}/wrong-error", f"{type(e).__name__}: {e}")]
        if [_snapshot(x) for x in args] != snap:
            return [(f"C16/refuse/{what}/changed-arguments", f"the call `{what}` modified its arguments")]
        if res is not None:
            Tr = res[1]
            finite = all(np.all(np.isfinite(x)) for x in (Tr.rotation, Tr.center_translation, Tr.target_translation))
            if what == "woo-empty" or finite:
                return [(f"C16/refuse/{what}/silent-finite-result",
                         f"`{what}` returned a finite transformation instead of raising (or a visibly non-finite result): "
                         f"rotation {np.asarray(Tr.rotation).ravel()[:3].tolist()}")]
        return []
    else:   # apply-broadcast: 2 centre translations for 3 rotations
        T = S.AffineTransformation(g(2, 3), np.stack([np.eye(3, dtype=np.float32)] * 3), g(1, 3))
        args = [wrap(g(3, n, 3))]
        call, exp = (lambda: T.apply(args[0])), (ValueError,)
    snap = [_snapshot(a) for a in args]
    tsnap = _t_snapshot(T) if T is not None else None
    try:
        call()
        return [(f"C16/refuse/{what}/accepted", f"the malformed call `{what}` (n={n}, m={m}) was not refused")]
    except exp:
        pass
    except Exception as e:  # noqa: BLE001
        return [(f"C16/refuse/{what}/wrong-error", f"{type(e).__name__}: {e}")]
    if [_snapshot(a) for a in args] != snap or (T is not None and _t_snapshot(T) != tsnap):
        return [(f"C16/refuse/{what}/changed-arguments", f"the refused call `{what}` modified its arguments (n={n}, m={m}, atoms={case.get('atoms')})")]
    return []


def _oracle_rigidapi(case):
    """translate / rotate / rotate_centered / rotate_about_axis / orient_principal_components / align_vectors are rigid
    motions: superimposing their result back onto the input gives RMSD ~ 0 with a proper rotation, the public rmsd()
    agrees, and the input is not modified."""
    import random
    import numpy as np
    import biotite.structure as struc
    S = _mod()
    r = random.Random(case["seed"])
    n, sc = case["n"], case["scale"]
    shape = (case["stack"], n, 3) if case["stack"] else (n, 3)
    base = np.array([r.gauss(0, 1) for _ in range(int(np.prod(shape)))], dtype=np.float32).reshape(shape) * np.float32(sc)
    X = _as_atoms(base.copy()) if case.get("atoms") else base.copy()
    sp = {"list": list, "tuple": tuple, "ndarray": np.array, "f32": lambda v: np.array(v, dtype=np.float32),
          "i64": lambda v: np.array(np.round(v), dtype=np.int64)}[case["spell"]]
    vec = lambda k=1.0: sp([r.gauss(0, 1) * k + (0.5 if case["spell"] == "i64" else 0) for _ in range(3)])   # noqa: E731
    nzvec = lambda: sp([r.choice([-2.0, -1.0, 1.0, 2.0, 3.0]) for _ in range(3)])   # noqa: E731
    ang = r.uniform(-3.1, 3.1)
    fn = case["fn"]
    snap = _snapshot(X)
    try:
        if fn == "translate":
            Y = struc.translate(X, vec(sc))
        elif fn == "rotate":
            Y = struc.rotate(X, sp([r.uniform(-3, 3) for _ in range(3)]))
        elif fn == "rotate_centered":
            Y = struc.rotate_centered(X, sp([r.uniform(-3, 3) for _ in range(3)]))
        elif fn == "rotate_about_axis":
            Y = struc.rotate_about_axis(X, nzvec(), np.float32(ang) if case["spell"] == "f32" else ang)
        elif fn == "rotate_about_axis+support":
            Y = struc.rotate_about_axis(X, nzvec(), ang, support=vec(sc))
        elif fn == "orient_principal_components":
            if case["stack"] or n < 3:
                # documented domain: one model with at least 3 atoms; anything else must be refused with ValueError
                try:
                    struc.orient_principal_components(X)
                except ValueError:
                    return [] if _snapshot(X) == snap else [("C16/rigid-motion/orient_principal_components/modified-input", "refused call modified its input")]
                return [("C16/rigid-motion/orient_principal_components/degenerate-input-accepted",
                         f"{'a stack' if case['stack'] else str(n) + ' atom(s)'} accepted instead of ValueError")]
            Y = struc.orient_principal_components(X)
        elif fn.startswith("align_vectors"):
            a, b = nzvec(), nzvec()
            a64, b64 = np.array(a, dtype=float), np.array(b, dtype=float)
            antiparallel = np.allclose(np.cross(a64, b64), 0) and a64 @ b64 < 0
            try:
                if fn == "align_vectors":
                    Y = struc.align_vectors(X, a, b)
                else:
                    Y = struc.align_vectors(X, a, b, origin_position=vec(sc), target_position=vec(sc))
            except ValueError:
                if antiparallel and _snapshot(X) == snap:
                    return []            # exactly opposite directions: documented refusal (rotation axis undefined)
                raise
        else:
            Y = struc.translate(struc.rotate_about_axis(struc.rotate(X, [0.3, -1.1, 2.0]), [1, 1, 0], ang), vec(sc))
    except Exception as e:  # noqa: BLE001
        return [(f"C16/rigid-motion/{fn}/unexpected-exception", f"{type(e).__name__}: {e} (arguments as {case['spell']}, shape {shape})")]
    if _snapshot(X) != snap:
        return [(f"C16/rigid-motion/{fn}/modified-input", f"{fn} modified its input (arguments as {case['spell']})")]
    if type(Y) is not type(X) or S.coord(Y).shape != base.shape:
        return [(f"C16/rigid-motion/{fn}/result-shape", f"{type(Y).__name__}{S.coord(Y).shape} for {type(X).__name__}{base.shape}")]
    Yc = np.array(S.coord(Y), dtype=np.float32)
    if not np.all(np.isfinite(Yc)):
        return [(f"C16/rigid-motion/{fn}/non-finite", "result contains non-finite coordinates")]
    # the motion is rigid: each model of Y superimposes onto the corresponding model of X with RMSD ~ 0
    v = []
    X3, Y3 = (base if base.ndim == 3 else base[None]), (Yc if Yc.ndim == 3 else Yc[None])
    for k in range(X3.shape[0]):
        fitted, T = S.superimpose(X3[k], Y3[k])
        r0 = _rmsd64(X3[k], fitted)
        tol = 4 * _tol(X3[k], Y3[k])
        allowed = _allowed_rmsd(X3[k], Y3[k], 0.0, tol)
        if r0 > allowed:
            v.append((f"C16/rigid-motion/{fn}/not-rigid", f"model {k}: after {fn} (arguments as {case['spell']}) the best fit back onto the input "
                      f"still has RMSD {r0:.4g} (allowed {allowed:.2g}, n={n}, extent {sc})"))
            break
        if abs(float(struc.rmsd(X3[k], fitted)) - r0) > tol:
            v.append(("C16/rmsd/differs-from-definition", f"rmsd() = {float(struc.rmsd(X3[k], fitted)):.6g}, independent {r0:.6g}"))
            break
    return v


def _count_matched_anchors(Fb, Mb, kw, nuc):
    """Independent recount (public API only, no private helper of the code under test) of the anchors the sequence
    alignment yields for two backbone-only structures: gap-free columns with a positive substitution score, chain by
    chain.  Returns None when it cannot be determined (then the oracle does not judge the refusal)."""
    try:
        import numpy as np
        import biotite.structure as struc
        from biotite.sequence.align import SubstitutionMatrix, align_optimal
        from biotite.sequence.alphabet import common_alphabet
        from biotite.sequence.seqtypes import ProteinSequence
        matrix = kw.get("substitution_matrix")
        total = 0
        for fc, mc in zip(struc.chain_iter(Fb), struc.chain_iter(Mb)):
            fs = struc.to_sequence(fc, allow_hetero=True)[0][0]
            ms = struc.to_sequence(mc, allow_hetero=True)[0][0]
            if matrix is None:
                matrix = SubstitutionMatrix.std_protein_matrix() if isinstance(fs, ProteinSequence) else SubstitutionMatrix.std_nucleotide_matrix()
            elif isinstance(matrix, str):
                alph = common_alphabet([fs.alphabet, ms.alphabet])
                matrix = SubstitutionMatrix(alph, alph, matrix)
            ali = align_optimal(fs, ms, matrix, kw.get("gap_penalty", -10), terminal_penalty=kw.get("terminal_penalty", False), max_number=1)[0]
            tr = ali.trace[(ali.trace != -1).all(axis=1)]
            total += int((matrix.score_matrix()[fs.code[tr[:, 0]], ms.code[tr[:, 1]]] > 0).sum())
        return total
    except Exception:  # noqa: BLE001
        return None


def _oracle_homamb(case):
    """Ambiguous homolog input: the anchor pairing is the sequence method's business, but the reported fit must be the
    optimal fit of the reported anchor pairs, reproduce `apply`, and refusals are only the documented ones."""
    import numpy as np
    S = _mod()
    F, M = _atoms_from(case["fixed_atoms"]), _atoms_from(case["mobile_atoms"])
    minA = case.get("min_anchors", 3)
    kw = dict(case.get("hom_kwargs") or {})
    if isinstance(kw.get("gap_penalty"), list):
        kw["gap_penalty"] = tuple(kw["gap_penalty"])
    fch = [c for i, c in enumerate(F.chain_id) if i == 0 or F.chain_id[i - 1] != c]
    mch = [c for i, c in enumerate(M.chain_id) if i == 0 or M.chain_id[i - 1] != c]
    nF, nM = F.array_length(), M.array_length()          # backbone-only structures
    snap = (_snapshot(F), _snapshot(M))
    try:
        fitted, T, fi, mi = S.superimpose_homologs(F, M, min_anchors=minA, **kw)
    except ValueError as e:
        if (_snapshot(F), _snapshot(M)) != snap:
            return [("C16/homologs/refused-call-modified-arguments", str(e))]
        if len(fch) != len(mch) or nF < minA or nM < minA:
            return []
        nA = _count_matched_anchors(F, M, kw, case.get("nuc"))
        if nA is None or (nA < minA and nF != nM):
            return []          # documented refusal (or not determinable independently: not judged)
        return [("C16/homologs/valid-input-refused", f"ValueError: {e} ({nF}/{nM} backbone atoms, {nA} matched, min_anchors={minA})")]
    except Exception as e:  # noqa: BLE001
        return [("C16/homologs/unexpected-exception", f"{type(e).__name__}: {e} ({case.get('n_chains')} chains, {nF}/{nM} atoms)")]
    if (_snapshot(F), _snapshot(M)) != snap:
        return [("C16/homologs/arguments-modified", "superimpose_homologs() modified fixed or mobile")]
    fi, mi = [int(i) for i in fi], [int(i) for i in mi]
    v = []
    if len(fi) != len(mi) or not fi or min(fi) < 0 or max(fi) >= nF or min(mi) < 0 or max(mi) >= nM \
            or sorted(set(fi)) != fi or sorted(set(mi)) != mi:
        return [("C16/homologs/anchor-indices-malformed", f"fixed {fi} / mobile {mi} for {nF}/{nM} atoms")]
    if len(fi) < min(minA, nF, nM):
        v.append(("C16/homologs/fewer-than-min-anchors", f"{len(fi)} anchors, min_anchors={minA}"))
    if not np.array_equal(T.apply(M).coord, fitted.coord):
        v.append(("C16/homologs/apply-does-not-reproduce-fitted", "fitted != transform.apply(mobile)"))
    # the reported transformation is the fit of exactly the reported anchor pairs, and optimal for them
    _, T2 = S.superimpose(F.coord[fi], M.coord[mi])
    if not all(np.array_equal(a, b) for a, b in ((T.rotation, T2.rotation), (T.center_translation, T2.center_translation),
                                                 (T.target_translation, T2.target_translation))):
        v.append(("C16/homologs/transform-not-fitted-on-returned-anchors", f"anchors fixed {fi[:8]} / mobile {mi[:8]}"))
    X, Y0, Y = F.coord[fi], M.coord[mi], fitted.coord[mi]
    r0 = _rmsd64(X, Y)
    ropt = math.sqrt(_horn_min_ssd(X, Y0) / len(fi))
    tol = _tol(F.coord, M.coord, fitted.coord)
    if r0 > _allowed_rmsd(X, Y0, ropt, tol):
        v.append(("C16/homologs/anchor-rmsd-above-optimum", f"anchor RMSD {r0:.6g} > optimum {ropt:.6g} on {len(fi)} anchors"))
    return v


def _oracle_exact(case):
    """Exact streams: as_matrix == apply and model-wise action on the real objects (exact inputs, tiny tolerance)."""
    v = []
    dt = case.get("dt", ["float32"] * 3)
    for op in case["ops"]:
        w = op.split()
        if w[0] != "apply":
            continue
        T = _transform(w[1:7], dt)
        X = _coords(w[7], int(w[8]), int(w[9]), w[10])
        # acceptance is a function of the shapes alone (documented broadcasting): the structure must have as many models
        # as there are rotations (else IndexError); each translation array has one row or one row per rotation (else ValueError)
        m, kc, kt = T.rotation.shape[0], T.center_translation.shape[0], T.target_translation.shape[0]
        mx = X.shape[0] if X.ndim == 3 else 1
        expect = IndexError if mx != m else (ValueError if (kc not in (1, m) or kt not in (1, m)) else None)
        shapes = f"{mx} model(s), {m} rotation(s), {kc} centre / {kt} target translation(s)"
        try:
            T.apply(X.copy())
            got = None
        except Exception as e:  # noqa: BLE001
            got = type(e)
        if expect is None and got is not None:
            v.append(("C16/AffineTransformation/valid-apply-refused", f"apply() raised {got.__name__} for {shapes}"))
        elif expect is not None and got is None:
            v.append(("C16/AffineTransformation/model-count-mismatch-accepted" if expect is IndexError
                      else "C16/AffineTransformation/translation-shape-mismatch-accepted", f"apply() accepted {shapes}"))
        elif expect is not None and got is not expect:
            v.append(("C16/AffineTransformation/wrong-error", f"apply() raised {got.__name__}, expected {expect.__name__} for {shapes}"))
        if v or expect is not None:
            return v
        _check_transform(T, X, "AffineTransformation", v)
        if not v:
            _check_transform(T, _as_atoms(X.copy()), "AffineTransformation", v)
    return v


def oracle(case):
    k = case.get("kind")
    if k == "fit":
        return _oracle_fit(case)
    if k == "woof":
        return _oracle_woo(case)
    if k == "apply":
        return _oracle_exact(case)
    if k == "homc":
        return _oracle_homc(case)
    if k == "refuse":
        return _oracle_refuse(case)
    if k == "homamb":
        return _oracle_homamb(case)
    if k == "rigidapi":
        return _oracle_rigidapi(case)
    return []


# ---------------------------------------------------------------- bookkeeping
def nontrivial(case, impl_out):
    k = case.get("kind")
    if k == "fit":
        import numpy as np
        return bool(case.get("large")) or np.array(case["fixed"]).shape[-2] >= 2
    if k == "woof":
        return True
    if k == "homc":
        return case.get("n_chains", 1) >= 2
    if k in ("refuse", "rigidapi", "homamb"):
        return True
    if impl_out and any(o.startswith("ERR") for o in impl_out):
        return True
    return bool(impl_out) and any(len(o) > 12 for o in impl_out)


def signature(case):
    if case.get("ops"):
        return "|".join(case["ops"])
    if "fixed" not in case:
        return case.get("kind", "?") + repr(sorted((k, repr(v)[:80]) for k, v in case.items() if not k.startswith("_")))[:600]
    return case["kind"] + repr(case["fixed"])[:400] + repr(case["mobile"])[:400] + repr(case.get("mask"))


def distribution(cases, impl_outs):
    d = {"outcomes": {}, "fit_shapes": {}, "fit_combos": {}, "fit_noise": {}, "rigid": 0, "mirror": 0, "masked": 0}
    for c, o in zip(cases, impl_outs):
        for line in o or []:
            key = line.split(" ")[0]
            d["outcomes"][key] = d["outcomes"].get(key, 0) + 1
        if c.get("kind") == "fit":
            for f, k in (("fit_shapes", "shape"), ("fit_combos", "combo"), ("fit_noise", "noise")):
                d[f][str(c.get(k))] = d[f].get(str(c.get(k)), 0) + 1
            d["rigid"] += bool(c.get("rigid"))
            d["mirror"] += bool(c.get("mirror"))
            d["masked"] += c.get("mask") is not None
    return d


def search(rng, problems, tier):
    """Failing-input search (oracle only): more float cases, biased to reflective / degenerate sets and the anchor loop."""
    n = 400 if tier == "quick" else 3000
    for _ in range(n):
        yield _gen_fit(rng, search=True)
    for _ in range(n // 3):
        yield _gen_woo_float(rng)
    for _ in range(n // 4):
        yield _gen_apply(rng)
    for _ in range(n // 5):
        yield _gen_homc(rng, force_multichain=True)

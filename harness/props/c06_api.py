"""C06 — hardening streams (helper of harness/props/c06.py; see notes/C06.md "Hardening pass").

State across calls on one object, refused calls, other spellings of the same value, forwarded arguments /
defaults, order/prefix names, and the less-used public entry points of cif.py / bcif.py (copy, __str__, lines,
block, read/write, name, as_item, as_array(dtype, masked_value), the MutableMapping mixins).
Everything here is oracle-level (the expectation is stated directly from "an ordinary mutable mapping of
tables"), except the `reuse` op, which is also compared with the Lean model.
"""
import copy
import os

SUBS = ["copy", "views", "io", "mixin", "defaults", "names", "spell", "astype", "badnames", "placeholder", "refusals"]


# ---------------------------------------------------------------- generators
def edit_blocks(rng, blocks, c06):
    """blocks (string spec) -> an edited copy that keeps the relative order of what is retained and appends what is
    new at the end (so that an object morphed in place and a fresh object have the same key order)."""
    b2 = copy.deepcopy(blocks)
    # a name that was dropped must not come back as "new" (it would keep its old position in the edited object)
    ever = {"": [bn for bn, _ in blocks]}
    for bn, cats in blocks:
        ever[bn] = [cn for cn, _ in cats]
        for cn, cols in cats:
            ever[bn + "\0" + cn] = [k for k, _ in cols]

    def newcol(r, used):
        return (c06.name(rng, used), [c06.render_cell(c06.cell_of(c06.simple_value(rng))) for _ in range(r)])

    for _ in range(rng.randint(1, 4)):
        x = rng.random()
        blk = rng.choice(b2)
        cats = blk[1]
        cat = rng.choice(cats) if cats else None
        if x < 0.3 and cat:                                   # another row count for the whole category
            r = rng.choice([1, 2, 3, 4])
            cat[1][:] = [(k, [c06.render_cell(c06.cell_of(c06.simple_value(rng))) for _ in range(r)]) for k, _ in cat[1]]
        elif x < 0.45 and cat:                                # one value
            k, vs = rng.choice(cat[1])
            vs[rng.randrange(len(vs))] = c06.render_cell(c06.cell_of(c06.simple_value(rng)))
        elif x < 0.55 and cat and len(cat[1]) > 1:            # drop a column
            del cat[1][rng.randrange(len(cat[1]))]
        elif x < 0.65 and cat:                                # add a column
            cat[1].append(newcol(len(cat[1][0][1]), [k for k, _ in cat[1]] + ever.get(blk[0] + "\0" + cat[0], [])))
        elif x < 0.72 and len(cats) > 1:                      # drop a category
            del cats[rng.randrange(len(cats))]
        elif x < 0.85:                                        # add a category
            r = rng.choice([1, 2, 3])
            cols = []
            for _ in range(rng.randint(1, 3)):
                cols.append(newcol(r, [k for k, _ in cols]))
            cats.append((c06.name(rng, [n for n, _ in cats] + ever.get(blk[0], [])), cols))
        elif x < 0.92 and len(b2) > 1:                        # drop a block
            del b2[rng.randrange(len(b2))]
        else:                                                 # add a block
            b2.append((c06.name(rng, [n for n, _ in b2] + ever[""]), [(c06.name(rng), [newcol(rng.choice([1, 2]), [])])]))
    return b2


def reuse_case(rng, c06):
    table = c06.make_table(rng, multi_ok=rng.random() < 0.3)
    b1 = [(b, [(c, [(k, list(vs)) for k, vs in cols]) for c, cols in cats]) for b, cats in c06.table_to_blocks(table)]
    b2 = edit_blocks(rng, b1, c06)
    flav = rng.choice(["t", "t", "b"])
    case = {"kind": "reuse/" + flav, "spec1": c06.enc_blocks(b1), "spec2": c06.enc_blocks(b2)}
    if flav == "t":
        case["ops"] = [f"reuse {case['spec1']} {case['spec2']}"]
    return case


def api_case(rng, c06, sub=None):
    sub = sub or rng.choice(SUBS)
    table = c06.make_table(rng, multi_ok=False)
    case = {"kind": "api/" + sub, "spec": c06.enc_blocks(c06.table_to_blocks(table)), "seed": rng.randrange(10**9),
            "flav": rng.choice(["t", "b"])}
    if sub == "badnames":
        # names outside NameOk: the text writer must refuse '.'/whitespace in category and column names and line
        # breaks in block names, and keep every other name; also compared with the model
        level, nm = rng.choice(["block", "category", "column"]), rng.choice(ODD_NAMES)
        case["level"], case["name"] = level, nm
        spec = bad_spec(level, nm)
        if case["flav"] == "t":
            case["ops"] = [f"serfile {c06.enc_blocks(spec)}", f"rt {c06.enc_blocks(spec)}"]
    return case


ODD_NAMES = ["a b", "a\tb", "a.b", ".", "a ", " a", "a\xa0b", "x\ny", "x\n", "x\ry", "x\x85", "a'b", 'a"b', "'a", "#a", "a#b", ";a", "$a",
             "_a", "a[1]", "\xe9t\xe9", "data_", "loop_", "save_x", "\u03bb", "a\u2003b", "a\u2028b", "a\x1fb"]


def bad_spec(level, nm):
    return [(nm if level == "block" else "b",
             [(nm if level == "category" else "c", [(nm if level == "column" else "k", ["1", "two words"]), ("j", ["x", "y"])])])]


def name_refused(level, nm):
    """what the text writer must do with this name (the complement of NameOk, clause by clause)"""
    if level == "block":
        return any(c in "\n\r\x0b\x0c\x1c\x1d\x1e\x85\u2028\u2029" for c in nm)
    return "." in nm or any(c.isspace() for c in nm)


# ---------------------------------------------------------------- building / reading real objects
def build(flav, blocks):
    import numpy as np
    import biotite.structure.io.pdbx as pdbx
    if flav == "t":
        f = pdbx.CIFFile()
        for bn, cats in blocks:
            b = pdbx.CIFBlock()
            for cn, cols in cats:
                b[cn] = pdbx.CIFCategory({k: pdbx.CIFColumn(list(vs)) for k, vs in cols})
            f[bn] = b
        return f
    f = pdbx.BinaryCIFFile()
    for bn, cats in blocks:
        b = pdbx.BinaryCIFBlock()
        for cn, cols in cats:
            b[cn] = pdbx.BinaryCIFCategory({k: np.array(list(vs)) for k, vs in cols})
        f[bn] = b
    return f


def new_category(flav, cols):
    import numpy as np
    import biotite.structure.io.pdbx as pdbx
    if flav == "t":
        return pdbx.CIFCategory({k: pdbx.CIFColumn(list(vs)) for k, vs in cols})
    return pdbx.BinaryCIFCategory({k: np.array(list(vs)) for k, vs in cols})


def new_block(flav, cats):
    import biotite.structure.io.pdbx as pdbx
    b = pdbx.CIFBlock() if flav == "t" else pdbx.BinaryCIFBlock()
    for cn, cols in cats:
        b[cn] = new_category(flav, cols)
    return b


def morph(f, flav, blocks2):
    """Turn the object f in place into the content blocks2 using only the mapping API."""
    import numpy as np
    names2 = [bn for bn, _ in blocks2]
    for bn in list(f):
        if bn not in names2:
            del f[bn]
    for bn, cats in blocks2:
        if bn not in f:
            f[bn] = new_block(flav, cats)
            continue
        b = f[bn]
        cnames = [cn for cn, _ in cats]
        for cn in list(b):
            if cn not in cnames:
                del b[cn]
        for cn, cols in cats:
            if cn not in b:
                b[cn] = new_category(flav, cols)
                continue
            cat = b[cn]
            for k, vs in cols:
                cat[k] = list(vs) if flav == "t" else np.array(list(vs))
            keys = [k for k, _ in cols]
            for k in list(cat):
                if k not in keys:
                    del cat[k]


def dump(flav, f):
    """serialised form: text, or msgpack bytes"""
    import msgpack
    import biotite.structure.io.pdbx as pdbx
    if flav == "t":
        return f.serialize()
    return msgpack.packb(f.serialize(), use_bin_type=True, default=pdbx.bcif._encode_numpy)


def load(flav, data):
    import msgpack
    import biotite.structure.io.pdbx as pdbx
    if flav == "t":
        return pdbx.CIFFile.deserialize(data)
    return pdbx.BinaryCIFFile.deserialize(msgpack.unpackb(data, use_list=True, raw=False))


def content(flav, f):
    """nested plain content of a file object: [(block, [(category, [(key, [str...])])])]"""
    out = []
    for bn in f:
        cats = []
        for cn in f[bn]:
            cat = f[bn][cn]
            cats.append((cn, [(k, [str(x) for x in (cat[k].as_array() if flav == "t" else cat[k].as_array(str))]) for k in cat]))
        out.append((bn, cats))
    return out


def plain(blocks):
    return [(bn, [(cn, [(k, list(vs)) for k, vs in cols]) for cn, cols in cats]) for bn, cats in blocks]


# ---------------------------------------------------------------- implementation side of the `reuse` op
def reuse_impl(c06, spec1, spec2):
    f = build("t", c06.dec_blocks(spec1))
    t1 = f.serialize()
    morph(f, "t", c06.dec_blocks(spec2))
    t2 = f.serialize()
    return "ok " + c06.enc(t1) + " " + c06.enc(t2)


# ---------------------------------------------------------------- oracles
def reuse_oracle(case, c06):
    flav = case["kind"].split("/")[1]
    b1, b2 = c06.dec_blocks(case["spec1"]), c06.dec_blocks(case["spec2"])
    key = "C06/reuse/" + ("text" if flav == "t" else "binary")
    f = build(flav, b1)
    d1 = dump(flav, f)
    if content(flav, load(flav, d1)) != plain(b1):
        return [(key + "/first-write", "the first serialisation does not hold the content")]
    # a refused serialisation in between must change nothing
    for bn in f:
        for cn in f[bn]:
            cat = f[bn][cn]
            if len(cat) >= 2:
                k0 = next(iter(cat))
                old = [str(x) for x in (cat[k0].as_array() if flav == "t" else cat[k0].as_array(str))]
                import numpy as np
                cat[k0] = (old + ["extra"]) if flav == "t" else np.array(old + ["extra"])
                try:
                    dump(flav, f)
                    return [(key + "/ragged-accepted", f"a category with columns of different length was serialised ({bn}.{cn})")]
                except Exception as e:  # noqa: BLE001
                    if type(e).__name__ != "SerializationError":
                        return [(key + "/ragged-error-class", f"ragged category: {type(e).__name__}: {e}")]
                cat[k0] = old if flav == "t" else np.array(old)
                d1b = dump(flav, f)
                if (d1b != d1) if flav == "t" else (content(flav, load(flav, d1b)) != plain(b1)):
                    return [(key + "/refused-call-changed-state", "after a refused serialisation and undoing the edit the file is written differently")]
                break
        else:
            continue
        break
    morph(f, flav, b2)
    d2 = dump(flav, f)
    fresh2 = dump(flav, build(flav, b2))
    if flav == "t":
        if d2 != fresh2:
            return [(key + "/second-write", f"object edited in place is written differently from a fresh object with the same content:\n{d2!r}\nvs\n{fresh2!r}")]
    if content(flav, load(flav, d2)) != plain(b2):
        return [(key + "/second-write", f"after editing in place the file holds {content(flav, load(flav, d2))!r}, expected {plain(b2)!r}")]
    # parse, edit what was lazily parsed, write again
    g = load(flav, d1)
    morph(g, flav, b2)
    d3 = dump(flav, g)
    if content(flav, load(flav, d3)) != plain(b2):
        return [(key + "/edit-after-parse", f"a parsed file edited in place holds {content(flav, load(flav, d3))!r}, expected {plain(b2)!r}")]
    # the edited parsed file and the fresh file are equal mappings
    return []


def api_oracle(case, c06):
    import random
    sub = case["kind"].split("/")[1]
    rng = random.Random(case["seed"])
    flav = case["flav"]
    blocks = c06.dec_blocks(case["spec"])
    fl = "text" if flav == "t" else "binary"
    fn = globals()["_api_" + sub]
    try:
        msg = fn(rng, flav, blocks, c06) if sub != "badnames" else _api_badnames(case, flav)
    except Exception as e:  # noqa: BLE001
        # an exception escaping here comes from the code under test (well-formed input): a verdict with its own key
        msg = f"{sub}: the real code raised {type(e).__name__}: {e}"
    if isinstance(msg, tuple):
        return [msg]
    return [(f"C06/api/{fl}/{sub}", msg)] if msg else []


def _api_badnames(case, flav):
    level, nm = case["level"], case["name"]
    spec = bad_spec(level, nm)
    try:
        back = content(flav, load(flav, dump(flav, build(flav, spec))))
    except Exception as e:  # noqa: BLE001
        back = type(e).__name__
    if flav == "t" and name_refused(level, nm):
        if back != "SerializationError":
            return f"{level} name {nm!r} cannot be represented in CIF text: expected SerializationError, got {back!r}"
        return None
    if back != plain(spec):
        return f"{level} name {nm!r}: written and read back as {back!r}"
    return None


def _api_placeholder(rng, flav, blocks, c06):
    """a PRESENT value that is the string '.' or '?' (explicit all-PRESENT mask)"""
    import numpy as np
    import biotite.structure.io.pdbx as pdbx
    vals = [rng.choice([".", "?"]), "x", rng.choice([".", "?", "y"])]
    mask = np.zeros(3, dtype=np.uint8)
    if flav == "t":
        col = pdbx.CIFColumn(pdbx.CIFData(vals), mask)
        back = pdbx.CIFCategory.deserialize(pdbx.CIFCategory({"k": col}, name="c").serialize())["k"]
    else:
        col = pdbx.BinaryCIFColumn(np.array(vals), mask)
        f = pdbx.BinaryCIFFile({"b": pdbx.BinaryCIFBlock({"c": pdbx.BinaryCIFCategory({"k": col})})})
        back = load("b", dump("b", f))["b"]["c"]["k"]
    got_vals = [str(x) for x in (back.as_array() if flav == "t" else back.as_array(str))]
    got_mask = None if back.mask is None else [int(x) for x in back.mask.array]
    if got_vals != vals:
        return f"PRESENT values {vals} read back as {got_vals}"
    if got_mask is not None and any(got_mask):
        fl = "text" if flav == "t" else "binary"
        return (f"C06/mask/{fl}/present-placeholder",
                f"PRESENT values {vals} (explicit all-PRESENT mask) are read back with mask {got_mask}")
    return None


def _api_refusals(rng, flav, blocks, c06):
    """input the constructors and setters must refuse, with the documented exception class"""
    import numpy as np
    import biotite.structure.io.pdbx as pdbx
    t = flav == "t"
    Data, Col = (pdbx.CIFData, pdbx.CIFColumn) if t else (pdbx.BinaryCIFData, pdbx.BinaryCIFColumn)
    Cat, Blk, Fil = (pdbx.CIFCategory, pdbx.CIFBlock, pdbx.CIFFile) if t else (pdbx.BinaryCIFCategory, pdbx.BinaryCIFBlock, pdbx.BinaryCIFFile)
    checks = [("object array as data", lambda: Data(np.array(["a", None], dtype=object)), ("ValueError",)),
              ("mask of another length", lambda: Col(["a", "b"] if t else np.array(["a", "b"]), np.array([0], dtype=np.uint8)), ("IndexError",)),
              ("a category as element of a file", lambda: Fil().__setitem__("x", Cat()), ("TypeError", "DeserializationError")),
              ("a block as element of a block", lambda: Blk().__setitem__("x", Blk()), ("TypeError",)),
              ("deleting a missing key", lambda: Blk().__delitem__("zz"), ("KeyError",)),
              ("looking up a missing key", lambda: Fil()["zz"], ("KeyError",))]
    if t:
        checks += [("empty list as column", lambda: Col([]), ("ValueError",)),
                   ("empty array as data", lambda: Data(np.array([], dtype=str)), ("ValueError",)),
                   ("empty column in a category", lambda: Cat({"k": []}), ("ValueError",)),
                   ("a string as element of a block", lambda: Blk().__setitem__("x", "_c.k 1\n"), ("TypeError",)),
                   ("category without a name", lambda: Cat({"k": ["1"]}).serialize(), ("SerializationError",)),
                   ("category without columns", lambda: Cat({}, name="c").serialize(), ("ValueError",))]
    else:
        checks += [("category without columns", lambda: Cat().serialize(), ("SerializationError",))]
    for label, fn, allowed in checks:
        try:
            fn()
            return f"{label}: accepted"
        except Exception as e:  # noqa: BLE001
            if type(e).__name__ not in allowed:
                return f"{label}: raised {type(e).__name__} instead of {allowed[0]}"
    return None


def _api_copy(rng, flav, blocks, c06):
    f = build(flav, blocks)
    for state in ("fresh", "parsed"):
        if state == "parsed":
            f = load(flav, dump(flav, f))
        g = f.copy()
        if list(g) != list(f):
            return f"{state}: copy() has the blocks {list(g)}, the original {list(f)}"
        if content(flav, g) != plain(blocks):
            return f"{state}: copy() holds {content(flav, g)!r}"
        # independent of the original
        bn = next(iter(g))
        cn = next(iter(g[bn]))
        k = next(iter(g[bn][cn]))
        import numpy as np
        n = len(g[bn][cn][k])
        g[bn][cn][k] = ["changed"] * n if flav == "t" else np.array(["changed"] * n)
        del g[bn]
        if content(flav, f) != plain(blocks):
            return f"{state}: editing the copy changed the original"
    return None


def _api_views(rng, flav, blocks, c06):
    f = build(flav, blocks)
    if flav == "t":
        t = f.serialize()
        if str(f) != t:
            return "str(file) differs from serialize()"
        if f.lines != t.splitlines():
            return "file.lines differs from the lines of serialize()"
        for bn in f:
            if str(f[bn]) != f[bn].serialize():
                return "str(block) differs from block.serialize()"
            for cn in f[bn]:
                if str(f[bn][cn]) != f[bn][cn].serialize():
                    return "str(category) differs from category.serialize()"
    import biotite.structure.io.pdbx as _p
    chain = ([_p.CIFFile, _p.CIFBlock, _p.CIFCategory, _p.CIFColumn, _p.CIFData] if flav == "t" else
             [_p.BinaryCIFFile, _p.BinaryCIFBlock, _p.BinaryCIFCategory, _p.BinaryCIFColumn, _p.BinaryCIFData])
    for i, cls in enumerate(chain):
        if cls.subcomponent_class() is not (chain[i + 1] if i + 1 < len(chain) else None):
            return f"{cls.__name__}.subcomponent_class()"
        if cls.supercomponent_class() is not (chain[i - 1] if i > 0 else None):
            return f"{cls.__name__}.supercomponent_class()"
    if len(blocks) == 1:
        if f.block is not f[blocks[0][0]]:
            return "file.block is not the only block"
    else:
        try:
            f.block
            return "file.block of a file with several blocks did not raise"
        except ValueError:
            pass
    # names: the key wins over a name given to the category, and a category shared by two keys is written twice
    if flav == "t":
        import biotite.structure.io.pdbx as pdbx
        cat = pdbx.CIFCategory({"k": ["1", "2"]}, name="own_name")
        if cat.serialize().splitlines()[1] != "_own_name.k ":
            return f"category.serialize() does not use its own name: {cat.serialize()!r}"
        b = pdbx.CIFBlock()
        b["first"] = cat
        b["second"] = cat
        back = pdbx.CIFFile.deserialize(pdbx.CIFFile({"x": b, "y": pdbx.CIFBlock({"third": cat})}).serialize())
        if [list(back[bn]) for bn in back] != [["first", "second"], ["third"]]:
            return f"a category stored under three keys is read back under {[list(back[bn]) for bn in back]}"
        if back["x"]["first"].name != "first" or back["y"]["third"].name != "third":
            return "category names after parsing are not the keys"
    return None


def _api_io(rng, flav, blocks, c06):
    import io
    import biotite.structure.io.pdbx as pdbx
    from common import paths
    f = build(flav, blocks)
    cls = pdbx.CIFFile if flav == "t" else pdbx.BinaryCIFFile
    buf = io.StringIO() if flav == "t" else io.BytesIO()
    f.write(buf)
    buf.seek(0)
    if content(flav, cls.read(buf)) != plain(blocks):
        return "write(file object) / read(file object) does not return the content"
    d = os.path.join(paths.BUILD, "c06-io")
    os.makedirs(d, exist_ok=True)
    path = os.path.join(d, f"{os.getpid()}.{'cif' if flav == 't' else 'bcif'}")
    try:
        f.write(path)
        if content(flav, cls.read(path)) != plain(blocks):
            return "write(path) / read(path) does not return the content"
        # the wrong kind of file object is refused and nothing is written
        wrong = io.BytesIO() if flav == "t" else io.StringIO()
        try:
            f.write(wrong)
            return "write() accepted a file object of the wrong mode"
        except TypeError:
            pass
        if wrong.getvalue() not in (b"", ""):
            return "a refused write() wrote something"
        try:
            cls.read(wrong)
            return "read() accepted a file object of the wrong mode"
        except TypeError:
            pass
    finally:
        if os.path.exists(path):
            os.remove(path)
    return None


def _api_mixin(rng, flav, blocks, c06):
    """keys/values/items/get/pop/popitem/update/setdefault/!= of the MutableMapping mixin against a dict."""
    f = build(flav, blocks)
    if rng.random() < 0.5:
        f = load(flav, dump(flav, f))
    levels = [("file", f, {bn: cats for bn, cats in blocks})]
    bn0, cats0 = blocks[0]
    levels.append(("block", f[bn0], {cn: cols for cn, cols in cats0}))
    cn0, cols0 = cats0[0]
    levels.append(("category", f[bn0][cn0], {k: vs for k, vs in cols0}))
    for lname, cont, ref in levels:
        if list(cont.keys()) != list(ref) or len(cont.values()) != len(ref) or [k for k, _ in cont.items()] != list(ref):
            return f"{lname}: keys()/values()/items() disagree with the keys {list(ref)}"
        if cont.get("no such key") is not None or cont.get("no such key", 7) != 7:
            return f"{lname}: get(missing) is not the default"
        k = rng.choice(list(ref))
        if cont.get(k) is None:
            return f"{lname}: get({k!r}) is None"
        if cont != cont or not (cont == cont):
            return f"{lname}: container is not equal to itself"
        try:
            cont.pop("no such key")
            return f"{lname}: pop(missing) did not raise"
        except KeyError:
            pass
        except ValueError:
            if not (lname == "category" and flav == "t" and len(ref) == 1):
                return f"{lname}: pop(missing) raised ValueError"
        if cont.pop("no such key", 5) != 5 and not (lname == "category" and flav == "t" and len(ref) == 1):
            return f"{lname}: pop(missing, default) is not the default"
        if list(cont) != list(ref):
            return f"{lname}: a refused pop changed the keys to {list(cont)}"
        if len(ref) >= 2:
            v = cont.pop(k)
            del ref[k]
            if v is None or k in cont or list(cont) != list(ref):
                return f"{lname}: pop({k!r}) left the keys {list(cont)}"
            cont.setdefault(k, v)
            ref[k] = None
            if list(cont) != list(ref):
                return f"{lname}: setdefault({k!r}) gave the keys {list(cont)}"
            k2, v2 = cont.popitem()
            if k2 not in ref or k2 in cont or len(cont) != len(ref) - 1:
                return f"{lname}: popitem() returned {k2!r}, keys now {list(cont)}"
            del ref[k2]
            cont.update({k2: v2})
            ref[k2] = None
            if list(cont) != list(ref):
                return f"{lname}: update() gave the keys {list(cont)}, a dict has {list(ref)}"
    return None


def _api_defaults(rng, flav, blocks, c06):
    import biotite.structure.io.pdbx as pdbx
    classes = ([pdbx.CIFFile, pdbx.CIFBlock, pdbx.CIFCategory] if flav == "t"
               else [pdbx.BinaryCIFFile, pdbx.BinaryCIFBlock, pdbx.BinaryCIFCategory])
    elems = [new_block(flav, blocks[0][1]), new_category(flav, blocks[0][1][0][1]),
             build(flav, blocks)[blocks[0][0]][blocks[0][1][0][0]][blocks[0][1][0][1][0][0]]]
    for cls, elem in zip(classes, elems):
        a, b = cls(), cls()
        a["x"] = elem
        if len(b) != 0 or "x" in b or list(b) != []:
            return f"two default-constructed {cls.__name__} objects share their content"
        c = cls()
        if len(c) != 0:
            return f"a new {cls.__name__}() is not empty after another one was filled"
    if flav == "b":
        # an explicit row_count competes with the length of the columns: the right one is written, a wrong one refused
        cols = blocks[0][1][0][1]
        n = len(cols[0][1])
        import numpy as np
        good = pdbx.BinaryCIFCategory({k: np.array(list(vs)) for k, vs in cols}, row_count=n)
        if good.serialize()["rowCount"] != n or good.row_count != n:
            return "BinaryCIFCategory(row_count=n) does not write n"
        bad = pdbx.BinaryCIFCategory({k: np.array(list(vs)) for k, vs in cols}, row_count=n + 1)
        try:
            ser = bad.serialize()
            if ser["rowCount"] != n:
                return f"BinaryCIFCategory(row_count={n + 1}) over columns of length {n} wrote rowCount {ser['rowCount']}"
        except Exception as e:  # noqa: BLE001
            if type(e).__name__ != "SerializationError":
                return f"wrong explicit row_count: {type(e).__name__}"
    return None


def _api_names(rng, flav, blocks, c06):
    """keys with common prefixes / empty keys keep their identity through a write-read cycle"""
    fams = [["a", "a_", "a_b", "ab", ""], ["x", "x1", "x_1", "x.1"[:1] + "1x"], ["loop", "data", "loop_x", "data_x", "save_"]]
    names = rng.choice(fams)
    rng.shuffle(names)
    cols = blocks[0][1][0][1]
    spec = [(bn, [(cn, [(k, list(cols[0][1])) for k in names]) for cn in names]) for bn in names]
    f = build(flav, spec)
    back = load(flav, dump(flav, f))
    if content(flav, back) != plain(spec):
        return f"names {names}: read back as {[(bn, [cn for cn, _ in cats]) for bn, cats in content(flav, back)]}"
    return None


def _spellings(rng, vs):
    """the same 1-D array of strings in several spellings"""
    import numpy as np
    arr = np.array(list(vs))
    doubled = np.array([x for v in vs for x in (v, "~pad~")])
    ro = arr.copy()
    ro.setflags(write=False)
    wide = arr.astype("U" + str(max(len(v) for v in vs) + 7))
    out = [("list", list(vs)), ("tuple", tuple(vs)), ("ndarray", arr), ("strided", doubled[::2]), ("read-only", ro),
           ("wider dtype", wide), ("np.str_ items", [np.str_(v) for v in vs]), ("reversed twice", arr[::-1][::-1])]
    if all(v.isdigit() and (v == "0" or not v.startswith("0")) and len(v) < 3 for v in vs):
        for dt in (np.int8, np.int16, np.int32, np.int64, np.uint8, np.uint16, np.uint32, np.uint64):
            out.append((dt.__name__, np.array([int(v) for v in vs], dtype=dt)))
        out.append(("python ints", [int(v) for v in vs]))
    return out


def _api_spell(rng, flav, blocks, c06):
    import numpy as np
    import biotite.structure.io.pdbx as pdbx
    from biotite.structure.io.pdbx import MaskValue
    if rng.random() < 0.4:
        vs = [str(rng.randint(0, 99)) for _ in range(rng.randint(1, 4))]
    else:
        vs = [v for v in blocks[0][1][0][1][0][1] if v not in (".", "?")] or ["x"]
    mask = [rng.choice([0, 0, 1, 2]) for _ in vs]
    shown = [v if m == 0 else "." if m == 1 else "?" for v, m in zip(vs, mask)]
    mro = np.array(mask, dtype=np.uint8)
    mro.setflags(write=False)
    masks = [("list", list(mask)), ("tuple", tuple(mask)), ("MaskValue", [MaskValue(m) for m in mask]),
             ("uint8", np.array(mask, dtype=np.uint8)), ("int64", np.array(mask, dtype=np.int64)),
             ("strided", np.array([x for m in mask for x in (m, 0)], dtype=np.uint8)[::2]), ("read-only", mro)]
    # a single item instead of an array
    for item in ("text", 5, np.int16(7), np.str_("s")):
        c1 = pdbx.CIFColumn(item) if flav == "t" else pdbx.BinaryCIFColumn(item)
        got1 = [str(x) for x in (c1.as_array() if flav == "t" else c1.as_array(str))]
        if got1 != [str(item)]:
            return f"a single item {item!r} as column gave {got1}"
    for sname, data in _spellings(rng, vs):
        for mname, m in [("none", None)] + masks[: (len(masks) if sname == "list" else 2)]:
            exp = vs if m is None else shown
            try:
                if flav == "t":
                    col = pdbx.CIFColumn(data) if m is None else pdbx.CIFColumn(data, m)
                    cat = pdbx.CIFCategory({np.str_("k") if sname == "np.str_ items" else "k": col}, name="c")
                    got = [str(x) for x in pdbx.CIFCategory.deserialize(cat.serialize())["k"].as_array()]
                else:
                    col = pdbx.BinaryCIFColumn(data) if m is None else pdbx.BinaryCIFColumn(data, m)
                    f = pdbx.BinaryCIFFile({"b": pdbx.BinaryCIFBlock({"c": pdbx.BinaryCIFCategory({"k": col})})})
                    got = [str(x) for x in load("b", dump("b", f))["b"]["c"]["k"].as_array(str)]
            except Exception as e:  # noqa: BLE001
                return f"values {vs} as {sname}, mask {mask} as {mname}: {type(e).__name__}: {e}"
            if got != exp:
                return f"values {vs} as {sname}, mask {mask} as {mname}: read back {got}, expected {exp}"
            if m is not None and hasattr(m, "tolist") and m.tolist() != list(mask):
                return f"mask argument ({mname}) was modified"
            if hasattr(data, "tolist") and [str(x) for x in data.tolist()] != list(vs):
                return f"data argument ({sname}) was modified"
    return None


def _api_astype(rng, flav, blocks, c06):
    """as_array(dtype, masked_value) / as_item / CIFData(dtype) with non-default arguments"""
    import numpy as np
    import biotite.structure.io.pdbx as pdbx
    n = rng.randint(1, 4)
    ints = [rng.randint(-50, 50) for _ in range(n)]
    mask = [rng.choice([0, 0, 1, 2]) for _ in range(n)]
    if flav == "t":
        col = pdbx.CIFColumn(pdbx.CIFData([str(i) for i in ints]), mask)
        plaincol = pdbx.CIFColumn([str(i) for i in ints])
        fcol = pdbx.CIFColumn(pdbx.CIFData([i + 0.5 for i in ints]), mask)
    else:
        col = pdbx.BinaryCIFColumn(np.array(ints), np.array(mask, dtype=np.uint8))
        plaincol = pdbx.BinaryCIFColumn(np.array(ints))
        fcol = None
    for mv, fill in ((None, 0), (-1, -1), (np.int8(7), 7)):
        got = col.as_array(int, mv) if mv is not None else col.as_array(int)
        exp = [i if m == 0 else fill for i, m in zip(ints, mask)]
        if flav == "b" and mv is None:
            exp = list(ints)          # same kind, no masked_value: the data itself (documented)
        if [int(x) for x in got] != exp:
            return f"as_array(int, masked_value={mv!r}) of {ints} mask {mask} gave {[int(x) for x in got]}, expected {exp}"
    if [int(x) for x in plaincol.as_array(int)] != ints or [float(x) for x in plaincol.as_array(float)] != [float(i) for i in ints]:
        return f"as_array(int/float) of an unmasked column {ints}"
    shown = [str(i) if m == 0 else "." if m == 1 else "?" for i, m in zip(ints, mask)]
    if [str(x) for x in col.as_array(str)] != shown:
        return f"as_array(str) of {ints} mask {mask} gave {[str(x) for x in col.as_array(str)]}"
    if n == 1 or True:
        one = (pdbx.CIFColumn(pdbx.CIFData([str(ints[0])]), [mask[0]]) if flav == "t"
               else pdbx.BinaryCIFColumn(np.array([ints[0]]), np.array([mask[0]], dtype=np.uint8)))
        if str(one.as_item()) != shown[0]:
            return f"as_item() of {ints[0]} with mask {mask[0]} gave {one.as_item()!r}"
    if fcol is not None:
        # a float column with a mask is written with three decimals
        try:
            got = [str(x) for x in fcol.as_array()]
        except Exception as e:  # noqa: BLE001
            return f"as_array() of a masked float column raised {type(e).__name__}: {e}"
        exp = [f"{i + 0.5:.3f}" if m == 0 else "." if m == 1 else "?" for i, m in zip(ints, mask)]
        if got != exp:
            return f"as_array() of the masked float column {[i + 0.5 for i in ints]} gave {got}, expected {exp}"
        if [int(x) for x in pdbx.CIFData([str(i) for i in ints], dtype=int).array] != ints:
            return "CIFData(strings, dtype=int)"
    return None
